#!/venv/bin/python
"""Equivalence fuzzer for the checkers (a development tool, not a registered check).

Applies whole-tree, behaviour-preserving source transformations to a scratch copy of /repo and runs every quick check
against it; every check must still exit 0 (no VIOLATION, no ANALYSIS-ERROR).  The pinned tests are run on the scratch
copy first, to make sure the transformation itself is sound.

  eqfuzz.py list
  eqfuzz.py run [transform ...]       (default: all)   results under $EQ (default /tmp/eqfuzz)
  eqfuzz.py bisect <transform> <Cxx>  apply the transformation to one file at a time and report which files upset Cxx
"""
from __future__ import annotations

import ast
import glob
import json
import os
import shutil
import subprocess
import sys
import tempfile
from concurrent.futures import ThreadPoolExecutor
from pathlib import Path

REPO = Path(os.environ.get("CIJ_REPO", "/repo"))
VERIF = Path(__file__).resolve().parent.parent
EQ = Path(os.environ.get("EQ", "/tmp/eqfuzz"))


# ---------------------------------------------------------------------------------------------------------------------
# transformations: text -> text
# ---------------------------------------------------------------------------------------------------------------------
def t_unparse(text, rel):
    """re-emit every module with ast.unparse: all line numbers, quoting, parentheses and comments change"""
    return ast.unparse(ast.parse(text)) + "\n"


class _Scope(ast.NodeVisitor):
    """names bound in a function (not parameters, not global/nonlocal); nested defs are separate scopes but free uses are renamed too"""

    def __init__(self, fn):
        self.bound = set()
        self.banned = {a.arg for a in fn.args.args + fn.args.kwonlyargs + fn.args.posonlyargs}
        if fn.args.vararg:
            self.banned.add(fn.args.vararg.arg)
        if fn.args.kwarg:
            self.banned.add(fn.args.kwarg.arg)
        self.fn = fn
        for s in fn.body:
            self.visit(s)

    def visit_FunctionDef(self, n):
        self.bound.add(n.name)
        # nested function: its own params/bindings would shadow; ban every name it binds itself
        for a in n.args.args + n.args.kwonlyargs + n.args.posonlyargs:
            self.banned.add(a.arg)
        for c in ast.walk(n):
            if isinstance(c, ast.Name) and isinstance(c.ctx, ast.Store):
                self.banned.add(c.id)
            if isinstance(c, (ast.Global, ast.Nonlocal)):
                self.banned.update(c.names)
    visit_AsyncFunctionDef = visit_FunctionDef

    def visit_Lambda(self, n):
        for a in n.args.args:
            self.banned.add(a.arg)
        self.generic_visit(n)

    def visit_ClassDef(self, n):
        self.bound.add(n.name)
        for c in ast.walk(n):
            if isinstance(c, ast.Name):
                self.banned.add(c.id)

    def visit_Global(self, n):
        self.banned.update(n.names)
    visit_Nonlocal = visit_Global

    def visit_Name(self, n):
        if isinstance(n.ctx, (ast.Store, ast.Del)):
            self.bound.add(n.id)

    def visit_ExceptHandler(self, n):
        if n.name:
            self.banned.add(n.name)
        self.generic_visit(n)

    def visit_Import(self, n):
        for a in n.names:
            self.banned.add((a.asname or a.name).split(".")[0])
    visit_ImportFrom = visit_Import

    def _comp(self, n):
        # comprehension targets are their own scope
        for g in n.generators:
            for c in ast.walk(g.target):
                if isinstance(c, ast.Name):
                    self.banned.add(c.id)
        self.generic_visit(n)
    visit_ListComp = visit_SetComp = visit_DictComp = visit_GeneratorExp = _comp


def t_rename_locals(text, rel):
    """alpha-rename the local variables of every top-level function/method (suffix _rn)"""
    tree = ast.parse(text)

    def do_fn(fn):
        sc = _Scope(fn)
        names = {n for n in sc.bound - sc.banned if not n.startswith("__")}
        # locals()/vars()/eval use: leave the function alone
        for c in ast.walk(fn):
            if isinstance(c, ast.Call) and isinstance(c.func, ast.Name) and c.func.id in ("locals", "vars", "eval", "exec"):
                return
        for c in ast.walk(fn):
            if isinstance(c, ast.Name) and c.id in names:
                c.id = c.id + "_rn"
            elif isinstance(c, (ast.FunctionDef, ast.AsyncFunctionDef, ast.ClassDef)) and c is not fn and c.name in names:
                c.name = c.name + "_rn"

    def walk(node):
        for c in ast.iter_child_nodes(node):
            if isinstance(c, (ast.FunctionDef, ast.AsyncFunctionDef)):
                do_fn(c)
            elif isinstance(c, ast.ClassDef):
                walk(c)
    walk(tree)
    return ast.unparse(tree) + "\n"


def t_if_swap(text, rel):
    """`if c: A else: B` -> `if not c: B else: A` wherever there is a plain else branch"""
    tree = ast.parse(text)
    for n in ast.walk(tree):
        if isinstance(n, ast.If) and n.orelse and not (len(n.orelse) == 1 and isinstance(n.orelse[0], ast.If)):
            n.test = ast.UnaryOp(ast.Not(), n.test)
            n.body, n.orelse = n.orelse, n.body
    return ast.unparse(ast.fix_missing_locations(tree)) + "\n"


def t_return_temp(text, rel):
    """`return e` -> `_result = e; return _result` (not in generators' bare returns, not for tuples that callers unpack - still equivalent)"""
    tree = ast.parse(text)

    class T(ast.NodeTransformer):
        def visit_Return(self, n):
            if n.value is None or isinstance(n.value, (ast.Name, ast.Constant)):
                return n
            a = ast.Assign([ast.Name("_result", ast.Store())], n.value)
            r = ast.Return(ast.Name("_result", ast.Load()))
            return [a, r]

        def visit_Lambda(self, n):
            return n
    tree = T().visit(tree)
    return ast.unparse(ast.fix_missing_locations(tree)) + "\n"


def t_alias_imports(text, rel):
    """`import numpy` -> `import numpy as np_x` (and scipy..., itertools, re, json), with every use renamed"""
    tree = ast.parse(text)
    ren = {}
    shadow = {n.id for n in ast.walk(tree) if isinstance(n, ast.Name) and isinstance(n.ctx, ast.Store)}
    shadow |= {a.arg for n in ast.walk(tree) if isinstance(n, ast.arguments) for a in n.args + n.kwonlyargs}
    for n in tree.body:
        if isinstance(n, ast.Import):
            for a in n.names:
                if a.asname is None and "." not in a.name and a.name in ("numpy", "itertools", "re", "json", "pandas", "sympy", "networkx", "yaml", "logging", "os") \
                        and a.name not in shadow:
                    ren[a.name] = a.name[:2] + "_x"
                    a.asname = ren[a.name]
    # function-level imports of the same module would rebind the original name: leave those modules alone
    for n in ast.walk(tree):
        if isinstance(n, ast.Import) and n not in tree.body:
            for a in n.names:
                ren.pop((a.asname or a.name).split(".")[0], None)
    for n in tree.body:
        if isinstance(n, ast.Import):
            for a in n.names:
                if a.asname and a.asname.endswith("_x") and a.name not in ren:
                    a.asname = None
    for n in ast.walk(tree):
        if isinstance(n, ast.Name) and n.id in ren:
            n.id = ren[n.id]
    return ast.unparse(tree) + "\n"


def t_reorder_defs(text, rel):
    """reverse the order of undecorated methods in classes whose bodies consist of defs (and docstring)"""
    tree = ast.parse(text)
    for c in ast.walk(tree):
        if isinstance(c, ast.ClassDef):
            body = c.body
            head = [s for s in body if not isinstance(s, ast.FunctionDef)]
            defs = [s for s in body if isinstance(s, ast.FunctionDef)]
            # keep property setters after their getters: only reorder when no decorator refers to another member
            names = {d.name for d in defs}
            ok = all(not any(isinstance(x, ast.Name) and x.id in names for dec in d.decorator_list for x in ast.walk(dec)) for d in defs)
            ok = ok and all(isinstance(s, (ast.Expr, ast.Assign, ast.AnnAssign, ast.Pass)) for s in head)
            # class-level statements that use a def (e.g. x = staticmethod(f)) would break
            ok = ok and not any(isinstance(x, ast.Name) and x.id in names for s in head for x in ast.walk(s))
            # head statements must all come before the first def already
            first_def = min((body.index(d) for d in defs), default=0)
            ok = ok and all(body.index(s) < first_def for s in head)
            if ok and len(defs) > 1:
                c.body = head + defs[::-1]
    return ast.unparse(tree) + "\n"


def t_kw_to_pos_self(text, rel):
    """`x = a if c else b` stays; chained comparison `a < b < c` -> `a < b and b < c` when b is a plain name/constant"""
    tree = ast.parse(text)

    class T(ast.NodeTransformer):
        def visit_Compare(self, n):
            self.generic_visit(n)
            if len(n.ops) == 2 and isinstance(n.comparators[0], (ast.Name, ast.Constant)):
                return ast.BoolOp(ast.And(), [ast.Compare(n.left, [n.ops[0]], [n.comparators[0]]),
                                              ast.Compare(n.comparators[0], [n.ops[1]], [n.comparators[1]])])
            return n
    return ast.unparse(ast.fix_missing_locations(T().visit(tree))) + "\n"


def t_fstring_to_format(text, rel):
    """f"...{a}..." -> "...{}...".format(a) for f-strings without format specs/conversions/nesting"""
    tree = ast.parse(text)

    class T(ast.NodeTransformer):
        def visit_JoinedStr(self, n):
            parts, args = [], []
            for v in n.values:
                if isinstance(v, ast.Constant):
                    parts.append(str(v.value).replace("{", "{{").replace("}", "}}"))
                elif isinstance(v, ast.FormattedValue) and v.format_spec is None and v.conversion == -1:
                    parts.append("{}")
                    args.append(v.value)
                else:
                    return n
            return ast.Call(ast.Attribute(ast.Constant("".join(parts)), "format", ast.Load()), args, [])
    return ast.unparse(ast.fix_missing_locations(T().visit(tree))) + "\n"


def t_docstrings_and_hints(text, rel):
    """add a docstring-free function a docstring, annotate returns with `-> object`-free hints: add `-> "object"` and a leading log-free no-op"""
    tree = ast.parse(text)
    for n in ast.walk(tree):
        if isinstance(n, (ast.FunctionDef,)):
            if not (n.body and isinstance(n.body[0], ast.Expr) and isinstance(n.body[0].value, ast.Constant) and isinstance(n.body[0].value.value, str)):
                n.body.insert(0, ast.Expr(ast.Constant("Documented by the equivalence fuzzer.")))
            for a in n.args.args:
                if a.annotation is None and a.arg not in ("self", "cls"):
                    a.annotation = ast.Constant("object")
    return ast.unparse(ast.fix_missing_locations(tree)) + "\n"


def t_debug_logging(text, rel):
    """modules that define `logger`: a logger.debug(...) call at the top of every function"""
    tree = ast.parse(text)
    if not any(isinstance(st, ast.Assign) and any(isinstance(t, ast.Name) and t.id == "logger" for t in st.targets) for st in tree.body):
        return text
    for n in ast.walk(tree):
        if isinstance(n, ast.FunctionDef):
            pos = 1 if (n.body and isinstance(n.body[0], ast.Expr) and isinstance(n.body[0].value, ast.Constant) and isinstance(n.body[0].value.value, str)) else 0
            if any(isinstance(x, (ast.Yield, ast.YieldFrom)) for x in ast.walk(n)):
                continue
            call = ast.Expr(ast.Call(ast.Attribute(ast.Name("logger", ast.Load()), "debug", ast.Load()), [ast.Constant(f"entering {n.name}")], []))
            n.body.insert(pos, call)
    return ast.unparse(ast.fix_missing_locations(tree)) + "\n"


def t_inner_function(text, rel):
    """`return <expr>` as the last statement -> `def _compute(): return <expr>` + `return _compute()` (closure over the locals)"""
    tree = ast.parse(text)
    for n in ast.walk(tree):
        if isinstance(n, ast.FunctionDef) and n.body and isinstance(n.body[-1], ast.Return) and n.body[-1].value is not None:
            if any(isinstance(x, (ast.Yield, ast.YieldFrom, ast.Await)) for x in ast.walk(n)):
                continue
            if any(isinstance(x, ast.Name) and x.id in ("super", "locals", "vars", "__class__") for x in ast.walk(n)):
                continue
            ret = n.body[-1]
            if isinstance(ret.value, (ast.Name, ast.Constant)):
                continue
            if any(isinstance(x, ast.NamedExpr) for x in ast.walk(ret.value)):
                continue
            inner = ast.FunctionDef(name="_compute", args=ast.arguments(posonlyargs=[], args=[], kwonlyargs=[], kw_defaults=[], defaults=[]),
                                    body=[ast.Return(ret.value)], decorator_list=[], type_params=[])
            n.body[-1:] = [inner, ast.Return(ast.Call(ast.Name("_compute", ast.Load()), [], []))]
    return ast.unparse(ast.fix_missing_locations(tree)) + "\n"


def t_tuple_list_iter(text, rel):
    """`for x in (a, b, c)` <-> `for x in [a, b, c]` (loops and comprehensions)"""
    tree = ast.parse(text)
    for n in ast.walk(tree):
        if isinstance(n, (ast.For, ast.comprehension)):
            if isinstance(n.iter, ast.Tuple):
                n.iter = ast.List(n.iter.elts, ast.Load())
            elif isinstance(n.iter, ast.List):
                n.iter = ast.Tuple(n.iter.elts, ast.Load())
    return ast.unparse(ast.fix_missing_locations(tree)) + "\n"


def t_de_morgan(text, rel):
    """`if a and b:` -> `if not (not a or not b):` (and the dual) in if/while tests"""
    tree = ast.parse(text)
    for n in ast.walk(tree):
        if isinstance(n, (ast.If, ast.While)) and isinstance(n.test, ast.BoolOp):
            t = n.test
            dual = ast.Or() if isinstance(t.op, ast.And) else ast.And()
            n.test = ast.UnaryOp(ast.Not(), ast.BoolOp(dual, [ast.UnaryOp(ast.Not(), v) for v in t.values]))
    return ast.unparse(ast.fix_missing_locations(tree)) + "\n"


def t_constant_indirection(text, rel):
    """module-level `NAME = <constant/str/regex literal>` -> `_NAME_VALUE = ...; NAME = _NAME_VALUE`"""
    tree = ast.parse(text)
    new_body = []
    for st in tree.body:
        if isinstance(st, ast.Assign) and len(st.targets) == 1 and isinstance(st.targets[0], ast.Name) and st.targets[0].id.isupper() \
                and isinstance(st.value, (ast.Constant, ast.Dict, ast.Tuple, ast.List)):
            tmp = f"_{st.targets[0].id}_VALUE"
            new_body.append(ast.Assign([ast.Name(tmp, ast.Store())], st.value))
            new_body.append(ast.Assign([ast.Name(st.targets[0].id, ast.Store())], ast.Name(tmp, ast.Load())))
        else:
            new_body.append(st)
    tree.body = new_body
    return ast.unparse(ast.fix_missing_locations(tree)) + "\n"


TRANSFORMS = {
    "unparse": t_unparse,
    "rename_locals": t_rename_locals,
    "if_swap": t_if_swap,
    "return_temp": t_return_temp,
    "alias_imports": t_alias_imports,
    "reorder_defs": t_reorder_defs,
    "split_chain": t_kw_to_pos_self,
    "fstring_format": t_fstring_to_format,
    "docstrings_hints": t_docstrings_and_hints,
    "debug_logging": t_debug_logging,
    "inner_function": t_inner_function,
    "tuple_list_iter": t_tuple_list_iter,
    "de_morgan": t_de_morgan,
    "constant_indirection": t_constant_indirection,
}


# ---------------------------------------------------------------------------------------------------------------------
def make_copy(name, files=None):
    tmp = Path(tempfile.mkdtemp(prefix=f"eq-{name}-"))
    subprocess.run(["rsync", "-a", "--exclude", ".git", "--exclude", "__pycache__", "--exclude", "out", str(REPO) + "/", str(tmp) + "/"], check=True)
    fn = TRANSFORMS[name]
    changed = 0
    for p in sorted(glob.glob(str(tmp / "cij/**/*.py"), recursive=True)):
        rel = os.path.relpath(p, tmp)
        if files is not None and rel not in files:
            continue
        text = Path(p).read_text()
        import warnings
        with warnings.catch_warnings():
            warnings.simplefilter("ignore")
            try:
                new = fn(text, rel)
                compile(new, rel, "exec")
            except SyntaxError as e:
                print("  transformation produced a syntax error in", rel, e)
                continue
        if new != text:
            Path(p).write_text(new)
            changed += 1
    return tmp, changed


def run_tests(tmp):
    env = dict(os.environ, PYTHONPATH=str(tmp), PYTHONDONTWRITEBYTECODE="1")
    r = subprocess.run(["/venv/bin/python", "-m", "pytest", "-q", "-p", "no:cacheprovider", "--timeout=900", "--deselect", "tests/test_cij_cli_run.py",
                        "--deselect", "tests/test_cij_cli_static.py"], cwd=tmp, env=env, capture_output=True, text=True, timeout=1800)
    return r.stdout.strip().splitlines()[-1] if r.stdout.strip() else r.stderr[-300:]


def run_check(tmp, prop):
    ev = tempfile.mkdtemp(prefix="eqev-")
    env = dict(os.environ, CIJ_REPO=str(tmp), CIJSA_EVIDENCE_DIR=ev)
    try:
        r = subprocess.run([sys.executable, "-B", "-m", "cijsa", prop, "--tier", "quick"], cwd=VERIF, env=env, capture_output=True, text=True, timeout=1800)
        out = r.stdout.splitlines()
        first = ""
        for i, l in enumerate(out):
            if l.startswith("VIOLATION"):
                first = (out[i + 1] if i + 1 < len(out) else l)[:300]
                break
            if l.startswith("ANALYSIS-ERROR"):
                first = l[:300]
                break
        return prop, r.returncode, first
    except subprocess.TimeoutExpired:
        return prop, 99, "timeout"
    finally:
        shutil.rmtree(ev, ignore_errors=True)


def cmd_run(names):
    EQ.mkdir(parents=True, exist_ok=True)
    props = [f"C{i:02d}" for i in range(1, 21)]
    for name in names:
        tmp, changed = make_copy(name)
        try:
            print(f"== {name}: {changed} files changed; tests: {run_tests(tmp) if not os.environ.get('SKIP_TESTS') else 'skipped'}", flush=True)
            with ThreadPoolExecutor(int(os.environ.get("JOBS", "10"))) as ex:
                res = list(ex.map(lambda p: run_check(tmp, p), props))
            bad = [(p, rc, f) for p, rc, f in res if rc != 0]
            print(f"   {len(res) - len(bad)} ok, {len(bad)} not ok")
            for p, rc, f in bad:
                print(f"   {p} rc={rc} {f}")
            json.dump(res, open(EQ / f"{name}.json", "w"))
        finally:
            shutil.rmtree(tmp, ignore_errors=True)


def cmd_bisect(name, prop):
    files = [os.path.relpath(p, REPO) for p in sorted(glob.glob(str(REPO / "cij/**/*.py"), recursive=True))]

    def one(f):
        tmp, changed = make_copy(name, files={f})
        try:
            if not changed:
                return f, 0, "unchanged"
            return (f,) + run_check(tmp, prop)[1:]
        finally:
            shutil.rmtree(tmp, ignore_errors=True)
    with ThreadPoolExecutor(int(os.environ.get("JOBS", "10"))) as ex:
        for f, rc, first in ex.map(one, files):
            if rc != 0:
                print(f, rc, first)


if __name__ == "__main__":
    if sys.argv[1] == "list":
        for k, f in TRANSFORMS.items():
            print(k, "-", f.__doc__)
    elif sys.argv[1] == "run":
        cmd_run(sys.argv[2:] or list(TRANSFORMS))
    elif sys.argv[1] == "bisect":
        cmd_bisect(sys.argv[2], sys.argv[3])
