#!/venv/bin/python
"""Install the round-4 (behaviour-preserving rewrites s*, /root/r4) and round-5 (breaking changes t*, /root/r5) sub-agent
candidates, plus the hand-made passing twins of round-5 breakers (/root/r5eq/*.diff), into /verif/seeded_equiv and /verif/seeded.
Results: /root/r4res (first pass) /root/r4res3 (final), /root/r5res (first pass + confirmation) /root/r5res2 (final)."""
import json, re, shutil, subprocess
from pathlib import Path

VERIF = Path("/verif")


def parse_checks(p):
    det, err, first = [], [], {}
    if not p.exists():
        return det, err, first
    for line in p.read_text(errors="replace").splitlines():
        m = re.match(r"(C\d\d) rc=(\d+)(?: violations=\d+)? \|\s*(.*)", line)
        if not m:
            continue
        prop, rc, rest = m.group(1), int(m.group(2)), m.group(3)
        if rc == 1:
            det.append(prop)
            first[prop] = rest[:260]
        elif rc != 0:
            err.append(prop)
    return det, err, first


def props_for(patch, prop):
    pr = subprocess.run([str(VERIF / "tools/props_for.py"), str(patch), prop], capture_output=True, text=True).stdout.split()
    return [f"C{x}" for x in pr]


def copy_files(d, out):
    out.mkdir(parents=True, exist_ok=True)
    for f in d.iterdir():
        if f.name in ("patch.diff", "demo.py", "demo.sh"):
            shutil.copy(f, out / f.name)


# ------------------------------------------------------------------ round 5: breaking changes
for d in sorted(Path("/root/r5").iterdir()):
    L = d.name
    prop, var = L[1:4], L[4]
    meta_in = json.loads((d / "meta.json").read_text()) if (d / "meta.json").exists() else {}
    det1, err1, _ = parse_checks(Path("/root/r5res") / f"{L}.checks")
    det2, err2, first2 = parse_checks(Path("/root/r5res2") / f"{L}.checks")
    new_var = {"A": "F", "B": "G", "C": "H"}[var]
    sid = f"{prop}{new_var}"
    conf = (Path("/root/r5res") / f"{L}.confirm").read_text(errors="replace")
    tests = re.search(r"(\d+ passed[^\n]*)", conf)
    meta = {
        "id": sid, "property": prop, "variant": new_var, "round": 5,
        "summary": meta_in.get("summary", ""), "needs_to_manifest": meta_in.get("needs_to_manifest", ""),
        "origin": "written by a fresh sub-agent that saw only the property record and its own scratch worktree; asked for changes that need something specific to manifest",
        "confirmed_by_me": {
            "pinned_tests_with_change": tests.group(1) if tests else "",
            "demo_without_change_rc": 0 if "demo without change: rc=0" in conf else None,
            "demo_with_change_rc": 1 if "demo with change: rc=1" in conf else None,
            "commands": ["tools/eval_seed.sh <dir> <label>  (scratch worktree: demo at HEAD, git apply, pinned tests, demo)",
                         "tools/check_seed.sh patch.diff  (scratch copy of /repo + patch; ./check Cxx --tier quick with CIJ_REPO for every property whose check reads a touched file)"],
        },
        "detected_by": det2, "analysis_error_in": err2, "first_report": first2,
        "detected_before_strengthening": det1, "analysis_error_before_strengthening": err1,
    }
    out = VERIF / "seeded" / sid
    copy_files(d, out)
    (out / "meta.json").write_text(json.dumps(meta, indent=1, ensure_ascii=False))
    print(sid, "<-", L, "detected_by", det2, "errors", err2)

# ------------------------------------------------------------------ round 4: behaviour-preserving rewrites
for d in sorted(Path("/root/r4").iterdir()):
    L = d.name
    if not L.startswith("sC") or not (d / "patch.diff").exists():
        continue
    prop, var = L[1:4], L[4]
    meta_in = json.loads((d / "meta.json").read_text()) if (d / "meta.json").exists() else {}
    chk1 = (Path("/root/r4res") / f"{L}.checks").read_text(errors="replace") if (Path("/root/r4res") / f"{L}.checks").exists() else ""
    det1, err1, _ = parse_checks(Path("/root/r4res") / f"{L}.checks")
    det2, err2, first2 = parse_checks(Path("/root/r4res3") / f"{L}.checks")
    tests = re.search(r"(\d+ passed[^\n]*)", chk1)
    sid = f"{prop}S{var}"
    meta = {
        "id": sid, "property": prop, "variant": var, "round": 4, "expect": "silent",
        "summary": meta_in.get("summary", ""),
        "origin": "behaviour-preserving rewrite in an unusual idiom, written by a fresh sub-agent that saw only the property record and its own scratch worktree",
        "confirmed_by_me": {"pinned_tests_with_change": tests.group(1) if tests else "", "demo_with_change_rc": 0 if "demo rc=0" in chk1 else None,
                            "commands": ["tools/eval_refactor.sh <dir> <label>  (scratch copy + patch: demo, pinned tests, quick checks)"]},
        "nonzero_first_pass": sorted(set(det1 + err1)), "violations_first_pass": sorted(set(det1)),
        "nonzero_final": sorted(set(det2 + err2)), "analysis_error_final": sorted(set(err2)),
        "files": sorted(set(re.findall(r"^\+\+\+ b/(\S+)", (d / "patch.diff").read_text(), re.M))),
        "props_checked": [p for p in props_for(d / "patch.diff", prop) if p not in err2],
    }
    out = VERIF / "seeded_equiv" / sid
    copy_files(d, out)
    (out / "meta.json").write_text(json.dumps(meta, indent=1, ensure_ascii=False))
    print(sid, "<-", L, "nonzero", meta["nonzero_final"])

# ------------------------------------------------------------------ passing twins of round-5 breakers
TWINS = {
    "C01_flat_average_repeat": ("C01", "TA", "tC01C/C01H with numpy.repeat(q_weights, np) instead of numpy.tile: the flattened (q, m) average with the weight of q on each of its modes"),
    "C02_einsum_gap_normalised": ("C02", "TA", "tC13C/C13H with the weights divided by their sum instead of by 2: the einsum formulation of the two mode sums, weight-normalised (read by the cell-by-cell fold R02.7; the AVG-basis rules of the other properties cannot read it and end in exit 2)"),
    "C08_solution_frame_indexed": ("C08", "TA", "tC08B/C08G with index=elast.index: the labelled solution frame carries the table's own row labels, so the write-back aligns row by row"),
    "C18_gradient_scalar_spacing": ("C18", "TA", "tC18C/C18H with the spacing (v_hi - v_lo)/(ntv - 1): numpy.gradient with the scalar spacing of the uniform grid"),
    "C20_reshape_view_guarded": ("C20", "TA", "tC20B/C20G with the explicit width test kept in front of the per-atom reshaped view"),
}
for f in sorted(Path("/root/r5eq").glob("*.diff")):
    prop, var, text = TWINS[f.stem]
    det2, err2, _ = parse_checks(Path("/root/r4res3") / f"EQ_{f.stem}.checks")
    sid = f"{prop}{var}"
    out = VERIF / "seeded_equiv" / sid
    out.mkdir(parents=True, exist_ok=True)
    shutil.copy(f, out / "patch.diff")
    meta = {"id": sid, "property": prop, "variant": var, "round": 5, "expect": "silent", "summary": text,
            "origin": "correct twin of a round-5 breaking change, made by hand from its patch (one expression differs): the check that reports the breaker must stay silent on it",
            "confirmed_by_me": {"commands": ["tools/check_seed.sh patch.diff  (all 20 quick checks on a scratch copy)"]},
            "nonzero_final": sorted(set(det2 + err2)),
            "files": sorted(set(re.findall(r"^\+\+\+ b/(\S+)", f.read_text(), re.M))),
            "props_checked": [p for p in props_for(f, prop) if p not in err2]}
    (out / "meta.json").write_text(json.dumps(meta, indent=1, ensure_ascii=False))
    print(sid, "<-", f.name, "nonzero", meta["nonzero_final"])
