#!/venv/bin/python
"""Install a round of minimal pairs written by sub-agents (/root/r<N>/<agent><A|B>[_ok]): breaking members into /verif/seeded/<prop><letter>,
their behaviour-preserving twins into /verif/seeded_equiv/<prop><prefix>{A,B}.  First-pass results /root/r<N>res, final /root/r<N>res2.
usage: install_r6.py [round]     round 6 (default): letters J,K / prefix U;  round 7: letters L,M / prefix V;  round 8: letters N,P / prefix W"""
import json, re, shutil, subprocess, sys
from pathlib import Path

VERIF = Path("/verif")
ROUND = int(sys.argv[1]) if len(sys.argv) > 1 else 6
LETTERS, PREFIX = {6: ({"A": "J", "B": "K"}, "U"), 7: ({"A": "L", "B": "M"}, "V"), 8: ({"A": "N", "B": "P"}, "W"), 9: ({"A": "Q"}, "X"), 10: ({"A": "R"}, "Y"), 11: ({"A": "S"}, "Z")}[ROUND]
SRC, RES1, RES2 = Path(f"/root/r{ROUND}"), Path(f"/root/r{ROUND}res"), Path(f"/root/r{ROUND}res2")


def parse_checks(p):
    det, err, first = [], [], {}
    if not p.exists():
        return det, err, first
    for line in p.read_text(errors="replace").splitlines():
        m = re.match(r"(C\d\d) rc=(\d+)(?: violations=\d+)? \|\s*(.*)", line)
        if not m:
            continue
        prop, rc, rest = m.group(1), int(m.group(2)), m.group(3)
        if rc == 1:
            det.append(prop)
            first[prop] = rest[:260]
        elif rc != 0:
            err.append(prop)
    return det, err, first


def props_for(patch, prop):
    pr = subprocess.run([str(VERIF / "tools/props_for.py"), str(patch), prop], capture_output=True, text=True).stdout.split()
    return [f"C{x}" for x in pr]


for d in sorted(SRC.iterdir()):
    L = d.name                      # uC07A / uC07A_ok
    prop, var, ok = L[1:4], L[4], L.endswith("_ok")
    meta_in = json.loads((d / "meta.json").read_text()) if (d / "meta.json").exists() else {}
    det1, err1, _ = parse_checks(RES1 / f"{L}.checks")
    det2, err2, first2 = parse_checks(RES2 / f"{L}.checks")
    if not ok:
        sid = f"{prop}{LETTERS[var]}"
        conf = (RES1 / f"{L}.confirm").read_text(errors="replace")
        tests = re.search(r"(\d+ passed[^\n]*)", conf)
        meta = {
            "id": sid, "property": prop, "variant": sid[3], "round": ROUND, "twin": f"{prop}{PREFIX}{var}",
            "summary": meta_in.get("summary", ""), "needs_to_manifest": meta_in.get("needs_to_manifest", ""),
            "origin": "breaking member of a minimal pair written by a fresh sub-agent that saw only the property record and its own scratch worktree",
            "confirmed_by_me": {
                "pinned_tests_with_change": tests.group(1) if tests else "",
                "demo_without_change_rc": 0 if "demo without change: rc=0" in conf else None,
                "demo_with_change_rc": 1 if "demo with change: rc=1" in conf else None,
                "commands": ["tools/eval_seed.sh <dir> <label>", "tools/check_seed.sh patch.diff (scratch copy; checks of every property that reads a touched file)"],
            },
            "detected_by": det2, "analysis_error_in": err2, "first_report": first2,
            "detected_before_strengthening": det1, "analysis_error_before_strengthening": err1,
        }
        out = VERIF / "seeded" / sid
    else:
        sid = f"{prop}{PREFIX}{var}"
        chk1 = (RES1 / f"{L}.checks").read_text(errors="replace") if (RES1 / f"{L}.checks").exists() else ""
        tests = re.search(r"(\d+ passed[^\n]*)", chk1)
        meta = {
            "id": sid, "property": prop, "variant": var, "round": ROUND, "expect": "silent", "twin_of": f"{prop}{LETTERS[var]}",
            "summary": meta_in.get("summary", ""),
            "origin": "behaviour-preserving member of a minimal pair (same place, same idiom as the breaking member, one expression differs), written by the same sub-agent",
            "confirmed_by_me": {"pinned_tests_with_change": tests.group(1) if tests else "", "demo_with_change_rc": 0 if "demo rc=0" in chk1 else None,
                                "commands": ["tools/eval_refactor.sh <dir> <label> <props>"]},
            "nonzero_first_pass": sorted(set(det1 + err1)), "violations_first_pass": sorted(set(det1)),
            "nonzero_final": sorted(set(det2 + err2)), "violations_final": sorted(set(det2)), "analysis_error_final": sorted(set(err2)),
            "files": sorted(set(re.findall(r"^\+\+\+ b/(\S+)", (d / "patch.diff").read_text(), re.M))),
            # self-validation expects silence from the checks that can read the twin; those that end in exit 2 on it are listed above, not hidden
            "props_checked": [p for p in props_for(d / "patch.diff", prop) if p not in err2 and p not in det2],   # a twin that still draws a VIOLATION is listed under violations_final and described in DESIGN, not asserted silent
        }
        out = VERIF / "seeded_equiv" / sid
    out.mkdir(parents=True, exist_ok=True)
    for f in d.iterdir():
        if f.name in ("patch.diff", "demo.py", "demo.sh"):
            shutil.copy(f, out / f.name)
    (out / "meta.json").write_text(json.dumps(meta, indent=1, ensure_ascii=False))
    print(sid, "<-", L, ("detected_by " + str(det2) + " errors " + str(err2)) if not ok else ("violations " + str(det2) + " errors " + str(err2)))
