#!/venv/bin/python
"""Markdown tables for DESIGN.md from the seeded corpus: tools/design_tables.py <round>"""
import json, sys, glob
if sys.argv[1] == "pairs":
    rnd = -1
else:
    rnd = int(sys.argv[1])
rows = []
for m in sorted(glob.glob("/verif/seeded/*/meta.json")):
    d = json.load(open(m))
    if d.get("round") != rnd:
        continue
    before = ", ".join(d.get("detected_before_strengthening", [])) or ("exit 2" if d.get("analysis_error_before_strengthening") else "silent")
    now = ", ".join(d.get("detected_by", [])) or ("not reported (exit 2)" if d.get("analysis_error_in") else "not reported (silent)")
    s = d.get("summary", "").replace("\n", " ").replace("|", "/")
    rows.append(f"| {d['id']} | {s[:150]}… | {before} | {now} |")
print("| id | change (agent's summary) | reported at the start of the round | reported now |")
print("|----|--------------------------|------------------------------------|--------------|")
print("\n".join(rows))
eq = [json.load(open(m)) for m in sorted(glob.glob("/verif/seeded_equiv/*/meta.json"))]
eq = [d for d in eq if d.get("round") == rnd]
if eq:
    print()
    print(f"rewrites of round {rnd}: {len(eq)}; first pass non-zero in {sum(1 for d in eq if d.get('nonzero_first_pass'))}, "
          f"false VIOLATION in {sum(1 for d in eq if d.get('violations_first_pass'))}; final non-zero: "
          + (", ".join(f"{d['id']} ({'/'.join(d['nonzero_final'])})" for d in eq if d.get("nonzero_final")) or "none"))


def pairs_table(rnd):
    """table of a round of minimal pairs (rounds 6, 7): tools/design_tables.py pairs <round>"""
    rows = []
    for m in sorted(glob.glob("/verif/seeded/*/meta.json")):
        d = json.load(open(m))
        if d.get("round") != rnd or "twin" not in d:
            continue
        t = json.load(open(f"/verif/seeded_equiv/{d['twin']}/meta.json"))
        now = ", ".join(d["detected_by"]) or ("not reported (exit 2 in " + "/".join(d["analysis_error_in"]) + ")" if d["analysis_error_in"] else "not reported (silent)")
        before = ", ".join(d["detected_before_strengthening"]) or ("exit 2" if d["analysis_error_before_strengthening"] else "silent")
        tw_first = "FALSE VIOLATION " + "/".join(t["violations_first_pass"]) if t["violations_first_pass"] else ("exit 2" if t["nonzero_first_pass"] else "silent")
        tw_now = "silent" if not t["nonzero_final"] else ("FALSE VIOLATION " + "/".join(t["violations_final"]) if t.get("violations_final") else "exit 2 in " + "/".join(t["analysis_error_final"]))
        s_ = d["summary"].replace("\n", " ").replace("|", "/")[:120]
        rows.append(f"| {d['id']} / {t['id']} | {s_}… | {before} | {now} | {tw_first} | {tw_now} |")
    print("| pair (breaking / twin) | breaking change (agent's summary) | breaking: first pass | breaking: now | twin: first pass | twin: now |\n|---|---|---|---|---|---|")
    print("\n".join(rows))


if len(sys.argv) > 2 and sys.argv[1] == "pairs":
    pairs_table(int(sys.argv[2]))
