#!/venv/bin/python
"""Markdown tables for DESIGN.md from the seeded corpus: tools/design_tables.py <round>"""
import json, sys, glob
rnd = int(sys.argv[1])
rows = []
for m in sorted(glob.glob("/verif/seeded/*/meta.json")):
    d = json.load(open(m))
    if d.get("round") != rnd:
        continue
    before = ", ".join(d.get("detected_before_strengthening", [])) or ("exit 2" if d.get("analysis_error_before_strengthening") else "silent")
    now = ", ".join(d.get("detected_by", [])) or ("not reported (exit 2)" if d.get("analysis_error_in") else "not reported (silent)")
    s = d.get("summary", "").replace("\n", " ").replace("|", "/")
    rows.append(f"| {d['id']} | {s[:150]}… | {before} | {now} |")
print("| id | change (agent's summary) | reported at the start of the round | reported now |")
print("|----|--------------------------|------------------------------------|--------------|")
print("\n".join(rows))
eq = [json.load(open(m)) for m in sorted(glob.glob("/verif/seeded_equiv/*/meta.json"))]
eq = [d for d in eq if d.get("round") == rnd]
if eq:
    print()
    print(f"rewrites of round {rnd}: {len(eq)}; first pass non-zero in {sum(1 for d in eq if d.get('nonzero_first_pass'))}, "
          f"false VIOLATION in {sum(1 for d in eq if d.get('violations_first_pass'))}; final non-zero: "
          + (", ".join(f"{d['id']} ({'/'.join(d['nonzero_final'])})" for d in eq if d.get("nonzero_final")) or "none"))
