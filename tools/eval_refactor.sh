#!/bin/bash
# usage: tools/eval_refactor.sh <candidate dir with patch.diff and demo.py> <label> [props...]
# a behaviour-preserving rewrite: scratch copy of /repo + patch; demo and pinned tests must pass; every quick check must exit 0
set -u
C=$(readlink -f "$1"); L=$2; shift 2
WT=/tmp/rv_$L
OUT=${REFRES:-/tmp/refres}/$L.txt
mkdir -p ${REFRES:-/tmp/refres}
rm -rf "$WT"; mkdir -p "$WT"; rsync -a --exclude .git --exclude out /repo/ "$WT"/
(cd "$WT" && git init -q . >/dev/null 2>&1 && git apply "$C/patch.diff") || { echo "$L PATCH DOES NOT APPLY" > "$OUT"; rm -rf "$WT"; exit 4; }
mkdir -p "$WT/out/V" && cp -r "$C"/* "$WT/out/V/"
{
echo "== refactoring $L"
if [ -z "${SKIP_CONFIRM:-}" ] && [ -f "$WT/out/V/demo.py" ]; then (cd "$WT" && PYTHONPATH="$WT" timeout 1800 /venv/bin/python -B out/V/demo.py > ${REFRES:-/tmp/refres}/$L.demo 2>&1); echo "demo rc=$? $(tail -1 ${REFRES:-/tmp/refres}/$L.demo | cut -c1-100)"; fi
[ -z "${SKIP_CONFIRM:-}" ] && (cd "$WT" && PYTHONPATH="$WT" timeout 3000 /venv/bin/python -B -m pytest -q -p no:cacheprovider --timeout=900 --deselect tests/test_cij_cli_run.py --deselect tests/test_cij_cli_static.py 2>&1 | tail -1)
cd ${VERIF_DIR:-/verif}
run_one() { i=$1; T=$2
  out=$(CIJ_REPO=$T CIJSA_EVIDENCE_DIR=$(mktemp -d /tmp/seedev.XXXXXX) ./check C$i --tier quick 2>&1); rc=$?
  first=$(echo "$out" | grep -A1 '^VIOLATION' | sed -n 2p | cut -c1-300)
  e=$(echo "$out" | grep '^ANALYSIS-ERROR' | head -2 | cut -c1-300 | tr '\n' '|')
  echo "C$i rc=$rc | $first $e"; }
export -f run_one
(if [ $# -gt 0 ]; then echo "$@" | tr " " "\n"; else seq -w 1 20; fi) | xargs -P ${JOBS:-6} -I{} bash -c "run_one {} $WT" | sort
} > "$OUT" 2>&1
rm -rf "$WT"
grep -c "rc=0" "$OUT" >/dev/null
echo "$L: $(grep -c '^C.. rc=0' $OUT) ok, nonzero: $(grep '^C.. rc=[12]' $OUT | cut -c1-8 | tr '\n' ' ')"
