#!/venv/bin/python
"""Mutation fuzzer for the checkers (a development tool, not a registered check).

  gen            enumerate syntactic mutants of the live functions of /repo/cij -> $MF/mutants.jsonl
  run [N]        judge mutants with the quick checks that analyse the mutated function (+C12, C14) on scratch copies
  tests          for mutants no check reported: run the pinned test suite on a scratch copy (does the change pass it?)
  report         summary + the survivors that pass the tests (the interesting ones), grouped by function

Nothing here decides a property; it measures which realistic one-token slips the registered checks report.
"""
from __future__ import annotations

import ast
import copy
import glob
import json
import os
import re
import shutil
import subprocess
import sys
import tempfile
from concurrent.futures import ThreadPoolExecutor
from pathlib import Path

REPO = Path(os.environ.get("CIJ_REPO", "/repo"))
VERIF = Path(__file__).resolve().parent.parent
MF = Path(os.environ.get("MF", "/tmp/mutfuzz"))
SKIP_FILES = ("cij/plot/", "cij/core/modulus_worker.py", "cij/util/compliance.py", "cij/misc/eig_sort_freqs.py",
              "cij/cli/plot.py", "cij/cli/modes.py")
ATTR_SWAPS = {"min": "max", "max": "min", "argmin": "argmax", "argmax": "argmin", "sum": "prod", "floor": "ceil", "ceil": "floor",
              "exp": "expm1", "log": "log10", "value_isothermal": "value_adiabatic", "value_adiabatic": "value_isothermal",
              "modulus_isothermal": "modulus_adiabatic", "modulus_adiabatic": "modulus_isothermal", "upper": "lower",
              "lower": "upper", "real": "imag", "conj": "copy", "cos": "sin", "sin": "cos", "any": "all", "all": "any",
              "append": "extend", "keys": "values", "voigt": "standard", "standard": "voigt", "eigh": "eig", "lstsq": "solve",
              "v_array": "t_array", "t_array": "v_array", "volumes": "pressures", "isothermal": "adiabatic", "adiabatic": "isothermal",
              "zeros": "ones", "ones": "zeros", "sqrt": "abs", "T": "real", "startswith": "endswith", "meshgrid": "broadcast_arrays"}
NAME_PAIRS = [("isothermal", "adiabatic"), ("min", "max"), ("t_", "v_"), ("volume", "pressure"), ("row", "col"), ("0", "1"), ("1", "2"),
              ("i", "j"), ("k", "l"), ("a", "b"), ("x", "y"), ("s", "t"), ("first", "last"), ("start", "end")]


def functions(tree):
    out = []

    def walk(node, q):
        for c in ast.iter_child_nodes(node):
            if isinstance(c, (ast.FunctionDef, ast.AsyncFunctionDef)):
                out.append((".".join(q + [c.name]), c))
                walk(c, q + [c.name])
            elif isinstance(c, ast.ClassDef):
                walk(c, q + [c.name])
            else:
                walk(c, q)
    walk(tree, [])
    return out


def is_docstring(parent, node):
    return isinstance(parent, ast.Expr) and isinstance(node, ast.Constant) and isinstance(node.value, str)


def is_logging_call(n):
    if isinstance(n, ast.Call):
        f = n.func
        s = ast.unparse(f)
        return s.startswith(("logger.", "logging.", "print", "warnings.", "click.echo")) or s in ("print",)
    return False


def offsets(src_lines, node):
    """byte offsets of a node in the file text"""
    def off(l, c):
        return sum(len(x) for x in src_lines[: l - 1]) + len(src_lines[l - 1].encode()[:c].decode())
    return off(node.lineno, node.col_offset), off(node.end_lineno, node.end_col_offset)


def related_names(name, pool):
    out = set()
    for other in pool:
        if other == name:
            continue
        if len(other) == len(name) and sum(a != b for a, b in zip(name, other)) == 1:
            out.add(other)
        for a, b in NAME_PAIRS:
            for x, y in ((a, b), (b, a)):
                if len(x) > 1 and x in name and name.replace(x, y) == other:
                    out.add(other)
    return sorted(out)


def gen_for_function(file, qual, fn, text, lines):
    muts = []
    own_nested = {id(n) for c in ast.walk(fn) if isinstance(c, (ast.FunctionDef, ast.AsyncFunctionDef)) and c is not fn for n in ast.walk(c)}
    loaded = sorted({n.id for n in ast.walk(fn) if isinstance(n, ast.Name)} | {a.arg for a in fn.args.args})
    parents = {}
    for p in ast.walk(fn):
        for c in ast.iter_child_nodes(p):
            parents[id(c)] = p

    def in_logging(n):
        while id(n) in parents:
            n = parents[id(n)]
            if is_logging_call(n) or isinstance(n, (ast.Raise, ast.Assert)) and False:
                return True
            if isinstance(n, ast.JoinedStr):
                return True
        return False

    def add(node, new_node_or_src, kind):
        if id(node) in own_nested:
            return
        s, e = offsets(lines, node)
        new = new_node_or_src if isinstance(new_node_or_src, str) else ast.unparse(new_node_or_src)
        old = text[s:e]
        if isinstance(node, ast.expr) and not isinstance(new_node_or_src, str):
            new = "(" + new + ")"
        if old.strip() == new.strip():
            return
        muts.append(dict(file=file, function=qual, line=node.lineno, kind=kind, start=s, end=e, old=old, new=new))

    for n in ast.walk(fn):
        if id(n) in own_nested or n is fn:
            continue
        par = parents.get(id(n))
        if isinstance(n, ast.expr) and in_logging(n):
            continue
        if isinstance(n, ast.BinOp):
            swaps = {ast.Add: [ast.Sub], ast.Sub: [ast.Add], ast.Mult: [ast.Div], ast.Div: [ast.Mult], ast.Pow: [ast.Mult],
                     ast.FloorDiv: [ast.Div], ast.Mod: [ast.FloorDiv]}
            if isinstance(n.op, ast.Mod) and isinstance(n.left, ast.Constant) and isinstance(n.left.value, str):
                continue
            for new_op in swaps.get(type(n.op), []):
                m = copy.deepcopy(n)
                m.op = new_op()
                add(n, m, "AOR")
            if isinstance(n.op, (ast.Sub, ast.Div, ast.MatMult, ast.Pow)):
                m = copy.deepcopy(n)
                m.left, m.right = m.right, m.left
                add(n, m, "OPSWAP")
        elif isinstance(n, ast.UnaryOp):
            if isinstance(n.op, ast.USub) and not isinstance(n.operand, ast.Constant):
                add(n, copy.deepcopy(n.operand), "UOD")
            if isinstance(n.op, ast.Not):
                add(n, copy.deepcopy(n.operand), "NOTDEL")
        elif isinstance(n, ast.Constant) and not is_docstring(par, n):
            v = n.value
            if isinstance(v, bool):
                add(n, ast.Constant(not v), "BOOL")
            elif isinstance(v, int):
                add(n, ast.Constant(v + 1), "CRP+")
                if v >= 1:
                    add(n, ast.Constant(v - 1), "CRP-")
                if isinstance(par, ast.UnaryOp) and isinstance(par.op, ast.USub) and v == 1:
                    add(n, ast.Constant(2), "CRP+")
            elif isinstance(v, float):
                add(n, ast.Constant(v * 2 if v else 1.0), "CRPf")
            elif isinstance(v, str) and isinstance(par, (ast.Compare, ast.Subscript, ast.Dict)) and v:
                add(n, ast.Constant(v + "_"), "STR")
        elif isinstance(n, ast.Compare) and len(n.ops) == 1:
            swaps = {ast.Lt: [ast.LtE, ast.Gt], ast.LtE: [ast.Lt], ast.Gt: [ast.GtE, ast.Lt], ast.GtE: [ast.Gt], ast.Eq: [ast.NotEq],
                     ast.NotEq: [ast.Eq], ast.Is: [ast.IsNot], ast.IsNot: [ast.Is], ast.In: [ast.NotIn], ast.NotIn: [ast.In]}
            for new_op in swaps.get(type(n.ops[0]), []):
                m = copy.deepcopy(n)
                m.ops = [new_op()]
                add(n, m, "ROR")
        elif isinstance(n, ast.BoolOp):
            m = copy.deepcopy(n)
            m.op = ast.Or() if isinstance(n.op, ast.And) else ast.And()
            add(n, m, "LCR")
            if len(n.values) == 2:
                add(n, copy.deepcopy(n.values[0]), "LCRdrop")
                add(n, copy.deepcopy(n.values[1]), "LCRdrop")
        elif isinstance(n, ast.Subscript):
            sl = n.slice
            if isinstance(sl, ast.Tuple) and len(sl.elts) >= 2:
                m = copy.deepcopy(n)
                m.slice.elts[0], m.slice.elts[1] = m.slice.elts[1], m.slice.elts[0]
                add(n, m, "IDXSWAP")
            if isinstance(sl, ast.Slice):
                for fld in ("lower", "upper", "step"):
                    if getattr(sl, fld) is not None:
                        m = copy.deepcopy(n)
                        setattr(m.slice, fld, None)
                        add(n, m, "SLICE")
            if isinstance(sl, ast.Tuple):
                for k, el in enumerate(sl.elts):
                    if isinstance(el, ast.Slice):
                        for fld in ("lower", "upper", "step"):
                            if getattr(el, fld) is not None:
                                m = copy.deepcopy(n)
                                setattr(m.slice.elts[k], fld, None)
                                add(n, m, "SLICE")
        elif isinstance(n, ast.Call):
            if is_logging_call(n):
                continue
            pos = [a for a in n.args if not isinstance(a, ast.Starred)]
            if len(pos) >= 2 and len(pos) == len(n.args):
                for i in range(len(pos) - 1):
                    if ast.unparse(pos[i]) != ast.unparse(pos[i + 1]):
                        m = copy.deepcopy(n)
                        m.args[i], m.args[i + 1] = m.args[i + 1], m.args[i]
                        add(n, m, "ARGSWAP")
            for k, kw in enumerate(n.keywords):
                if kw.arg and not (isinstance(kw.value, ast.Constant)):
                    pass
                if kw.arg and len(n.keywords) + len(n.args) > 1:
                    m = copy.deepcopy(n)
                    del m.keywords[k]
                    add(n, m, "KWDROP")
        elif isinstance(n, ast.Attribute) and isinstance(n.ctx, ast.Load):
            if n.attr in ATTR_SWAPS:
                m = copy.deepcopy(n)
                m.attr = ATTR_SWAPS[n.attr]
                add(n, m, "ATTR")
            for other in related_names(n.attr, [a.attr for a in ast.walk(fn) if isinstance(a, ast.Attribute)]):
                m = copy.deepcopy(n)
                m.attr = other
                add(n, m, "ATTRSIB")
        elif isinstance(n, ast.Name) and isinstance(n.ctx, ast.Load):
            for other in related_names(n.id, loaded):
                add(n, ast.Name(other, ast.Load()), "NAME")
            if n.id in ATTR_SWAPS and n.id in ("min", "max", "sum", "any", "all"):
                add(n, ast.Name(ATTR_SWAPS[n.id], ast.Load()), "NAME")
        elif isinstance(n, ast.IfExp):
            m = copy.deepcopy(n)
            m.body, m.orelse = m.orelse, m.body
            add(n, m, "IFEXP")
        elif isinstance(n, (ast.If, ast.While)):
            s, e = offsets(lines, n.test)
            muts.append(dict(file=file, function=qual, line=n.lineno, kind="CONDNEG", start=s, end=e, old=text[s:e], new="(not (" + text[s:e] + "))"))
        # statement deletion
        if isinstance(n, ast.stmt) and not isinstance(n, (ast.FunctionDef, ast.ClassDef, ast.Return, ast.Import, ast.ImportFrom, ast.Pass, ast.If,
                                                          ast.For, ast.While, ast.With, ast.Try, ast.Global, ast.Nonlocal)):
            if isinstance(n, ast.Expr) and (is_logging_call(n.value) or isinstance(n.value, ast.Constant)):
                continue
            if isinstance(n, ast.Assign) and all(isinstance(t, ast.Name) for t in n.targets):
                continue  # deleting a plain local binding nearly always crashes
            if isinstance(n, ast.AnnAssign):
                continue
            s, e = offsets(lines, n)
            muts.append(dict(file=file, function=qual, line=n.lineno, kind="SDL", start=s, end=e, old=text[s:e], new="pass"))
    return muts


def cmd_gen():
    MF.mkdir(parents=True, exist_ok=True)
    allm = []
    for p in sorted(glob.glob(str(REPO / "cij/**/*.py"), recursive=True)):
        rel = os.path.relpath(p, REPO)
        if rel.startswith(SKIP_FILES) or rel in SKIP_FILES:
            continue
        text = Path(p).read_text()
        lines = text.splitlines(keepends=True)
        import warnings
        with warnings.catch_warnings():
            warnings.simplefilter("ignore")
            tree = ast.parse(text)
        for qual, fn in functions(tree):
            for m in gen_for_function(rel, qual, fn, text, lines):
                allm.append(m)
    # de-duplicate identical edits
    seen = set()
    out = []
    for m in allm:
        k = (m["file"], m["start"], m["end"], m["new"])
        if k in seen:
            continue
        seen.add(k)
        m["id"] = f"m{len(out):05d}"
        out.append(m)
    with open(MF / "mutants.jsonl", "w") as f:
        for m in out:
            f.write(json.dumps(m) + "\n")
    by = {}
    for m in out:
        by[m["kind"]] = by.get(m["kind"], 0) + 1
    print(len(out), "mutants", by)


def coverage_map():
    cov = {}
    for f in sorted(glob.glob(str(VERIF / "evidence/C*.json"))):
        e = json.load(open(f))
        for fn in e["coverage"].get("functions_analysed", []):
            cov.setdefault(fn, set()).add(e["property_id"])
    return cov


def modname(rel):
    m = rel[:-3].replace("/", ".")
    return m[:-9] if m.endswith(".__init__") else m


def apply_mutant(m, root: Path):
    p = root / m["file"]
    text = p.read_text()
    assert text[m["start"]:m["end"]] == m["old"], "stale mutant"
    p.write_text(text[: m["start"]] + m["new"] + text[m["end"]:])


def compiles(root, m):
    try:
        import warnings
        with warnings.catch_warnings():
            warnings.simplefilter("ignore")
            compile((root / m["file"]).read_text(), m["file"], "exec")
        return True
    except SyntaxError:
        return False


def judge(m, cov, allprops):
    tmp = Path(tempfile.mkdtemp(prefix="mf-"))
    try:
        shutil.copytree(REPO / "cij", tmp / "cij", ignore=shutil.ignore_patterns("__pycache__"))
        os.symlink(REPO / "examples", tmp / "examples")
        apply_mutant(m, tmp)
        if not compiles(tmp, m):
            return dict(id=m["id"], status="nocompile")
        key = f"{modname(m['file'])}:{m['function']}"
        props = set(cov.get(key, ()))
        # enclosing functions too (nested defs)
        parts = m["function"].split(".")
        for k in range(1, len(parts)):
            props |= cov.get(f"{modname(m['file'])}:{'.'.join(parts[:k])}", set())
        if not props:
            props = set(allprops)
        props |= {"C12", "C14"}
        res = {}
        for prop in sorted(props):
            env = dict(os.environ, CIJ_REPO=str(tmp), CIJSA_EVIDENCE_DIR=str(tmp / "evidence"), CIJSA_NO_SELFTEST="1")
            try:
                r = subprocess.run([sys.executable, "-B", "-m", "cijsa", prop, "--tier", "quick"], cwd=VERIF, env=env, capture_output=True, text=True, timeout=900)
                rc = r.returncode
                out = r.stdout
            except subprocess.TimeoutExpired:
                rc, out = 99, ""
            first = ""
            for i, l in enumerate(out.splitlines()):
                if l.startswith("VIOLATION") or l.startswith("ANALYSIS-ERROR"):
                    nxt = out.splitlines()[i + 1] if l.startswith("VIOLATION") and i + 1 < len(out.splitlines()) else l
                    first = nxt[:240]
                    break
            res[prop] = (rc, first)
        det = sorted(p for p, (rc, _) in res.items() if rc == 1)
        err = sorted(p for p, (rc, _) in res.items() if rc not in (0, 1))
        status = "detected" if det else ("analysis-error" if err else "silent")
        return dict(id=m["id"], status=status, detected=det, errors=err, checked=sorted(props),
                    first={p: f for p, (rc, f) in res.items() if rc != 0})
    finally:
        shutil.rmtree(tmp, ignore_errors=True)


def load_mutants():
    return [json.loads(l) for l in open(MF / "mutants.jsonl")]


def load_results(name):
    p = MF / name
    if not p.exists():
        return {}
    return {r["id"]: r for r in map(json.loads, open(p))}


def cmd_run(limit=None, pattern=None, jobs=12):
    cov = coverage_map()
    allprops = [f"C{i:02d}" for i in range(1, 21)]
    done = load_results("results.jsonl")
    todo = [m for m in load_mutants() if m["id"] not in done and (not pattern or re.search(pattern, m["file"] + ":" + m["function"]))]
    if limit:
        import random
        random.Random(1).shuffle(todo)
        todo = todo[:limit]
    print(len(todo), "mutants to judge", flush=True)
    with open(MF / "results.jsonl", "a") as f, ThreadPoolExecutor(jobs) as ex:
        for k, r in enumerate(ex.map(lambda m: judge(m, cov, allprops), todo)):
            f.write(json.dumps(r) + "\n")
            f.flush()
            if k % 25 == 0:
                print(k, r["id"], r["status"], flush=True)


BASE_PASS = None


def run_tests(m):
    tmp = Path(tempfile.mkdtemp(prefix="mft-"))
    try:
        subprocess.run(["rsync", "-a", "--exclude", ".git", "--exclude", "__pycache__", str(REPO) + "/", str(tmp) + "/"], check=True)
        if m is not None:
            apply_mutant(m, tmp)
        xml = tmp / "junit.xml"
        env = dict(os.environ, PYTHONPATH=str(tmp), PYTHONDONTWRITEBYTECODE="1")
        try:
            subprocess.run(["/venv/bin/python", "-m", "pytest", "-q", "-p", "no:cacheprovider", "--timeout=900", "--continue-on-collection-errors",
                            "--deselect", "tests/test_cij_cli_run.py", "--deselect", "tests/test_cij_cli_static.py",  # not among the 62 pinned tests; 10 GB each
                            f"--junitxml={xml}"], cwd=tmp, env=env, capture_output=True, text=True, timeout=1500)
        except subprocess.TimeoutExpired:
            return None
        import xml.etree.ElementTree as ET
        passed = set()
        if not xml.exists():
            return None
        if xml.exists():
            for tc in ET.parse(xml).getroot().iter("testcase"):
                if not any(c.tag in ("failure", "error", "skipped") for c in tc):
                    passed.add(tc.get("classname") + "::" + tc.get("name"))
        return passed
    finally:
        shutil.rmtree(tmp, ignore_errors=True)


def cmd_tests(jobs=12, statuses=("silent", "analysis-error")):
    base = set(json.load(open("/root/.vp/BASELINE.json"))["stable_pass"])
    res = load_results("results.jsonl")
    done = load_results("tests.jsonl")
    muts = {m["id"]: m for m in load_mutants()}
    todo = [muts[i] for i, r in res.items() if r["status"] in statuses and i not in done]
    print(len(todo), "survivors to test", flush=True)

    def one(m):
        p = run_tests(m)
        if p is None:
            return dict(id=m["id"], tests="timeout")
        missing = sorted(base - p)
        return dict(id=m["id"], tests="pass" if not missing else "fail", missing=missing[:5], n_missing=len(missing))
    with open(MF / "tests.jsonl", "a") as f, ThreadPoolExecutor(jobs) as ex:
        for k, r in enumerate(ex.map(one, todo)):
            f.write(json.dumps(r) + "\n")
            f.flush()
            if k % 20 == 0:
                print(k, r, flush=True)


def cmd_report(show=True):
    muts = {m["id"]: m for m in load_mutants()}
    res = load_results("results.jsonl")
    tests = load_results("tests.jsonl")
    from collections import Counter
    c = Counter(r["status"] for r in res.values())
    print("judged", len(res), dict(c))
    tc = Counter((res[i]["status"], t["tests"]) for i, t in tests.items() if i in res)
    print("survivor tests:", dict(tc))
    if show:
        rows = []
        for i, r in res.items():
            if r["status"] in ("silent", "analysis-error") and tests.get(i, {}).get("tests") == "pass":
                m = muts[i]
                rows.append((m["file"], m["function"], m["line"], i, r["status"], m["kind"], m["old"].replace("\n", " ")[:60], m["new"].replace("\n", " ")[:60],
                             ",".join(r.get("checked", [])), "; ".join(f"{p}:{f[:100]}" for p, f in r.get("first", {}).items())))
        rows.sort()
        for row in rows:
            print(" | ".join(str(x) for x in row))
        print(len(rows), "survivors that pass the pinned tests")


def cmd_rejudge(jobs=8):
    """survivors that pass the pinned tests, judged again with the current checker -> results2.jsonl"""
    cov = coverage_map()
    allprops = [f"C{i:02d}" for i in range(1, 21)]
    res = load_results("results.jsonl")
    tests = load_results("tests.jsonl")
    done = load_results("results2.jsonl")
    muts = {m["id"]: m for m in load_mutants()}
    todo = [muts[i] for i, r in res.items() if r["status"] in ("silent", "analysis-error") and tests.get(i, {}).get("tests") == "pass" and i not in done]
    print(len(todo), "survivors to judge again", flush=True)
    with open(MF / "results2.jsonl", "a") as f, ThreadPoolExecutor(jobs) as ex:
        for k, r in enumerate(ex.map(lambda m: judge(m, cov, allprops), todo)):
            f.write(json.dumps(r) + "\n")
            f.flush()
            if k % 25 == 0:
                print(k, r["id"], r["status"], flush=True)


def cmd_report2():
    muts = {m["id"]: m for m in load_mutants()}
    res = load_results("results2.jsonl")
    from collections import Counter
    print("rejudged", len(res), dict(Counter(r["status"] for r in res.values())))
    rows = []
    for i, r in res.items():
        if r["status"] != "detected":
            m = muts[i]
            rows.append((m["file"], m["function"], m["line"], i, r["status"], m["kind"], m["old"].replace("\n", " ")[:50], m["new"].replace("\n", " ")[:50],
                         "; ".join(f"{p}:{f[:110]}" for p, f in r.get("first", {}).items())))
    for row in sorted(rows):
        print(" | ".join(str(x) for x in row))


if __name__ == "__main__":
    cmd = sys.argv[1]
    if cmd == "rejudge":
        cmd_rejudge(jobs=int(os.environ.get("JOBS", "8")))
        sys.exit(0)
    if cmd == "one":
        muts = {m["id"]: m for m in load_mutants()}
        cov = coverage_map()
        for mid in sys.argv[2:]:
            r = judge(muts[mid], cov, [f"C{i:02d}" for i in range(1, 21)])
            m = muts[mid]
            print(mid, m["file"], m["function"], repr(m["old"][:40]), "->", repr(m["new"][:40]), "|", r["status"], r.get("detected"), {k: v[:160] for k, v in r.get("first", {}).items()})
        sys.exit(0)
    if cmd == "report2":
        cmd_report2()
        sys.exit(0)
    if cmd == "gen":
        cmd_gen()
    elif cmd == "run":
        cmd_run(limit=int(sys.argv[2]) if len(sys.argv) > 2 and sys.argv[2].isdigit() else None,
                pattern=sys.argv[3] if len(sys.argv) > 3 else None, jobs=int(os.environ.get("JOBS", "12")))
    elif cmd == "tests":
        cmd_tests(jobs=int(os.environ.get("JOBS", "12")))
    elif cmd == "report":
        cmd_report()
    elif cmd == "basetests":
        base = set(json.load(open("/root/.vp/BASELINE.json"))["stable_pass"])
        p = run_tests(None)
        print(len(p), "passed;", "missing from baseline:", sorted(base - p))
