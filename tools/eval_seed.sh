#!/bin/bash
# usage: tools/eval_seed.sh <candidate dir with patch.diff and demo.py|demo.sh> <label>
# 1. confirms in a scratch worktree: pinned tests pass with the change, demo fails with / passes without it
# 2. applies the patch to /repo, runs every quick check, records which properties report a VIOLATION, undoes the patch
set -u
C=$(readlink -f "$1"); L=$2
WT=/tmp/ver_$L
OUT=/tmp/ver_$L.result
rm -rf "$WT"; git -C /repo worktree prune; git -C /repo worktree add -q --detach "$WT" HEAD || exit 3
mkdir -p "$WT/out/V" && cp -r "$C"/* "$WT/out/V/" && C="$WT/out/V"
demo() { if [ -f "$C/demo.py" ]; then (cd "$WT" && PYTHONPATH="$WT" timeout 1800 /venv/bin/python "$C/demo.py"); else (cd "$WT" && PYTHONPATH="$WT" WT="$WT" timeout 1800 bash "$C/demo.sh"); fi; }
{
echo "== candidate $L ($C)"
demo > /tmp/ver_$L.demo0 2>&1; D0=$?
echo "demo without change: rc=$D0"
if ! git -C "$WT" apply "$C/patch.diff"; then echo "PATCH DOES NOT APPLY"; git -C /repo worktree remove --force "$WT"; exit 4; fi
(cd "$WT" && PYTHONPATH="$WT" timeout 3000 /venv/bin/python -m pytest -q -p no:cacheprovider --timeout=900 --deselect tests/test_cij_cli_run.py --deselect tests/test_cij_cli_static.py 2>&1 | tail -3) > /tmp/ver_$L.tests
cat /tmp/ver_$L.tests
demo > /tmp/ver_$L.demo1 2>&1; D1=$?
echo "demo with change: rc=$D1"; tail -5 /tmp/ver_$L.demo1
git -C /repo worktree remove --force "$WT"
} > "$OUT" 2>&1
cat "$OUT"
