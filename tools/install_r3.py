#!/venv/bin/python
"""Install round-3 sub-agent candidates (kept under /root/r3 with results in /root/r3res = first pass, /root/r3res2 = final pass)
into /verif/seeded/<id>/ (breaking changes) and /verif/seeded_equiv/<id>/ (behaviour-preserving rewrites)."""
import json, os, re, shutil, sys
from pathlib import Path

SRC, R1, R2 = Path("/root/r3"), Path("/root/r3res"), Path("/root/r3res2")
VERIF = Path("/verif")


def parse_checks(p):
    det, err, first = [], [], {}
    if not p.exists():
        return det, err, first
    for line in p.read_text().splitlines():
        m = re.match(r"(C\d\d) rc=(\d+)(?: violations=\d+)? \|\s*(.*)", line)
        if not m:
            continue
        prop, rc, rest = m.group(1), int(m.group(2)), m.group(3)
        if rc == 1:
            det.append(prop)
            first[prop] = rest[:260]
        elif rc != 0:
            err.append(prop)
    return det, err, first


letters = {}
for d in sorted(SRC.iterdir()):
    L = d.name
    kind, prop, var = L[0], L[1:4], L[4]
    meta_in = json.loads((d / "meta.json").read_text()) if (d / "meta.json").exists() else {}
    det1, err1, _ = parse_checks(R1 / f"{L}.checks")
    det2, err2, first2 = parse_checks(R2 / f"{L}.checks")
    if kind == "b":
        new_var = {"A": "C", "B": "D", "C": "E"}[var]
        sid = f"{prop}{new_var}"
        out = VERIF / "seeded" / sid
        conf = (R1 / f"{L}.confirm").read_text() if (R1 / f"{L}.confirm").exists() else ""
        tests = re.search(r"(\d+ passed[^\n]*)", conf)
        meta = {
            "id": sid, "property": prop, "variant": new_var, "round": 3,
            "summary": meta_in.get("summary", ""), "needs_to_manifest": meta_in.get("needs_to_manifest", ""),
            "origin": "written by a fresh sub-agent that saw only the property record and its own scratch worktree",
            "confirmed_by_me": {
                "pinned_tests_with_change": tests.group(1) if tests else "",
                "demo_without_change_rc": 0 if "demo without change: rc=0" in conf else None,
                "demo_with_change_rc": 1 if "demo with change: rc=1" in conf else None,
                "commands": ["tools/eval_seed.sh <dir> <label>  (scratch worktree: demo at HEAD, git apply, pinned tests, demo)",
                             "tools/check_seed.sh patch.diff  (scratch copy of /repo + patch; ./check Cxx --tier quick for all 20 with CIJ_REPO)"],
            },
            "detected_by": det2, "analysis_error_in": err2, "first_report": first2,
            "detected_before_strengthening": det1, "analysis_error_before_strengthening": err1,
        }
    else:
        sid = f"{prop}R{var}"
        out = VERIF / "seeded_equiv" / sid
        chk = (R1 / f"{L}.checks").read_text() if (R1 / f"{L}.checks").exists() else ""
        tests = re.search(r"(\d+ passed[^\n]*)", chk)
        meta = {
            "id": sid, "property": prop, "variant": var, "round": 3, "expect": "silent",
            "summary": meta_in.get("summary", ""),
            "origin": "behaviour-preserving rewrite written by a fresh sub-agent that saw only the property record and its own scratch worktree",
            "confirmed_by_me": {"pinned_tests_with_change": tests.group(1) if tests else "", "demo_with_change_rc": 0 if "demo rc=0" in chk else None,
                                "commands": ["tools/eval_refactor.sh <dir> <label>  (scratch copy + patch: demo, pinned tests, all 20 quick checks)"]},
            "nonzero_first_pass": sorted(set(det1 + err1)), "nonzero_final": sorted(set(det2 + err2)),
            "files": sorted(set(re.findall(r"^\+\+\+ b/(\S+)", (d / "patch.diff").read_text(), re.M))),
        }
        import subprocess
        pr = subprocess.run([str(VERIF / "tools/props_for.py"), str(d / "patch.diff"), prop], capture_output=True, text=True).stdout.split()
        meta["props_checked"] = [f"C{x}" for x in pr]
    out.mkdir(parents=True, exist_ok=True)
    for f in d.iterdir():
        if f.name in ("patch.diff", "demo.py", "demo.sh"):
            shutil.copy(f, out / f.name)
    (out / "meta.json").write_text(json.dumps(meta, indent=1, ensure_ascii=False))
    print(sid, "<-", L, "detected_by" if kind == "b" else "nonzero", meta.get("detected_by", meta.get("nonzero_final")))
