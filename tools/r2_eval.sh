#!/bin/bash
# usage: tools/r2_eval.sh <agent worktree> <prop> <prefix: m|r>   — for every out/X: copy to /tmp/r2cand/<prop><prefix>X, run all quick checks on a scratch copy
# (tools/check_seed.sh) and the confirmation (tools/eval_seed.sh: pinned tests + demo with/without); results under ${RES:-/tmp/r2res}/
WT=$1; P=$2; K=${3:-m}
mkdir -p /tmp/r2cand ${RES:-/tmp/r2res}
for d in "$WT"/out/[A-D]; do
  [ -f "$d/patch.diff" ] || continue
  X=$(basename "$d"); L=${P}${K}${X}
  [ -d /tmp/r2cand/$L ] || cp -r "$d" /tmp/r2cand/$L
  if [ "$K" = m ]; then
    [ -f ${RES:-/tmp/r2res}/$L.checks ] || /verif/tools/check_seed.sh /tmp/r2cand/$L/patch.diff > ${RES:-/tmp/r2res}/$L.checks 2>&1
    grep -q "demo with change" ${RES:-/tmp/r2res}/$L.confirm 2>/dev/null || /verif/tools/eval_seed.sh /tmp/r2cand/$L $L > ${RES:-/tmp/r2res}/$L.confirm 2>&1
  else
    [ -f ${RES:-/tmp/r2res}/$L.checks ] && continue
    /verif/tools/eval_refactor.sh /tmp/r2cand/$L $L > ${RES:-/tmp/r2res}/$L.summary 2>&1
    cp ${REFRES:-/tmp/refres}/$L.txt ${RES:-/tmp/r2res}/$L.checks 2>/dev/null
  fi
done
