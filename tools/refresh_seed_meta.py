#!/venv/bin/python
"""refresh_seed_meta.py <seeded or seeded_equiv id> ... : re-runs the quick checks that read the patch (tools/check_seed.sh on a scratch copy) and rewrites
detected_by / analysis_error_in (breaking change) or nonzero_final / props_checked (rewrite) in its meta.json from what was observed"""
import json, re, subprocess, sys
from pathlib import Path
V = Path("/verif")
for sid in sys.argv[1:]:
    d = next(p for p in (V / "seeded" / sid, V / "seeded_equiv" / sid) if p.exists())
    meta = json.loads((d / "meta.json").read_text())
    props = subprocess.run([str(V / "tools/props_for.py"), str(d / "patch.diff"), meta["property"]], capture_output=True, text=True).stdout.split()
    out = subprocess.run([str(V / "tools/check_seed.sh"), str(d / "patch.diff")], capture_output=True, text=True, env={**__import__("os").environ, "PROPS": " ".join(props)}).stdout
    det, err, first = [], [], {}
    for line in out.splitlines():
        m = re.match(r"(C\d\d) rc=(\d+)(?: violations=\d+)? \|\s*(.*)", line)
        if m and int(m.group(2)) == 1:
            det.append(m.group(1)); first[m.group(1)] = m.group(3)[:260]
        elif m and int(m.group(2)) != 0:
            err.append(m.group(1))
    if d.parent.name == "seeded":
        meta.update(detected_by=det, analysis_error_in=err, first_report=first)
    else:
        meta.update(nonzero_final=sorted(set(det + err)), violations_final=det, analysis_error_final=err, props_checked=[f"C{p}" for p in props if f"C{p}" not in err])
    (d / "meta.json").write_text(json.dumps(meta, indent=1, ensure_ascii=False))
    print(sid, "violations", det, "errors", err)
