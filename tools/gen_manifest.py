#!/venv/bin/python
"""Regenerates MANIFEST.json from cijsa/rules/*.py (one check per property that has a rules module)."""
import importlib, json, sys
from pathlib import Path
ROOT = Path(__file__).resolve().parent.parent
sys.path.insert(0, str(ROOT))
BASELINE = ("cd /repo && /venv/bin/python -m pytest -ra -q -p no:cacheprovider --timeout=900 "
            "--continue-on-collection-errors")
NA_REASON = {}
checks, na = [], []
for i in range(1, 21):
    pid = f"C{i:02d}"
    if not (ROOT / "cijsa" / "rules" / f"{pid}.py").exists():
        na.append({"property_id": pid, "reason": NA_REASON.get(pid, "static check not built yet (work in progress); no claim is made")})
        continue
    m = importlib.import_module(f"cijsa.rules.{pid}")
    checks.append({
        "property_id": pid,
        "quick_cmd": f"./check {pid} --tier quick",
        "thorough_cmd": f"./check {pid} --tier thorough",
        "evidence_file": f"/verif/evidence/{pid}.json",
        "replay_cmd_template": "./check --replay {path}",
        "engine": "cijsa",
        "level_claimed": {"category": m.LEVEL, "text": m.EXPLANATION, "design_ref": f"DESIGN.md section 6 {pid}"},
        "level_note": ("Static analysis decides the structural clauses listed (rules " + ", ".join(r[0] for r in m.RULES)
                       + ") - not the numbers. NOT DECIDED: " + getattr(m, "NOT_DECIDED", "") + " Trusted: Python ast, sympy "
                       "exact arithmetic, the T-LIB library summaries and T-ATOMS input-unit seeds listed in the evidence."),
        "technique": getattr(m, "TECHNIQUE", "static analysis: AST normal forms, decision tables, producer/consumer agreement"),
    })
man = {
    "version": 1,
    "setup_cmd": "true",
    "hooks": {"guard": "CIJ_VERIF", "enable": "no hooks: nothing in /repo is instrumented; checks read /repo's sources",
              "baseline_off_cmd": BASELINE, "source_commits": [], "add_only": True},
    "engines": [{"name": "cijsa", "path": "/verif/cijsa", "serves_properties": [c["property_id"] for c in checks],
                 "kind_free_text": "purpose-built static analyser for cij: ast program model, expression normal forms with "
                                   "sympy (quantity calculus), decision tables, agreement rules, library summaries"}],
    "checks": checks,
    "not_applicable": na,
    "notes": "All checks are static (no cij code is imported or executed). Exit 0 ok / 1 VIOLATION / 2 ANALYSIS-ERROR. "
             "known_findings.json lists recorded findings and repaired defects.",
}
(ROOT / "MANIFEST.json").write_text(json.dumps(man, indent=1) + "\n")
print(f"{len(checks)} checks, {len(na)} not applicable")
