#!/bin/bash
# usage: tools/check_seed.sh <patch.diff> [--in-repo]
# default: applies the patch to a scratch copy (CIJ_REPO) and runs all 20 quick checks in parallel;
# --in-repo: applies to /repo itself (git apply), runs the checks against /repo, and undoes it (git checkout -- .)
set -u
P=$(readlink -f "$1"); MODE=${2:-scratch}
if [ "$MODE" = "--in-repo" ]; then
  cd /repo && git status --short | grep -v '^??' | grep . && { echo "/repo not clean"; exit 3; }
  git -C /repo apply "$P" || { echo "PATCH DOES NOT APPLY to /repo"; exit 4; }
  TARGET=/repo
else
  TARGET=$(mktemp -d /tmp/seedchk.XXXXXX)
  rsync -a --exclude .git /repo/ "$TARGET"/
  (cd "$TARGET" && git init -q . >/dev/null 2>&1; git apply "$P") || { echo "PATCH DOES NOT APPLY"; rm -rf "$TARGET"; exit 4; }
fi
cd ${VERIF_DIR:-/verif}
run_one() { i=$1; T=$2
  out=$(CIJ_REPO=$T CIJSA_EVIDENCE_DIR=$(mktemp -d /tmp/seedev.XXXXXX) ./check C$i --tier quick 2>&1); rc=$?
  v=$(echo "$out" | grep -c '^VIOLATION')
  e=$(echo "$out" | grep '^ANALYSIS-ERROR' | head -1 | cut -c1-200)
  first=$(echo "$out" | grep -A1 '^VIOLATION' | sed -n 2p | cut -c1-260)
  echo "C$i rc=$rc violations=$v | $first $e"; }
export -f run_one
(if [ -n "${PROPS:-}" ]; then echo $PROPS | tr " " "\n"; else seq -w 1 20; fi) | xargs -P 12 -I{} bash -c "run_one {} $TARGET" | sort
if [ "$MODE" = "--in-repo" ]; then git -C /repo checkout -- . ; else rm -rf "$TARGET"; fi
rm -rf /tmp/seedev.*
