#!/venv/bin/python
"""props_for.py <patch> <target prop> -> space separated property numbers whose checks consult the touched files
(development tool: limits the re-evaluation of a candidate to the checks that can see it)"""
import glob
import json
import re
import sys

patch, target = sys.argv[1], sys.argv[2]
files = set(re.findall(r"^\+\+\+ b/(\S+)", open(patch).read(), re.M))
mods = set()
for f in files:
    if f.endswith(".py"):
        m = f[:-3].replace("/", ".")
        mods.add(m[:-9] if m.endswith(".__init__") else m)
props = {target, "C12", "C14"}
for ev in glob.glob("/verif/evidence/C*.json"):
    e = json.load(open(ev))
    fa = e["coverage"].get("functions_analysed", [])
    if any(x.split(":")[0] in mods for x in fa):
        props.add(e["property_id"])
if any("data/constraints" in f for f in files):
    props |= {"C08", "C09", "C05", "C18"}
if any("writer_rules" in f for f in files):
    props |= {"C15", "C19"}
if any("schema" in f or "settings.yaml" in f for f in files):
    props |= {"C16", "C09", "C11"}
print(" ".join(sorted(p[1:] for p in props)))
