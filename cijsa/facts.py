"""Shared facts extracted from the code (each is itself checked by a rule of some property)
and the shared seed tables (T-ATOMS, T-LIB) for the formula engine."""
from __future__ import annotations

import ast

import sympy as sp

from . import units as U
from .model import Model, dotted_name, src, body_wo_doc
from .report import AnalysisError
from .sym import (ArrV, EnumV, Opaque, Ev, Obj, Tup, LibV, UnitReg, FuncV, AVG, as_sym, is_sym, LIB, DictV, SliceV, Indexed, ClsV,
                  _const_int)

P = dict(positive=True)
# physical quantities (T-ATOMS)
FREQ, GAMMA, VDR = sp.symbols("FREQ GAMMA VDR", real=True)      # wavenumber, mode gamma, V dgamma/dV
T, V, E0, E1, NAT, W = sp.symbols("T V E0 E1 NAT W", **P)
CV, PTV, PSTAT = sp.symbols("CV PTV PSTAT", real=True)
E = sp.Symbol("E", **P)                                          # Bose atom exp(hc*nu/(kB*T))
CELLMASS = sp.Symbol("CELLMASS", **P)
PDES, VTP = sp.symbols("PDES VTP", **P)
QPHYS = U.HC * FREQ / (U.KB * T)
MODE_DEP = {FREQ, GAMMA, VDR, E}

CALC = "cij.core.calculator:Calculator"
ADAPTER = "cij.core.qha_adapter:QHACalculatorAdapter"
QHACALC = "cij.core.qha_adapter:QHACalculator"
QHA_EXT = "ext:qha.calculator.Calculator"
QVOL = "cij.core.qha_adapter:QHAVolumeBaseInterface"
QPRS = "cij.core.qha_adapter:QHAPressureBaseInterface"
LONG = "cij.core.phonon_contribution.nonshear:LongitudinalElasticModulusPhononContribution"
OFFD = "cij.core.phonon_contribution.nonshear:OffDiagonalElasticModulusPhononContribution"
VOLBASE = "cij.core.calculator:CijVolumeBaseInterface"
PRSBASE = "cij.core.calculator:CijPressureBaseInterface"

# T-LIB: attributes of the installed qha Calculator and their (physical quantity / unit) value
QHA_ATTRS = {
    "finer_volumes_bohr3": V / U.bohr ** 3,
    "temperature_array": T / U.K,
    "p_tv_au": PTV / (U.Ry / U.bohr ** 3),
    "p_tv_gpa": PTV / U.UNIT_TABLE["GPa"],
    "cv_tv_au": CV / (U.Ry / U.K),
    "desired_pressures": PDES / (U.Ry / U.bohr ** 3),
    "desired_pressures_gpa": PDES / U.UNIT_TABLE["GPa"],
    "v_tp_bohr3": VTP / U.bohr ** 3,
}
# the settings dictionary the qha Calculator was constructed with (cij hands it qha.settings + the user's qha.settings section):
# numeric entries are atoms; the option-like entries are enumerated by the rules that depend on them (qha_settings(energy_unit=...))
PMIN_S, DP_S, DT_S, TMIN_S = sp.symbols("SET_P_MIN SET_DELTA_P SET_DT SET_T_MIN", **P)
NTV_S, NT_S = sp.symbols("SET_NTV SET_NT", positive=True, integer=True)


def qha_settings(energy_unit="ry", **over):
    from .sym import DictV
    d = {"energy_unit": energy_unit, "length_unit": "angstrom", "order": sp.Integer(3), "P_MIN": PMIN_S, "DELTA_P": DP_S, "NTV": NTV_S, "NT": NT_S,
         "DT": DT_S, "T_MIN": TMIN_S, "DT_SAMPLE": sp.Symbol("SET_DT_SAMPLE", **P), "DELTA_P_SAMPLE": sp.Symbol("SET_DELTA_P_SAMPLE", **P),
         "static_only": False, "volume_ratio": sp.Symbol("SET_VOLUME_RATIO", **P), "high_verbosity": False}
    d.update(over)
    return DictV(d)


def voigt_canon(digits: str) -> str:
    """T-IDX canonicalisation of a 2- or 4-digit index string to the Voigt pair 'IJ', I<=J."""
    s2v = {(1, 1): 1, (2, 2): 2, (3, 3): 3, (2, 3): 4, (1, 3): 5, (1, 2): 6}
    d = [int(c) for c in digits]
    if len(d) == 4:
        a = s2v[tuple(sorted(d[:2]))]
        b = s2v[tuple(sorted(d[2:]))]
    elif len(d) == 2:
        a, b = d
        if not (1 <= a <= 6 and 1 <= b <= 6):
            raise AnalysisError(f"voigt index out of range {digits}")
    else:
        raise AnalysisError(f"bad index string {digits}")
    a, b = sorted((a, b))
    return f"{a}{b}"


MODREP = "cij.util.voigt:ModulusRepresentation"
STRREP = "cij.util.voigt:StrainRepresentation"
V2S = {1: (1, 1), 2: (2, 2), 3: (3, 3), 4: (2, 3), 5: (1, 3), 6: (1, 2)}


class KeyObj(Obj):
    """a canonical modulus key c_IJ (T-IDX); conformance of voigt.py to this model is property C10"""

    def __init__(self, name):
        a, b = int(name[1]), int(name[2])
        si, sj = V2S[a], V2S[b]
        I = lambda *x: Tup([sp.Integer(k) for k in x])
        mk = lambda v, st: Obj(STRREP, {"voigt": sp.Integer(v), "v": sp.Integer(v), "standard": I(*st), "s": I(*st),
                                        "i": sp.Integer(st[0]), "j": sp.Integer(st[1]), "__fields__": ["i", "j"]})
        shear = a > 3 or b > 3
        mult = (1 if a == b else 2) * (1 if si[0] == si[1] else 2) * (1 if sj[0] == sj[1] else 2)
        super().__init__(MODREP, {
            "voigt": I(a, b), "v": I(a, b), "standard": I(*si, *sj), "s": I(*si, *sj), "i": mk(a, si), "j": mk(b, sj),
            "__fields__": ["i", "j"], "is_shear": shear, "is_longitudinal": (a == b and not shear), "is_off_diagonal": (a != b and not shear),
            "multiplicity": sp.Integer(mult), "calc_type": EnumV("cij.util.voigt:ElasticModulusCalculationType",
                                                                 "SHEAR" if shear else ("LONGITUDINAL" if a == b else "OFF_DIAGONAL"))}, label=name)
        self.const_key = name
        self.name = name

    def __eq__(self, other):
        return isinstance(other, KeyObj) and other.name == self.name

    def __hash__(self):
        return hash(self.name)

    def __repr__(self):
        return self.name


KEYS21 = [f"c{i}{j}" for i in range(1, 7) for j in range(i, 7)]


def c_intrinsic(ev, args, kwargs):
    """cij.util.c_ as a canonicalising constructor (its conformance to T-IDX is property C10)."""
    vals = []
    for a in args:
        if isinstance(a, str):
            vals.append(a)
        elif is_sym(a) and a.is_Integer:
            vals.append(str(int(a)))
        else:
            raise AnalysisError("c_() of a non-constant")
    return KeyObj("c" + voigt_canon("".join(vals)))


_ROLES_CACHE = {}


def fold_interpolate_modes(model: Model, method="spline", nq=2, np_=4, ctx=None):
    """fold cij.core.mode_gamma.interpolate_modes for one method name on a 2 q-point x 4 mode table whose frequency
    columns are atoms FR_j_k (one vector over the volumes each); the per-mode helpers are capturing atoms.
    Returns (returned value, list of helper calls)."""
    from .dfmodel import SeqV, DF_LIB
    MGm = "cij.core.mode_gamma"
    MV, VA, ORD = sp.Symbol("MV", positive=True), sp.Symbol("VA", positive=True), sp.Symbol("ORDER", positive=True, integer=True)
    qps = Tup([Obj("cij.io.traditional.qha_input:QPointData",
                   {"coord": sp.Symbol(f"QC{j}"), "modes": Tup([sp.Symbol(f"FR_{j}_{k}", positive=True) for k in range(np_)], "list"),
                    "__fields__": ["coord", "modes"]}) for j in range(nq)], "list")
    vol = Obj("cij.io.traditional.qha_input:VolumeData", {"volume": MV, "q_points": qps, "energy": sp.Symbol("EN"), "pressure": sp.Symbol("PR")})
    inp = Obj("cij.io.traditional.qha_input:QHAInputData", {"nv": sp.Symbol("NV", positive=True, integer=True), "nq": sp.Integer(nq), "np": sp.Integer(np_),
                                                              "volumes": SeqV(vol)})
    calls = []
    f = model.func(f"{MGm}:interpolate_modes")
    mod = model.mods[MGm]
    intr = {}
    for q in mod.funcs:
        if q.startswith("interpolate_mode_") and "." not in q:
            def helper(ev, a, k, _q=q):
                fd = mod.funcs[_q]
                names = [x.arg for x in fd.args.args]
                b = dict(zip(names, a))
                for kk, v in k.items():
                    if kk not in names or kk in b:
                        raise AnalysisError(f"{_q} called with a bad keyword {kk}")
                    b[kk] = v
                calls.append((_q, b))
                tag = f"{_q}[{b.get('method')}]" if "method" in b else _q
                args = [as_sym(b.get(nm)) for nm in names[:3]]
                return Tup([sp.Function(f"OUT{r}_{tag}")(*args, as_sym(b.get("order", sp.Symbol("DEFAULT")))) for r in range(3)])
            intr[f"{MGm}:{q}"] = helper
    from .dfmodel import df_wrap
    intr["numpy.array"] = df_wrap(DF_LIB["numpy.array"])
    ev = Ev(model, {}, intr, ctx=ctx)
    out = ev.call_def(f, mod, f"{MGm}:interpolate_modes", [inp, VA], {"method": method, "order": ORD})
    return out, calls, (MV, VA, ORD)


def interpolate_modes_roles(model: Model):
    """Return, by position of interpolate_modes' return tuple, the role index 0 (omega), 1 (gamma), 2 (V dgamma/dV)
    (helpers return roles in the order (0,1,2): C11's R11.1), read off the folded function; second value: number of
    helper calls seen for one non-acoustic mode table (2 x 4 -> 5 calls)."""
    if "roles" in _ROLES_CACHE and _ROLES_CACHE["roles"][0] is model:
        return _ROLES_CACHE["roles"][1]
    out, calls, _ = fold_interpolate_modes(model, "spline")
    if not isinstance(out, Tup) or len(out.items) != 3 or not all(isinstance(x, ArrV) for x in out.items):
        raise AnalysisError("interpolate_modes does not return three arrays")
    roles = []
    for arr in out.items:
        cell = sp.sympify(arr.get((1, 0)))
        name = str(getattr(cell, "func", ""))
        if not name.startswith("OUT"):
            raise AnalysisError(f"interpolate_modes returns an array that no helper fills: {cell}")
        roles.append(int(name[3]))
    res = (roles, len(calls))
    _ROLES_CACHE["roles"] = (model, res)
    return res


ROLE_VALUE = {0: FREQ * U.UNIT_TABLE["cm"], 1: GAMMA, 2: VDR}


def qha_attr_hook(ev, obj, name):
    """any other attribute of the installed qha Calculator becomes its own atom QHA_<name>
    (so a wrong attribute shows up as a residual); a name the installed class does not define
    is an error the caller reports"""
    if QHA_EXT not in ([obj.cls] + ev.model.mro(obj.cls) if not obj.cls.startswith("ext:") else [obj.cls]):
        return NotImplemented
    from .libsum import qha_calculator_members
    owner, f, kind = (None, None, None) if obj.cls.startswith("ext:") else ev.model.find_member(obj.cls, name)
    if f is not None:
        return NotImplemented
    members = qha_calculator_members()
    if name in members and members[name] in ("property", "lazy"):
        return sp.Symbol(f"QHA_{name}", real=True)
    if name in members:
        return NotImplemented
    if name.startswith("_"):
        return NotImplemented
    raise AnalysisError(f"missing-qha-attribute:{name}")


def tensor_seeds(calc, keys=None):
    """bind the modulus dictionaries of the Calculator to atoms CAD_ij / CIS_ij / SAD_ij"""
    keys = keys or KEYS21
    ks = [KeyObj(k) for k in keys]
    calc.attrs["modulus_keys"] = Tup(ks, "list")
    calc.attrs["modulus_adiabatic"] = DictV({k: sp.Symbol(f"CAD_{k.name[1:]}", real=True) for k in ks})
    calc.attrs["modulus_isothermal"] = DictV({k: sp.Symbol(f"CIS_{k.name[1:]}", real=True) for k in ks})
    calc.attrs["_compliances"] = DictV({k: sp.Symbol(f"SAD_{k.name[1:]}", real=True) for k in ks})
    return calc


def _avg_summary(model):
    """the mode average as the atom AVG(x) (its definition is decided by R01.7 on the function itself, called with the amount and the
    q-point weights): the summary applies to calls that hand over exactly those two and leave every further parameter at its default"""
    def f(ev, a, k):
        fd = model.func("cij.core.phonon_contribution.nonshear:average_over_modes")
        names = [p.arg for p in fd.args.posonlyargs + fd.args.args]
        b = dict(zip(names, a))
        for kk, vv in (k.items() if hasattr(k, "items") else []):
            if kk in b or kk not in names + [p.arg for p in fd.args.kwonlyargs]:
                raise AnalysisError(f"average_over_modes called with bad keyword {kk}")
            b[kk] = vv
        if len(a) > len(names) or not set(names[:2]) <= set(b):
            raise AnalysisError("average_over_modes called without the amount and the weights")
        extra = sorted(set(b) - set(names[:2]))
        if extra:
            raise AnalysisError(f"average_over_modes called with {extra}: whether the summary of R01.7 (mask on, weights normalised) applies to this call is not known")
        w_ = b[names[1]]
        if not (is_sym(w_) and w_ == W):
            # averaged with something else than the q-point weights of the input: a different quantity
            return sp.Function("AVG_OTHER_WEIGHTS")(as_sym(b[names[0]]), as_sym(w_) if is_sym(w_) else sp.Symbol("W_OTHER"))
        return AVG(as_sym(b[names[0]]))
    f.kw = None
    return f


def physics_seeds(model: Model, pstat_atom=True):
    # the order in which interpolate_modes returns (omega, gamma, V dgamma/dV) is decided by R01.10 / C11 (which fold
    # interpolate_modes themselves and fail there); every other rule starts from the documented order when that fold
    # meets a construct it cannot follow
    try:
        roles, _ = interpolate_modes_roles(model)
    except AnalysisError:
        roles = [0, 1, 2]
    ext = Obj(QHACALC, label="qha calculator")
    adapter = Obj(ADAPTER, {"calculator": ext})
    vol = Obj(QVOL, {"calculator": ext})
    prs = Obj(QPRS, {"calculator": ext})
    adapter.attrs["volume_base_results"] = vol
    adapter.attrs["pressure_base_results"] = prs
    elast = Obj("cij.io.traditional.elast_dat:ElastData", {"cellmass": CELLMASS / (U.g / U.mol),
                                                           "volumes": Opaque("elast_data.volumes"),
                                                           "lattice_parmeters": Opaque("elast_data.lattice_parmeters")})
    calc = Obj(CALC, {"qha_calculator": adapter, "na": NAT, "config": Opaque("config"),
                      "qha_input": Opaque("qha_input"), "elast_data": elast})
    seeds = {
        ("global", "cij.util.units:units"): UnitReg(),
        ("global", "cij.util:c_"): LibV("cij.c_"),
        (LONG, "e"): Tup([E0, E1]),
        (LONG, "calculator"): calc,
        (LONG, "q_weights"): W,
    }
    for k, v in QHA_ATTRS.items():
        seeds[(QHA_EXT, k)] = v
    seeds[(QHA_EXT, "settings")] = qha_settings()
    if pstat_atom:
        seeds[(CALC, "static_p_array")] = PSTAT / (U.Ry / U.bohr ** 3)
    intr = {
        "cij.core.mode_gamma:interpolate_modes": lambda ev, a, k: Tup([ROLE_VALUE[r] for r in roles]),
        "cij.core.phonon_contribution.nonshear:average_over_modes": _avg_summary(model),
        "cij.c_": c_intrinsic,
    }
    return seeds, intr, calc
