"""E10 — floating-point hazard domain for Bose-factor expressions, evaluated on the AST in
source evaluation order (not on an algebraically normalised form).

Asymptotic classes for Q = hbar*omega/kT -> +infinity on entries with Q in (0, inf):
  'U+' / 'U-'  unbounded, polynomial growth, known sign      (Q, -Q, Q**2 ...)
  'U?'         unbounded polynomial, sign unknown
  'P'          finite, magnitude bounded away from overflow (may be any sign)
  'Z0'         tends to 0 (underflows to exactly 0 in floats)
  'OVF'        may round to +-inf although the exact value is finite (exp(Q))
  'NANH'       may be NaN (inf/inf, inf-inf, 0*inf, 0/0)
"""
from __future__ import annotations

import ast

from .model import dotted_name, src, body_wo_doc, member_kind
from .report import AnalysisError

EXP_NAMES = {"numpy.exp", "math.exp", "np.exp", "scipy.exp"}
EXPM1_NAMES = {"numpy.expm1", "math.expm1", "np.expm1"}


def neg(c):
    return {"U+": "U-", "U-": "U+", "P+": "P-", "P-": "P+"}.get(c, c)


def plain(c):
    return "P" if c in ("P+", "P-") else c


def is_unb(c):
    return c in ("U+", "U-", "U?")


def add(a, b, sub=False):
    if sub:
        b = neg(b)
    a, b = plain(a), plain(b)
    if "NANH" in (a, b):
        return "NANH"
    if a == "OVF" and b == "OVF":
        return "NANH" if sub else "OVF"     # inf - inf; (inf + inf keeps inf)
    if "OVF" in (a, b):
        return "OVF"
    if is_unb(a) and is_unb(b):
        return a if a == b else "U?"
    if is_unb(a):
        return a
    if is_unb(b):
        return b
    if a == "Z0" and b == "Z0":
        return "Z0"
    return "P"


def mul(a, b):
    if a in ("P+", "P-") and b in ("P+", "P-"):
        return "P+" if a == b else "P-"
    if is_unb(a) and b in ("P+", "P-"):
        return a if b == "P+" else neg(a)
    if is_unb(b) and a in ("P+", "P-"):
        return b if a == "P+" else neg(b)
    a, b = plain(a), plain(b)
    if "NANH" in (a, b):
        return "NANH"
    if "OVF" in (a, b):
        other = b if a == "OVF" else a
        return "NANH" if other == "Z0" else "OVF"
    if is_unb(a) and is_unb(b):
        if "U?" in (a, b):
            return "U?"
        return "U+" if a == b else "U-"
    if is_unb(a) or is_unb(b):
        u, o = (a, b) if is_unb(a) else (b, a)
        if o == "Z0":
            return "Z0"          # exponential decay beats polynomial growth (and underflows to 0)
        return "U?"
    if "Z0" in (a, b):
        return "Z0"
    return "P"


def div(a, b):
    if is_unb(a) and b in ("P+", "P-"):
        return a if b == "P+" else neg(a)
    if a in ("P+", "P-") and b in ("P+", "P-"):
        return "P+" if a == b else "P-"
    a, b = plain(a), plain(b)
    if "NANH" in (a, b):
        return "NANH"
    if b == "OVF":
        return "NANH" if a == "OVF" else "Z0"
    if b == "Z0":
        return "NANH" if a == "Z0" else "OVF"
    if is_unb(b):
        if a == "OVF":
            return "OVF"
        if is_unb(a):
            return "P"
        return "Z0"
    return a    # b is 'P'


def power(a, k):
    """a ** k for a constant exponent k"""
    if k == 0:
        return "P"
    if k < 0:
        return div("P", power(a, -k))
    if is_unb(a):
        if float(k).is_integer() and int(k) % 2 == 0:
            return "U+"
        return a
    if a in ("P+", "P-"):
        return "P+" if a == "P+" or (float(k).is_integer() and int(k) % 2 == 0) else "P-"
    return a


class Hazard:
    def __init__(self, model, cls_ref, unbounded_attrs=("Q",)):
        self.model, self.cls = model, cls_ref
        self.unb = set(unbounded_attrs)
        self.stack = []
        self.trace = []

    def attr(self, selfname, name, node):
        if name in self.unb:
            return "U+"
        owner, f, kind = self.model.find_member(self.cls, name)
        if f is not None and kind in ("property", "lazy") and self.reaches_exp(f, set()):
            if name in self.stack:
                raise AnalysisError(f"recursive property {name}")
            self.stack.append(name)
            try:
                return self.function(f)
            finally:
                self.stack.pop()
        return "P"

    def module_function(self, name):
        """a module-level function of the class's module (a helper the Bose factors may have been moved into)"""
        mname = self.cls.split(":")[0]
        mod = self.model.mods.get(mname)
        if mod is None:
            return None
        g = mod.funcs.get(name)
        return g if g is not None and "." not in name else None

    def reaches_exp(self, f, seen):
        """does the property body evaluate exp()/expm1(), directly or through other properties of self?"""
        if id(f) in seen:
            return False
        seen.add(id(f))
        sn = f.args.args[0].arg if f.args.args else "self"
        for c in ast.walk(f):
            if isinstance(c, ast.Call) and (dotted_name(c.func) or "") in EXP_NAMES | EXPM1_NAMES:
                return True
            if isinstance(c, ast.Call) and isinstance(c.func, ast.Name):
                g = self.module_function(c.func.id)
                if g is not None and self.reaches_exp(g, seen):
                    return True
            if isinstance(c, ast.Attribute) and isinstance(c.value, ast.Name) and c.value.id == sn:
                if c.attr in self.unb:
                    continue
                owner, g, kind = self.model.find_member(self.cls, c.attr)
                if g is not None and kind in ("property", "lazy") and self.reaches_exp(g, seen):
                    return True
        return False

    def function(self, f, selfname=None, env=None):
        if selfname is None:
            selfname = f.args.args[0].arg if f.args.args else "self"
        env = dict(env or {})
        result = None
        for st in body_wo_doc(f):
            if isinstance(st, ast.FunctionDef) and not st.decorator_list:
                env[("def", st.name)] = st           # a local helper: evaluated where it is called (closure over the locals so far)
                continue
            if isinstance(st, ast.Assign) and len(st.targets) == 1 and isinstance(st.targets[0], ast.Name):
                env[st.targets[0].id] = self.expr(st.value, env, selfname)
            elif isinstance(st, ast.Return) and st.value is not None:
                result = self.expr(st.value, env, selfname)
                break
            elif isinstance(st, (ast.Expr, ast.Assign, ast.AugAssign, ast.Pass)):
                continue
            else:
                raise AnalysisError(f"unsupported statement in a function that evaluates exp(): {src(st)[:60]}")
        if result is None:
            raise AnalysisError(f"function {f.name} evaluating exp() has no return value")
        return result

    def expr(self, n, env, selfname):
        if isinstance(n, ast.Constant):
            if isinstance(n.value, (int, float)) and not isinstance(n.value, bool):
                return "P+" if n.value > 0 else ("P-" if n.value < 0 else "Z0")
            raise AnalysisError(f"constant {n.value!r} in a Bose-factor expression")
        if isinstance(n, ast.Name):
            return env.get(n.id, "P")
        if isinstance(n, ast.Attribute):
            if isinstance(n.value, ast.Name) and n.value.id == selfname:
                return self.attr(selfname, n.attr, n)
            return "P"
        if isinstance(n, ast.Subscript):
            return self.expr(n.value, env, selfname)
        if isinstance(n, ast.UnaryOp):
            v = self.expr(n.operand, env, selfname)
            return neg(v) if isinstance(n.op, ast.USub) else v
        if isinstance(n, ast.BinOp):
            a, b = self.expr(n.left, env, selfname), self.expr(n.right, env, selfname)
            if isinstance(n.op, ast.Add):
                r = add(a, b)
            elif isinstance(n.op, ast.Sub):
                r = add(a, b, sub=True)
            elif isinstance(n.op, ast.Mult):
                r = mul(a, b)
            elif isinstance(n.op, ast.Div):
                r = div(a, b)
            elif isinstance(n.op, ast.Pow):
                k = _const(n.right)
                if k is None:
                    raise AnalysisError(f"non-constant exponent in {src(n)[:60]}")
                r = power(a, k)
            else:
                raise AnalysisError(f"unsupported operator in {src(n)[:60]}")
            if r == "NANH" and "NANH" not in (a, b):
                self.trace.append(f"{src(n)[:90]}: {a} {type(n.op).__name__} {b} -> NaN hazard")
            return r
        if isinstance(n, ast.Call):
            name = dotted_name(n.func) or ""
            if isinstance(n.func, ast.Name) and ("def", n.func.id) not in env and self.module_function(n.func.id) is not None \
                    and self.reaches_exp(self.module_function(n.func.id), set()):
                fd = self.module_function(n.func.id)
                params = [a.arg for a in fd.args.args]
                if len(params) != len(n.args) or n.keywords or fd.args.vararg or fd.args.kwarg:
                    raise AnalysisError(f"call of the helper {n.func.id} with arguments the hazard analysis does not bind")
                if n.func.id in self.stack:
                    raise AnalysisError(f"recursive helper {n.func.id}")
                self.stack.append(n.func.id)
                try:
                    return self.function(fd, "<no self>", {p_: self.expr(a_, env, selfname) for p_, a_ in zip(params, n.args)})
                finally:
                    self.stack.pop()
            if name in ("functools.reduce", "reduce") and len(n.args) >= 2 and (dotted_name(n.args[0]) or "").split(".")[-1] in ("mul", "add", "sub", "truediv"):
                opn = (dotted_name(n.args[0]) or "").split(".")[-1]
                comb = {"mul": mul, "add": add, "sub": lambda a_, b_: add(a_, b_, sub=True), "truediv": div}[opn]
                elt = self.expr(n.args[1], env, selfname)
                acc = self.expr(n.args[2], env, selfname) if len(n.args) > 2 else elt
                for _ in range(3):                  # the fold applied a few times reaches the fixed point of the finite class domain
                    acc = comb(acc, elt)
                return acc
            if isinstance(n.func, ast.Name) and ("def", n.func.id) in env:
                fd = env[("def", n.func.id)]
                params = [a.arg for a in fd.args.args]
                if len(params) != len(n.args) or n.keywords or fd.args.vararg or fd.args.kwarg:
                    raise AnalysisError(f"call of the local helper {n.func.id} with arguments the hazard analysis does not bind")
                inner = dict(env)
                for p_, a_ in zip(params, n.args):
                    inner[p_] = self.expr(a_, env, selfname)
                return self.function(fd, selfname, inner)
            UF = {"numpy.add": ast.Add, "numpy.subtract": ast.Sub, "numpy.multiply": ast.Mult, "numpy.divide": ast.Div, "numpy.true_divide": ast.Div,
                  "operator.add": ast.Add, "operator.sub": ast.Sub, "operator.mul": ast.Mult, "operator.truediv": ast.Div}
            if name in UF and len(n.args) == 2 and not n.keywords:
                return self.expr(ast.copy_location(ast.BinOp(n.args[0], UF[name](), n.args[1]), n), env, selfname)
            if name in ("numpy.negative", "operator.neg") and len(n.args) == 1:
                return neg(self.expr(n.args[0], env, selfname))
            if name in ("numpy.power",) and len(n.args) == 2:
                return self.expr(ast.copy_location(ast.BinOp(n.args[0], ast.Pow(), n.args[1]), n), env, selfname)
            if name == "numpy.square" and len(n.args) == 1:
                return power(self.expr(n.args[0], env, selfname), 2)
            if name == "numpy.reciprocal" and len(n.args) == 1:
                return div("P", self.expr(n.args[0], env, selfname))
            if name in EXP_NAMES or name in EXPM1_NAMES:
                a = plain(self.expr(n.args[0], env, selfname))
                if a in ("U+", "U?", "OVF"):
                    return "OVF"
                if a == "U-":
                    return "Z0" if name in EXP_NAMES else "P"    # expm1(-inf) = -1
                if a == "NANH":
                    return "NANH"
                return "P"
            if name in ("numpy.sqrt", "numpy.abs", "abs", "numpy.log1p"):
                return self.expr(n.args[0], env, selfname)
            if name in ("numpy.log",):
                a = self.expr(n.args[0], env, selfname)
                return {"OVF": "OVF", "Z0": "U-", "NANH": "NANH"}.get(a, "P")
            args = [self.expr(a, env, selfname) for a in n.args]
            if any(a in ("OVF", "NANH") for a in args):
                return "NANH" if "NANH" in args else "OVF"
            return "P"
        if isinstance(n, (ast.GeneratorExp, ast.ListComp)) and len(n.generators) == 1 and isinstance(n.generators[0].target, ast.Name):
            # the class of the items: the element expression with the loop variable bound to the class of what is iterated
            inner = dict(env)
            inner[n.generators[0].target.id] = self.expr(n.generators[0].iter, env, selfname)
            return self.expr(n.elt, inner, selfname)
        if isinstance(n, (ast.Tuple, ast.List)) and n.elts:
            cls_ = [self.expr(e, env, selfname) for e in n.elts]
            return "NANH" if "NANH" in cls_ else ("OVF" if "OVF" in cls_ else cls_[0])
        if isinstance(n, ast.Compare):
            # a boolean mask: comparisons never raise and never produce a non-finite number (a NaN operand compares False); the operands
            # are still classified so that a hazard inside them is traced
            for e in [n.left] + list(n.comparators):
                self.expr(e, env, selfname)
            return "P"
        if isinstance(n, ast.BoolOp) or (isinstance(n, ast.UnaryOp) and isinstance(n.op, (ast.Not, ast.Invert))):
            for e in (n.values if isinstance(n, ast.BoolOp) else [n.operand]):
                self.expr(e, env, selfname)
            return "P"
        raise AnalysisError(f"unsupported expression in hazard analysis: {src(n)[:60]}")


def _const(n):
    if isinstance(n, ast.Constant) and isinstance(n.value, (int, float)):
        return n.value
    if isinstance(n, ast.UnaryOp) and isinstance(n.op, ast.USub) and isinstance(n.operand, ast.Constant):
        return -n.operand.value
    return None


def functions_with_exp(mod):
    out = []
    for q, f in mod.funcs.items():
        if any(isinstance(c, ast.Call) and (dotted_name(c.func) or "") in EXP_NAMES | EXPM1_NAMES for c in ast.walk(f)):
            out.append((q, f))
    return out
