"""E8 — library summaries read from the *installed sources* (nothing is imported).
Each summary has a frozen fallback (T-LIB) used only if the source idiom is not recognised."""
from __future__ import annotations

import ast
import functools
import glob
from pathlib import Path

from .report import AnalysisError
from .model import dotted_name, member_kind, body_wo_doc


@functools.lru_cache(None)
def site_packages() -> Path:
    c = sorted(glob.glob("/venv/lib/python3*/site-packages"))
    if not c:
        raise AnalysisError("cannot locate /venv site-packages")
    return Path(c[0])


@functools.lru_cache(None)
def parse_lib(rel: str):
    p = site_packages() / rel
    if not p.exists():
        raise AnalysisError(f"installed library source not found: {rel}")
    return ast.parse(p.read_text())


def lib_class(rel: str, cls: str) -> ast.ClassDef:
    for n in parse_lib(rel).body:
        if isinstance(n, ast.ClassDef) and n.name == cls:
            return n
    raise AnalysisError(f"class {cls} not found in installed {rel}")


def lib_func(rel: str, name: str) -> ast.FunctionDef:
    for n in ast.walk(parse_lib(rel)):
        if isinstance(n, ast.FunctionDef) and n.name == name:
            return n
    raise AnalysisError(f"function {name} not found in installed {rel}")


@functools.lru_cache(None)
def qha_calculator_members() -> dict:
    """name -> 'property' | 'lazy' | 'method' for installed qha.calculator.Calculator"""
    c = lib_class("qha/calculator.py", "Calculator")
    out = {}
    for n in c.body:
        if isinstance(n, ast.FunctionDef):
            out.setdefault(n.name, member_kind(n))
    return out


def positional_params(fd: ast.FunctionDef, drop_self=False):
    names = [a.arg for a in fd.args.posonlyargs + fd.args.args]
    if drop_self and names and names[0] in ("self", "cls"):
        names = names[1:]
    ndef = len(fd.args.defaults)
    required = names[: len(names) - ndef] if ndef else list(names)
    return names, required


def return_arity(fd: ast.FunctionDef):
    """set of arities over all return statements: 1 for a non-tuple expression"""
    out = set()
    for n in ast.walk(fd):
        if isinstance(n, ast.Return) and n.value is not None:
            out.add(len(n.value.elts) if isinstance(n.value, ast.Tuple) else 1)
    return out


def numba_signature_readonly_intolerant(fd: ast.FunctionDef) -> bool:
    """True if the function is compiled by numba with an explicit signature (then read-only
    arrays do not match `float64[:]`)."""
    for d in fd.decorator_list:
        if isinstance(d, ast.Call) and (dotted_name(d.func) or "").split(".")[-1] in ("jit", "njit") and d.args:
            return True
    return False


def ppoly_default_extrapolate(cls: str) -> bool | None:
    """scipy.interpolate._cubic: what `extrapolate=None` means for the class: True / False.
    Recognised idioms: `if extrapolate is None: extrapolate = True`, and
    `extrapolate = False if extrapolate is None else extrapolate`; PchipInterpolator hands the
    value to CubicHermiteSpline.__init__ (one super().__init__ hop)."""
    c = lib_class("scipy/interpolate/_cubic.py", cls)
    init = next((n for n in c.body if isinstance(n, ast.FunctionDef) and n.name == "__init__"), None)
    if init is None:
        return None
    for n in ast.walk(init):
        if isinstance(n, ast.If) and isinstance(n.test, ast.Compare) and isinstance(n.test.left, ast.Name) \
                and n.test.left.id == "extrapolate" and isinstance(n.test.ops[0], ast.Is):
            for st in n.body:
                if isinstance(st, ast.Assign) and isinstance(st.targets[0], ast.Name) and st.targets[0].id == "extrapolate" \
                        and isinstance(st.value, ast.Constant):
                    return bool(st.value.value)
        if isinstance(n, ast.Assign) and isinstance(n.targets[0], ast.Name) and n.targets[0].id == "extrapolate" \
                and isinstance(n.value, ast.IfExp):
            t = n.value.test
            if isinstance(t, ast.Compare) and isinstance(t.left, ast.Name) and t.left.id == "extrapolate" \
                    and isinstance(t.ops[0], ast.Is) and isinstance(n.value.body, ast.Constant):
                return bool(n.value.body.value)
    # one hop: super().__init__(..., extrapolate=extrapolate)
    for b in c.bases:
        bn = dotted_name(b)
        if bn and bn != "object" and bn != cls:
            try:
                return ppoly_default_extrapolate(bn.split(".")[-1])
            except AnalysisError:
                return None
    return None


def lib_global_is_mutable(dotted: str) -> bool:
    """`qha.settings.DEFAULT_SETTINGS` -> True when the installed module binds that name at top level to a dict/list/set
    display, comprehension or constructor call (read from the installed source, nothing imported)"""
    modname, _, name = dotted.rpartition(".")
    rel = modname.replace(".", "/")
    for cand in (rel + ".py", rel + "/__init__.py"):
        try:
            tree = parse_lib(cand)
        except (AnalysisError, OSError, SyntaxError):
            continue
        for st in tree.body:
            tgt = val = None
            if isinstance(st, ast.Assign) and len(st.targets) == 1:
                tgt, val = st.targets[0], st.value
            elif isinstance(st, ast.AnnAssign):
                tgt, val = st.target, st.value
            if isinstance(tgt, ast.Name) and tgt.id == name and val is not None:
                if isinstance(val, (ast.Dict, ast.List, ast.Set, ast.DictComp, ast.ListComp, ast.SetComp)):
                    return True
                if isinstance(val, ast.Call) and (dotted_name(val.func) or "").split(".")[-1] in ("dict", "list", "set", "OrderedDict", "defaultdict", "deque", "bytearray"):
                    return True
                return False
    return False
