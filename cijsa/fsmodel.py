"""File-system model for the folder: paths with provenance, files with a cursor, a log of every probe / open.

A path value records where it is anchored:

  packaged   obtained from cij.data.get_data_fname (inside the installed package)
  arg        handed in by the user (a command-line path, a function argument that names a file)
  argdir     a directory derived from such a path (its .parent) and anything joined below it
  cwd        a bare relative name turned into a path: resolved against the process's working directory
  absolute   a constant absolute path

Rules decide from the log which anchors may be probed or opened (e.g. packaged data must never be looked up through
`cwd`; input files named in a settings file must be looked up next to that file).  Nothing touches the real file system.
"""
from __future__ import annotations

import os

from .report import AnalysisError
from .sym import BoundLib, RaisedV, Tup, kw_accept, open_kw


class PathV:
    def __init__(self, text, anchor):
        self.text, self.anchor = text, anchor
        self.const_key = ("path", text, anchor)

    # ---- construction helpers
    @staticmethod
    def of(v, default_anchor="cwd"):
        if isinstance(v, PathV):
            return v
        if isinstance(v, str):
            return PathV(v, "absolute" if v.startswith("/") else default_anchor)
        t = getattr(v, "text", None)
        if isinstance(t, str):
            return PathV(t, "packaged" if getattr(v, "packaged", False) else ("absolute" if t.startswith("/") else default_anchor))
        raise AnalysisError(f"path built from a value that is not a constant string or path ({type(v).__name__})")

    def join(self, other):
        o = other.text if isinstance(other, PathV) else other
        if not isinstance(o, str):
            raise AnalysisError("path joined with a non-constant")
        if o.startswith("/"):
            return PathV(o, "absolute")
        if isinstance(other, PathV) and other.anchor in ("packaged", "arg", "argdir") and self.text in ("", "."):
            return other
        base = self.text.rstrip("/")
        anchor = self.anchor if self.anchor != "arg" else "argdir"
        return PathV(o if base in ("", ".") else f"{base}/{o}", anchor)

    def sym_str(self):
        return self if self.anchor == "packaged" else self.text

    # ---- folder protocol
    def sym_getattr(self, ev, name, node, mod):
        if name == "parent":
            d = os.path.dirname(self.text)
            return PathV(d if d else ".", "argdir" if self.anchor in ("arg", "argdir") else self.anchor)
        if name == "name":
            return os.path.basename(self.text)
        if name == "suffix":
            return os.path.splitext(self.text)[1]
        if name == "stem":
            return os.path.splitext(os.path.basename(self.text))[0]
        if name == "parts":
            return Tup([p for p in self.text.split("/") if p], "tuple")
        if name in ("exists", "is_file", "is_dir", "open", "read_text", "read_bytes", "write_text", "expanduser", "resolve", "absolute", "is_absolute",
                    "with_suffix", "with_name", "joinpath", "as_posix", "__fspath__", "glob", "iterdir", "mkdir", "unlink", "touch", "stat", "samefile"):
            return BoundLib(f"fs.path.{name}", self)
        raise ev.err(f"Path attribute {name}", node, mod)

    def sym_binop(self, ev, op, other, reflected, n, mod):
        import ast
        if isinstance(op, ast.Div):
            if reflected:
                return PathV.of(other).join(self)
            return self.join(other)
        raise ev.err("unsupported operator on a path", n, mod)

    def sym_truth(self, ev, n, mod):
        return True

    def __repr__(self):
        return f"Path({self.text!r}, {self.anchor})"


class FileV:
    """an open text file: `lines` with a cursor for reading, `written` for writing"""

    def __init__(self, path, text=None, mode="r", content=None):
        self.path, self.mode = path, mode
        self.lines = text.splitlines(keepends=True) if isinstance(text, str) else None
        self.content = content            # opaque marker for files whose text the scenario does not spell out
        self.pos = 0
        self.written = ""
        self.closed = False

    def need_text(self):
        if self.lines is None:
            raise AnalysisError(f"the text of {self.path!r} is not part of the scenario")

    def sym_getattr(self, ev, name, node, mod):
        if name in ("read", "readline", "readlines", "write", "writelines", "close", "seek", "tell", "flush", "__enter__", "__exit__"):
            return BoundLib(f"fs.file.{name}", self)
        if name == "name":
            return self.path.text
        if name == "closed":
            return self.closed
        raise ev.err(f"file attribute {name}", node, mod)

    def sym_iter(self, ev, n, mod):
        self.need_text()
        rest = self.lines[self.pos:]
        self.pos = len(self.lines)
        return list(rest)

    def nxt(self):
        self.need_text()
        if self.pos >= len(self.lines):
            raise RaisedV("StopIteration")
        self.pos += 1
        return self.lines[self.pos - 1]


class FS:
    def __init__(self, files=None, dirs=None, probe=None, missing="raise"):
        self.files = dict(files or {})        # path text -> str (the text) | any other marker (opaque content)
        self.dirs = set(dirs or ())
        self.probe = probe                    # callable(PathV, kind) -> bool | None  (None: undecided -> AnalysisError)
        self.missing = missing                # "raise": opening an unknown path raises FileNotFoundError; "opaque": returns an opaque file
        self.log = []                         # (op, PathV, extra)
        self.outputs = {}                     # path text -> FileV opened for writing

    # ---- primitives
    def do_probe(self, p: PathV, kind):
        self.log.append((kind, p, None))
        if self.probe is not None:
            r = self.probe(p, kind)
            if r is not None:
                return bool(r)
        if p.text in self.files or p.text in self.outputs:
            return kind in ("exists", "is_file")
        if p.text in self.dirs:
            return kind in ("exists", "is_dir")
        if self.missing == "raise" or p.anchor != "cwd":
            return False
        raise AnalysisError(f"the outcome of {kind}() on {p!r} is not part of the scenario")

    def do_open(self, p: PathV, mode="r"):
        self.log.append(("open", p, mode))
        if any(c in mode for c in "wax+"):
            f = FileV(p, "", mode)
            self.outputs[p.text] = f
            return f
        if p.text in self.outputs:
            return FileV(p, self.outputs[p.text].written, mode)
        if p.text in self.files:
            c = self.files[p.text]
            return FileV(p, c, mode) if isinstance(c, str) else FileV(p, None, mode, content=c)
        if p.text in self.dirs:
            raise RaisedV("IsADirectoryError")
        if self.missing == "opaque":
            return FileV(p, None, mode, content=("content-of", p.text, p.anchor))
        raise RaisedV("FileNotFoundError")

    def opened(self, reading=True):
        return [p for op, p, m in self.log if op == "open" and (("r" in (m or "r") and not any(c in m for c in "wax+")) == reading)]

    def probed(self):
        return [(op, p) for op, p, _ in self.log if op in ("exists", "is_file", "is_dir")]

    # ---- transfer functions
    def intrinsics(self, arg_anchor="cwd"):
        fs = self

        def path_ctor(ev, a, k):
            if not a:
                return PathV(".", "cwd")
            p = PathV.of(a[0], arg_anchor)
            for more in a[1:]:
                p = p.join(more)
            return p

        def open_(ev, a, k):
            mode = a[1] if len(a) > 1 else k.get("mode", "r")
            open_kw(k)
            if not isinstance(mode, str):
                raise AnalysisError("open() with a non-constant mode")
            target = a[0] if a else k.get("file")
            return fs.do_open(PathV.of(target, arg_anchor), mode)

        def path_open(ev, a, k):
            mode = a[1] if len(a) > 1 else k.get("mode", "r")
            open_kw(k)
            return fs.do_open(a[0], mode)

        def read_text(ev, a, k):
            open_kw(k)
            f = fs.do_open(a[0], "r")
            if f.lines is None:
                return TextOf(f)
            return "".join(f.lines)

        def write_text(ev, a, k):
            open_kw(k)
            f = fs.do_open(a[0], "w")
            if not isinstance(a[1], str):
                raise AnalysisError("write_text of a non-constant string")
            f.written += a[1]
            return len(a[1])

        def probe(kind):
            return lambda ev, a, k: fs.do_probe(a[0], kind)

        def os_probe(kind):
            return lambda ev, a, k: fs.do_probe(PathV.of(a[0], arg_anchor), kind)

        def f_read(ev, a, k):
            f = a[0]
            if f.lines is None:
                f.pos = 1
                return TextOf(f)
            rest = "".join(f.lines[f.pos:])
            f.pos = len(f.lines)
            return rest

        def f_readline(ev, a, k):
            f = a[0]
            f.need_text()
            if f.pos >= len(f.lines):
                return ""
            f.pos += 1
            return f.lines[f.pos - 1]

        def f_readlines(ev, a, k):
            f = a[0]
            f.need_text()
            rest = f.lines[f.pos:]
            f.pos = len(f.lines)
            return Tup(list(rest), "list")

        def f_write(ev, a, k):
            if not isinstance(a[1], str):
                raise AnalysisError("write of a non-constant string")
            a[0].written += a[1]
            return len(a[1])

        def f_writelines(ev, a, k):
            for line in ev.iterate(a[1], None, None):
                if not isinstance(line, str):
                    raise AnalysisError("writelines of a non-constant line")
                a[0].written += line
            return None

        def f_close(ev, a, k):
            a[0].closed = True
            return None

        def f_seek(ev, a, k):
            off = a[1]
            if getattr(off, "is_Integer", False) and int(off) == 0:
                a[0].pos = 0
                return off
            raise AnalysisError("seek to a position other than 0")

        def nxt(ev, a, k):
            if isinstance(a[0], FileV):
                try:
                    return a[0].nxt()
                except RaisedV:
                    if len(a) > 1:
                        return a[1]
                    raise
            items = ev.iterate(a[0])
            if not items and len(a) > 1:
                return a[1]
            if not items:
                raise RaisedV("StopIteration")
            return items[0]

        def os_join(ev, a, k):
            p = PathV.of(a[0], arg_anchor)
            for more in a[1:]:
                p = p.join(more)
            return p

        def getdata(ev, a, k):
            if not isinstance(a[0], str):
                raise AnalysisError("get_data_fname of a non-constant name")
            return PathV(a[0], "packaged")

        def identity(ev, a, k):
            return a[0]

        def is_absolute(ev, a, k):
            return a[0].anchor == "absolute" or a[0].text.startswith("/")

        def with_suffix(ev, a, k):
            return PathV(os.path.splitext(a[0].text)[0] + a[1], a[0].anchor)

        def with_name(ev, a, k):
            d = os.path.dirname(a[0].text)
            return PathV((d + "/" if d else "") + a[1], a[0].anchor)

        def joinpath(ev, a, k):
            p = a[0]
            for more in a[1:]:
                p = p.join(more)
            return p

        def to_str(ev, a, k):
            return a[0].text if a[0].anchor != "packaged" else a[0]

        return {
            "pathlib.Path": path_ctor, "pathlib.PurePath": path_ctor, "pathlib.PosixPath": path_ctor,
            "builtins.open": open_, "io.open": open_, "codecs.open": open_,
            "fs.path.open": path_open, "fs.path.read_text": read_text, "fs.path.write_text": write_text,
            "fs.path.exists": probe("exists"), "fs.path.is_file": probe("is_file"), "fs.path.is_dir": probe("is_dir"),
            "os.path.exists": os_probe("exists"), "os.path.isfile": os_probe("is_file"), "os.path.isdir": os_probe("is_dir"),
            "os.path.join": os_join, "os.path.dirname": lambda ev, a, k: PathV.of(a[0], arg_anchor).sym_getattr(ev, "parent", None, None),
            "os.path.basename": lambda ev, a, k: os.path.basename(PathV.of(a[0], arg_anchor).text),
            "os.path.splitext": lambda ev, a, k: Tup(list(os.path.splitext(PathV.of(a[0], arg_anchor).text)), "tuple"),
            "os.path.expanduser": lambda ev, a, k: a[0], "os.fspath": identity,
            "fs.path.expanduser": identity, "fs.path.is_absolute": is_absolute, "fs.path.with_suffix": with_suffix, "fs.path.with_name": with_name,
            "fs.path.joinpath": joinpath, "fs.path.as_posix": to_str, "fs.path.__fspath__": to_str,
            "fs.path.resolve": lambda ev, a, k: PathV(a[0].text, a[0].anchor), "fs.path.absolute": lambda ev, a, k: PathV(a[0].text, a[0].anchor),
            "fs.file.read": f_read, "fs.file.readline": f_readline, "fs.file.readlines": f_readlines, "fs.file.write": f_write,
            "fs.file.writelines": f_writelines, "fs.file.close": f_close, "fs.file.seek": f_seek, "fs.file.flush": lambda ev, a, k: None,
            "fs.file.__enter__": identity, "fs.file.__exit__": f_close,
            "builtins.next": nxt, "cij.data:get_data_fname": getdata,
        }


class TextOf:
    """the (unspecified) text of a file: what a parser intrinsic receives from fp.read() / path.read_text()"""

    def __init__(self, f: FileV):
        self.file = f
        self.const_key = ("text-of", f.path.text, f.path.anchor)

    def __repr__(self):
        return f"TextOf({self.file.path!r})"
