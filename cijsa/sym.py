"""E2 — straight-line code -> exact normal forms (sympy expressions over semantic atoms).

This is expression normalisation with constant propagation: function/property bodies are
inlined, branches must be decided by *known constants* (enumerated CLI modes, literals);
a branch on an unknown value, an unknown call or an unsupported statement ends the rule
with an AnalysisError (exit 2), never a guess.  No path conditions, no solver."""
from __future__ import annotations

import ast
import collections.abc
import itertools

import sympy as sp

from . import units as U
from .model import Model, Mod, dotted_name, member_kind, body_wo_doc, is_logging_stmt, src
from .report import AnalysisError

MAX_DEPTH = 40
MAX_UNROLL = 4096


# ---------------------------------------------------------------- values
class Obj:
    """An instance of a (repo or external) class."""

    def __init__(self, cls: str, attrs=None, label=None):
        self.cls, self.attrs, self.label = cls, dict(attrs or {}), label or cls.split(":")[-1]

    def __repr__(self):
        return f"<{self.label}>"


class Tup:
    def __init__(self, items, kind="tuple"):
        self.items, self.kind = list(items), kind

    def __repr__(self):
        return f"Tup{self.items}"


def hkey(v):
    """hashable constant key of a value (ints, strings, tuples of those, NamedTuple objects by
    field values, canonical keys); raises AnalysisError for non-constants"""
    if isinstance(v, bool) or v is None or isinstance(v, (str, int)):
        return v
    if hasattr(v, "const_key"):
        return v.const_key
    if isinstance(v, sp.Basic):
        if v.is_Integer:
            return int(v)
        if v.is_Rational:
            return v
        raise AnalysisError("non-constant used as a key")
    if isinstance(v, Tup):
        return tuple(hkey(i) for i in v.items)
    if isinstance(v, Obj) and "__fields__" in v.attrs:
        return tuple(hkey(v.attrs[f]) for f in v.attrs["__fields__"])
    raise AnalysisError(f"non-constant used as a key: {type(v).__name__}")


class OpaqueToken:
    """a value of which only identity is known: the bytes of an array (x.tobytes()), the address of an object (id(x)).  Two tokens are the same value
    exactly when they were made from the same object by the same operation; whether tokens of different objects are equal is not known"""

    def __init__(self, kind, of):
        self.kind, self.of = kind, of

    def __repr__(self):
        return f"{self.kind}({type(self.of).__name__})"


def skey(v):
    """key of a value in a mapping: the constant key where there is one, else a structural key (the same expression / the same object gives the same key;
    different structural keys may or may not be equal values - see definitely_different)"""
    try:
        return hkey(v)
    except AnalysisError:
        pass
    if isinstance(v, Masked):
        return skey(v.val)
    if isinstance(v, Tup):
        return ("tup", tuple(skey(i) for i in v.items))
    if isinstance(v, sp.Basic):
        return ("sym", sp.srepr(v))
    if isinstance(v, OpaqueToken):
        return ("tok", v.kind, id(v.of))
    if isinstance(v, Obj) and "__fields__" in v.attrs:
        return ("nt", tuple(skey(v.attrs[f]) for f in v.attrs["__fields__"]))
    if isinstance(v, (LibV,)):
        return ("lib", v.name)
    if isinstance(v, Opaque):
        return ("opaque", v.name)       # the same access path into the same unexamined object
    raise AnalysisError(f"value used as a key that has neither a constant nor a structural key: {type(v).__name__}")


def definitely_different(a, b) -> bool:
    """two key values that cannot be equal: constants that differ, tuples of different length or with a component that cannot be equal"""
    def is_const(x):
        try:
            hkey(x)
            return True
        except AnalysisError:
            return False
    if is_const(a) and is_const(b):
        return hkey(a) != hkey(b)
    ta = a.items if isinstance(a, Tup) else ([a.attrs[f] for f in a.attrs["__fields__"]] if isinstance(a, Obj) and "__fields__" in a.attrs else None)
    tb = b.items if isinstance(b, Tup) else ([b.attrs[f] for f in b.attrs["__fields__"]] if isinstance(b, Obj) and "__fields__" in b.attrs else None)
    if ta is not None and tb is not None:
        return len(ta) != len(tb) or any(definitely_different(x, y) for x, y in zip(ta, tb))
    if (ta is None) != (tb is None) and (is_const(a) or is_const(b)):
        return True
    return False


class _KeyDict:
    """mapping keyed by hkey(value) that remembers the original key objects"""

    def __init__(self, init=None):
        self.m = {}
        if init:
            for k, v in (init.items() if hasattr(init, "items") else init):
                self[k] = v

    def __setitem__(self, k, v):
        self.m[skey(k)] = (k, v)

    def __getitem__(self, k):
        return self.m[skey(k)][1]

    def __contains__(self, k):
        try:
            return skey(k) in self.m
        except AnalysisError:
            return False

    def get(self, k, default=None):
        return self.m[skey(k)][1] if k in self else default

    def membership(self, k):
        """True / False when it is certain that k is / is not a key, None when a stored key might be an equal value"""
        if k in self:
            return True
        if all(definitely_different(k, kk) for kk, _ in self.m.values()):
            return False
        return None

    def keys(self):
        return [k for k, _ in self.m.values()]

    def values(self):
        return [v for _, v in self.m.values()]

    def items(self):
        return list(self.m.values())

    def update(self, other):
        for k, v in (other.items() if hasattr(other, "items") else other):
            self[k] = v

    def __len__(self):
        return len(self.m)

    def __iter__(self):
        return iter(self.keys())

    def __bool__(self):
        return bool(self.m)


class DictV:
    def __init__(self, d=None, default=None):
        self.d, self.default = _KeyDict(d), default


class FuncV:
    def __init__(self, ref, bound=None):
        self.ref, self.bound = ref, bound


class LocalFuncV:
    def __init__(self, node, env, mod, qual):
        self.node, self.env, self.mod, self.qual = node, env, mod, qual


# scipy.constants names that are plain numbers (SI prefixes; gram = 1e-3 as a number of kilograms)
SCIPY_PLAIN_NUMBERS = {"gram": sp.Rational(1, 1000), "kilo": sp.Integer(1000), "milli": sp.Rational(1, 1000), "centi": sp.Rational(1, 100),
                       "micro": sp.Rational(1, 10 ** 6), "nano": sp.Rational(1, 10 ** 9), "mega": sp.Integer(10 ** 6), "giga": sp.Integer(10 ** 9),
                       "deci": sp.Rational(1, 10), "hecto": sp.Integer(100), "tera": sp.Integer(10 ** 12), "pico": sp.Rational(1, 10 ** 12)}


class StaticV:
    """staticmethod(f) / classmethod-free wrapper stored as a class attribute"""

    def __init__(self, fn):
        self.fn = fn


class PropertyV:
    """property(fget): a descriptor built at run time (installed on a class with setattr)"""

    def __init__(self, fget):
        self.fget = fget


class LambdaV:
    def __init__(self, node, env, mod):
        self.node, self.env, self.mod = node, env, mod


class LibV:
    """A library module/function/attribute by dotted name, e.g. numpy.exp."""

    def __init__(self, name):
        self.name = name

    def __repr__(self):
        return f"Lib({self.name})"


class ClsV:
    def __init__(self, ref):
        self.ref = ref


class UnitV:
    def __init__(self, expr):
        self.expr = expr


class QtyV:
    def __init__(self, val, unit):
        self.val, self.unit = val, unit


class ConvV:
    """convert_unit(u_from, u_to) without value: a callable x -> x*u_from/u_to"""

    def __init__(self, factor):
        self.factor = factor


class MaskRec:
    def __init__(self, cond, index_src, value, line, axis=0, rest_full=True):
        self.cond, self.index_src, self.value, self.line = cond, index_src, value, line
        self.axis, self.rest_full = axis, rest_full

    def __repr__(self):
        return f"mask[{self.index_src}]={self.value}"


class Masked:
    """array value with the masked stores applied to it (in order)."""

    def __init__(self, val, masks):
        self.val, self.masks = val, list(masks)


class Opaque:
    """a value the formula engine does not look into (config dict, parsed input object);
    attribute/subscript access yields another Opaque, arithmetic on it is an error"""

    def __init__(self, name):
        self.name = name

    def __repr__(self):
        return f"Opaque({self.name})"


class SuperV:
    def __init__(self, obj, cls):
        self.obj, self.cls = obj, cls


class PairList:
    """a mapping keyed by objects compared with == (the data of a UserDict whose keys define __eq__)"""

    def __init__(self):
        self.pairs = []


class EnumV:
    def __init__(self, cls, name):
        self.cls, self.name = cls, name
        self.const_key = ("enum", cls, name)

    def __repr__(self):
        return f"{self.cls.split(':')[-1]}.{self.name}"

    def __eq__(self, other):
        return isinstance(other, EnumV) and other.const_key == self.const_key

    def __hash__(self):
        return hash(self.const_key)


class CondV:
    """an elementwise comparison kept symbolically (only used inside numpy.where masks)"""

    def __init__(self, text, lhs, op, rhs):
        self.text, self.lhs, self.op, self.rhs = text, lhs, op, rhs


class FInfoV:
    """numpy.finfo(float): the constants of IEEE double precision"""
    vals = {"eps": sp.Rational(1, 2 ** 52), "tiny": sp.Rational(1, 2 ** 1022), "smallest_normal": sp.Rational(1, 2 ** 1022), "max": (2 - sp.Rational(1, 2 ** 52)) * 2 ** 1023,
            "min": -(2 - sp.Rational(1, 2 ** 52)) * 2 ** 1023, "resolution": sp.Rational(1, 10 ** 15), "epsneg": sp.Rational(1, 2 ** 53)}


SLOGDET_COUNTER = [0]


NONE = None
AVG = sp.Function("AVG")
GRAD = sp.Function("GRAD")


def num(x):
    if isinstance(x, bool):
        return sp.Integer(int(x))
    if isinstance(x, int):
        return sp.Integer(x)
    if isinstance(x, float):
        return sp.nsimplify(repr(x), rational=True)
    return x


def is_sym(v):
    return isinstance(v, sp.Basic)


def as_sym(v, what="value"):
    if isinstance(v, Masked):
        return v.val
    if is_sym(v):
        return v
    if isinstance(v, (bool, int, float)):
        return num(v)
    raise AnalysisError(f"{what} is not a numeric expression: {type(v).__name__} {v!r}")


def _exception_is_a(raised, handler):
    """Python's own class hierarchy of the built-in exceptions (FileNotFoundError and IsADirectoryError are OSErrors, KeyError is a LookupError ...)"""
    import builtins
    a, b = getattr(builtins, raised, None), getattr(builtins, handler, None)
    if handler in ("IOError", "EnvironmentError"):
        b = OSError
    return isinstance(a, type) and isinstance(b, type) and issubclass(a, BaseException) and issubclass(a, b)


class RaisedV(AnalysisError):
    """the analysed path reaches `raise X(...)`; rules that expect a refusal catch this"""

    def __init__(self, exc_name, where=""):
        super().__init__(f"a raise statement is reached on the analysed path: {exc_name}", where)
        self.exc_name = exc_name


MUTATORS = {"append", "extend", "insert", "remove", "pop", "clear", "sort", "reverse", "update", "setdefault", "add", "discard", "fill", "put", "resize",
            "popitem", "__setitem__", "__delitem__", "drop", "rename", "set_index"}


class DataDependentBranch(AnalysisError):
    """a branch whose condition depends on array data (an elementwise comparison), not on known constants"""


def explore_branches(run, limit=32):
    """run(decide) once per combination of outcomes of the data-dependent branches it meets (depth first, False first);
    `decide` is to be installed as the evaluator's branch_oracle.  Returns [(decisions, result of run)]."""
    pending, results = [[]], []
    while pending:
        prefix = pending.pop()
        taken = []

        def decide(v, prefix=prefix, taken=taken):
            i = len(taken)
            if i < len(prefix):
                c = prefix[i]
            else:
                c = False
                pending.append(list(taken) + [True])
            taken.append(c)
            decide.conditions.append(v)
            return c
        decide.conditions = conds = []
        results.append((taken, run(decide)))
        taken[:] = list(zip(conds, taken)) if len(conds) == len(taken) else taken
        if len(results) > limit:
            raise AnalysisError(f"more than {limit} combinations of data-dependent branches")
    return results


class _ViewCells(collections.abc.MutableMapping):
    """cells of a reshaped view: reads and writes go to the cells of the array it was taken from"""

    def __init__(self, base, fwd):
        self.base, self.fwd = base, fwd

    def __getitem__(self, k):
        return self.base.cells[self.fwd[k]]

    def __setitem__(self, k, v):
        self.base.cells[self.fwd[tuple(k)]] = v

    def __delitem__(self, k):
        del self.base.cells[self.fwd[k]]

    def __iter__(self):
        return (k for k, s_ in self.fwd.items() if s_ in self.base.cells)

    def __len__(self):
        return sum(1 for _ in self)


def path_substitution(decisions):
    """{atom: expression} for the tolerance equalities assumed true on a path explored by explore_branches; None when an
    assumed-true condition cannot be turned into a substitution (its branch can then not be judged)"""
    sub = {}
    for item in decisions:
        if not (isinstance(item, tuple) and len(item) == 2):
            return None
        cond, outcome = item
        if not outcome:
            continue
        pair = getattr(cond, "pair", None)
        if pair is None:
            return None
        a, b = (sp.sympify(x).xreplace(sub) for x in pair)
        if a == b:
            continue
        if b.is_Symbol or (isinstance(b, sp.Function) and b.func.__name__ == "GRIDAT"):
            sub = {k: v.xreplace({b: a}) for k, v in sub.items()}
            sub[b] = a
        elif a.is_Symbol or (isinstance(a, sp.Function) and a.func.__name__ == "GRIDAT"):
            sub = {k: v.xreplace({a: b}) for k, v in sub.items()}
            sub[a] = b
        else:
            return None
    return sub


class ArrV:
    """numpy array whose trailing axes have constant sizes (e.g. (..., 6, 6)); `batch` leading
    axes are symbolic grid axes.  Cells default to `fill`."""

    def __init__(self, batch, shape, fill=sp.Integer(0), cells=None, sym_of=None, batch_last=False):
        self.batch, self.shape, self.fill = batch, tuple(shape), fill
        self.cells = dict(cells or {})
        self.sym_of = sym_of   # for inverse matrices: the ArrV this one is the inverse of
        self.batch_last = batch_last      # the symbolic axes follow the constant ones (after a transpose)

    def get(self, key):
        return self.cells.get(tuple(key), self.fill)

    def index_sets(self, items, ev, n=None, mod=None):
        """items: index objects for all axes -> (list of per-const-axis index lists, per-axis is_scalar)"""
        items = list(items)
        if any(i is Ellipsis for i in items):
            k = items.index(Ellipsis)
            items = items[:k] + [SliceV(None, None, None)] * (self.batch + len(self.shape) - len(items) + 1) + items[k + 1:]
        while len(items) < self.batch + len(self.shape):
            items.append(SliceV(None, None, None))
        if len(items) != self.batch + len(self.shape):
            raise ev.err("index rank does not match the array", n, mod)
        grid_items = items[len(self.shape):] if self.batch_last else items[: self.batch]
        const_items = items[: len(self.shape)] if self.batch_last else items[self.batch:]
        self._grid_index = None
        for i in grid_items:
            if not (isinstance(i, SliceV) and i.lo is None and i.hi is None and i.step is None):
                if self.batch == 1 and isinstance(i, SliceV):
                    self._grid_index = i          # a slice along the single grid axis: applied to every cell's grid vector
                    continue
                if self.batch == 1 and is_sym(i) and i.is_Integer:
                    self._grid_index = i          # one position of the single grid axis: the value of every cell there
                    continue
                raise ev.err("non-trivial index on a grid axis", n, mod)
        sets, scalar = [], []
        for size, i in zip(self.shape, const_items):
            if isinstance(i, Tup) and len(i.items) == size and i.items and all(isinstance(x, bool) or x in (sp.true, sp.false) for x in i.items):
                i = Tup([sp.Integer(j) for j, x in enumerate(i.items) if x is True or x == sp.true], "list")     # a list of decided booleans: a mask
            if isinstance(i, ArrV) and not i.batch and len(i.shape) == 1 and i.shape[0] == size \
                    and all(isinstance(i.get((j,)), bool) or i.get((j,)) in (sp.true, sp.false) for j in range(size)):
                # a boolean mask with decided entries: the positions where it is true
                i = Tup([sp.Integer(j) for j in range(size) if i.get((j,)) is True or i.get((j,)) == sp.true], "list")
            if isinstance(i, ArrV) and not i.batch and len(i.shape) == 1 and all(is_sym(i.get((j,))) and sp.sympify(i.get((j,))).is_Integer for j in range(i.shape[0])):
                i = Tup([i.get((j,)) for j in range(i.shape[0])], "list")                    # an integer index vector: the same as a list of integers
            if isinstance(i, Tup) and all(is_sym(x) and x.is_Integer for x in i.items):      # integer-list (fancy) index on one axis
                ks = [int(x) + (size if int(x) < 0 else 0) for x in i.items]
                if not all(0 <= kk < size for kk in ks):
                    raise RaisedV("IndexError", f"{mod.rel}:{getattr(n, 'lineno', 0)}" if mod else "")
                sets.append(ks)
                scalar.append(False)
                continue
            if isinstance(i, SliceV):
                lo = None if i.lo is None else _const_int(i.lo)
                hi = None if i.hi is None else _const_int(i.hi)
                st = None if i.step is None else _const_int(i.step)
                sets.append(list(range(size))[lo:hi:st])
                scalar.append(False)
            else:
                k = _const_int(i)
                if k < 0:
                    k += size
                if not 0 <= k < size:
                    raise RaisedV("IndexError", f"{mod.rel}:{getattr(n, 'lineno', 0)}" if mod else "")
                sets.append([k])
                scalar.append(True)
        return sets, scalar


def _paired_fancy(base, items, ev, n, mod):
    """two or more integer-list indices select element-wise pairs (numpy broadcasts the index arrays together), e.g.
    a[..., [0,1,2], [0,1,2]] is the diagonal.  Returns the list of constant-axis keys, or None when at most one index is a list.
    Only the case 'every constant axis is indexed by a list of one common length (or a scalar)' is modelled."""
    fancy = [i for i in items if isinstance(i, Tup) and all(is_sym(x) and x.is_Integer for x in i.items)]
    if len(fancy) < 2:
        return None
    its = list(items)
    if any(i is Ellipsis for i in its):
        k_ = its.index(Ellipsis)
        its = its[:k_] + [SliceV(None, None, None)] * (base.batch + len(base.shape) - len(its) + 1) + its[k_ + 1:]
    if len(its) != base.batch + len(base.shape):
        raise ev.err("index rank does not match the array", n, mod)
    const_items = its[: len(base.shape)] if base.batch_last else its[base.batch:]
    ln = {len(i.items) for i in fancy}
    if len(ln) != 1:
        raise RaisedV("IndexError")
    ln = ln.pop()
    cols = []
    for size, i in zip(base.shape, const_items):
        if isinstance(i, Tup):
            ks = [int(x) + (size if int(x) < 0 else 0) for x in i.items]
        elif is_sym(i) and i.is_Integer:
            ks = [int(i) + (size if int(i) < 0 else 0)] * ln
        else:
            raise ev.err("integer-array indices mixed with slices on the constant axes", n, mod)
        if not all(0 <= kk < size for kk in ks):
            raise RaisedV("IndexError")
        cols.append(ks)
    return [tuple(c[t_] for c in cols) for t_ in range(ln)]


def _as_index(i):
    """an integer array used as an index is an integer list"""
    if isinstance(i, ArrV) and len(i.shape) == 1 and not i.batch:
        return Tup([sp.sympify(i.get((k,))) for k in range(i.shape[0])], "list")
    return i


class SymILoc:
    """positional access into a data vector that is one atom: x.iloc[i] -> idx[i](x); x.iloc[[i, j]] -> the two elements"""

    def __init__(self, v):
        self.v = v

    def sym_subscript(self, ev, idx, n, mod):
        if isinstance(idx, Tup) and idx.kind == "list":
            return Tup([ev.subscript(self.v, i, n, mod) for i in idx.items], "list")
        return ev.subscript(self.v, idx, n, mod)


MAYBE_ZERO_ATOMS = {"T"}


class MatchV:
    def __init__(self, m):
        self.m = m


class Ret(Exception):
    def __init__(self, value):
        self.value = value


class Ev:
    def __init__(self, model: Model, seeds=None, intrinsics=None, attr_hook=None, ctx=None):
        self.model = model
        self.seeds = dict(seeds or {})            # (class ref, attr) -> value | callable(ev,obj)
        self.intr = dict(intrinsics or {})        # 'module:func' or lib dotted -> callable(ev,args,kwargs)
        self.attr_hook = attr_hook                # callable(ev, obj, name) -> value | NotImplemented
        self.ctx = ctx
        self.cache = {}
        self.depth = 0
        self.inlined = set()
        self.call_sites = 0
        self.epoch = 0          # bumped at every store to object/container state (plain-property cache validity)

    # ------------------------------------------------------------ helpers
    def err(self, msg, node=None, mod: Mod | None = None):
        where = ""
        if mod is not None:
            where = mod.rel + (f":{node.lineno}" if node is not None and hasattr(node, "lineno") else "")
        return AnalysisError(msg + (f" [{src(node)[:80]}]" if node is not None else ""), where)

    def note_fn(self, ref):
        self.inlined.add(ref)
        if self.ctx:
            self.ctx.fn(ref)

    # ------------------------------------------------------------ attribute resolution
    def get_attr(self, v, name, node=None, mod=None):
        if isinstance(v, Masked):
            v = v.val
        if isinstance(v, SuperV):
            mro = self.model.mro(v.obj.cls)
            after = mro[mro.index(v.cls) + 1:] if v.cls in mro else []
            for c in after:
                if c.startswith("ext:"):
                    return BoundLib(f"{c[4:]}.{name}", v.obj)
                mname, q = c.split(":")
                f = self.model.mods[mname].funcs.get(f"{q}.{name}")
                if f is not None:
                    decos = {(dotted_name(d) or src(d)).split(".")[-1] for d in f.decorator_list}
                    if decos & {"property", "LazyProperty", "cached_property", "lazy_property"}:
                        # super().<property>: the base class's getter evaluated on this object (not the instance cache of
                        # the overriding property)
                        pc = v.obj.__dict__.setdefault("_prop_cache", {})
                        key = (id(self), f"{c}.{name}", "super")
                        ep = None if "property" not in decos else self.epoch
                        if key not in pc or pc[key][2] != ep:
                            pc[key] = (self, self.call_def(f, self.model.mods[mname], f"{c}.{name}", [v.obj], {}), ep)
                        return pc[key][1]
                    if "staticmethod" in decos:
                        return FuncV(f"{c}.{name}")
                    if "classmethod" in decos:
                        return FuncV(f"{c}.{name}", bound=ClsV(v.obj.cls))
                    return FuncV(f"{c}.{name}", bound=v.obj)
            raise self.err(f"super().{name} not found", node, mod)
        if hasattr(v, "sym_getattr"):
            return v.sym_getattr(self, name, node, mod)
        if isinstance(v, Obj) and name == "_asdict" and "__fields__" in v.attrs:
            return BoundLib("namedtuple._asdict", v)
        if isinstance(v, Obj) and name == "_replace" and "__fields__" in v.attrs:
            return BoundLib("namedtuple._replace", v)
        if isinstance(v, Obj) and name == "_fields" and "__fields__" in v.attrs:
            return Tup(list(v.attrs["__fields__"]), "tuple")
        if isinstance(v, Obj):
            return self.obj_attr(v, name, node, mod)
        if isinstance(v, Opaque):
            return Opaque(f"{v.name}.{name}")
        if isinstance(v, LibV):
            full = f"{v.name}.{name}"
            if v.name.endswith("units") and v.name.startswith("cij"):
                pass
            return self.lib_attr(full, node, mod)
        if isinstance(v, UnitReg):
            if name == "Quantity":
                return LibV("pint.Quantity")
            if name == "Unit":
                return LibV("pint.Unit")
            return UnitV(U.unit_from_name(name))
        if isinstance(v, QtyV):
            if name in ("magnitude", "m"):
                return v.val
            if name == "to":
                return BoundLib("pint.Quantity.to", v)
            if name in ("units", "u"):
                return UnitV(v.unit)
        if isinstance(v, Tup) and name in ("sum", "mean") and v.items and all(is_sym(i) and not isinstance(i, bool) for i in v.items):
            tot = sum((as_sym(i) for i in v.items), sp.Integer(0))
            return BoundLib("const_method", tot if name == "sum" else tot / len(v.items))
        if isinstance(v, Tup) and name in ("shape",):
            raise self.err("shape of a tuple", node, mod)
        if is_sym(v):
            if name == "T":
                return Transposed(v) if not isinstance(v, Transposed) else v.args[0]
            if name in ("copy", "flatten", "to_numpy", "tolist", "conj", "real", "tobytes", "argmin", "argmax", "min", "max", "mean", "astype"):
                return BoundLib(f"ndarray.{name}", v)
            if name in ("iloc", "loc", "iat"):
                return SymILoc(v)
            if name == "shape":
                if getattr(self, "shape_of", None) is not None:
                    return self.shape_of(v)
                return ShapeOf(v)
        if isinstance(v, ModV):
            kind, ref = self.model.resolve_from(v.name, name)
            return self.from_resolution(kind, ref, node, mod)
        if isinstance(v, ClsV):
            if any(b.endswith("Enum") for b in self.model.bases(v.ref)):
                return EnumV(v.ref, name)
            if name == "_fields" and any(b.endswith("NamedTuple") for b in self.model.bases(v.ref)):
                return Tup([s_.target.id for s_ in self.model.cls(v.ref).body if isinstance(s_, ast.AnnAssign) and isinstance(s_.target, ast.Name)], "tuple")
            if name == "_make" and any(b.endswith("NamedTuple") for b in self.model.bases(v.ref)):
                return BoundLib("namedtuple._make", v)
            if name == "__name__":
                return v.ref.split(":")[1].rsplit(".", 1)[-1]
            owner, f, kind = self.model.find_member(v.ref, name)
            if f is not None and kind in ("classmethod", "staticmethod", "method"):
                return FuncV(f"{owner.split(':')[0]}:{owner.split(':')[1]}.{name}", bound=v if kind == "classmethod" else None)
            if kind == "classattr":
                m = self.model.mods[owner.split(":")[0]]
                cv = self.eval(f, {"__qual__": f"{owner}.<classbody>"}, m)
                return cv.fn if isinstance(cv, StaticV) else cv
        if isinstance(v, bool) and name in ("any", "all", "item"):
            return BoundLib("identity_method", v)
        if isinstance(v, ArrV) and name in ("any", "all", "argmax", "argmin") and not v.batch and all(is_sym(c) and c.is_number for c in list(v.cells.values()) + [v.fill]):
            return BoundLib(f"numarr.{name}", v)        # a small array of plain numbers: reduced exactly, along an axis if one is given
        if is_sym(v) and name == "free_symbols" and getattr(self, "sympy_objects", False):
            t = Tup(sorted(v.free_symbols, key=str), "set")
            return t
        if isinstance(v, str) and name in STR_METHODS:
            return BoundLib(f"str.{name}", v)
        if isinstance(v, PairList) and name in ("items", "keys", "values"):
            return BoundLib(f"pairlist.{name}", v)
        if isinstance(v, Tup) and v.kind == "set" and name in ("union", "intersection", "difference", "symmetric_difference", "issubset", "issuperset", "isdisjoint", "add", "discard", "remove", "update"):
            return BoundLib(f"set.{name}", v)
        if isinstance(v, Tup) and v.kind == "list" and name in ("sort", "reverse", "insert", "remove", "clear"):
            return BoundLib(f"list.{name}", v)
        if isinstance(v, FInfoV) and name in FInfoV.vals:
            return FInfoV.vals[name]
        if isinstance(v, Tup) and name == "__getitem__":
            return BoundLib("list.__getitem__", v)
        if isinstance(v, Tup) and name in ("append", "index", "tolist", "extend", "count", "copy", "pop"):
            return BoundLib(f"list.{name}", v)
        if isinstance(v, MatchV) and name in ("group", "groups"):
            return BoundLib(f"match.{name}", v)
        if isinstance(v, ArrV) and name == "copy":
            return BoundLib("ndarray.copy", v)
        if isinstance(v, ArrV) and name == "astype":
            return BoundLib("ndarray.astype", v)
        if isinstance(v, ArrV) and name in ("min", "max", "sum", "mean"):
            return BoundLib(f"arr.{name}", v)
        if isinstance(v, ArrV) and name in ("transpose", "round", "clip", "repeat"):
            return BoundLib(f"ndarray.{name}" if name != "repeat" else "numpy.repeat", v)
        if isinstance(v, ArrV) and name == "dtype":
            return LibV("numpy.float64")
        if isinstance(v, ArrV) and name in ("tolist", "flatten", "ravel"):
            return BoundLib(f"arr.{name}", v)
        if isinstance(v, ArrV) and name in ("conj", "conjugate"):
            return BoundLib("numpy.conj", v)
        if isinstance(v, ArrV) and name == "reshape":
            return BoundLib("numpy.reshape", v)
        if isinstance(v, WhereV) and name == "item":
            c = v.cond
            if isinstance(c, CondV) and c.op == "==" and is_sym(c.rhs) and sp.sympify(c.rhs) == 0 and is_sym(c.lhs) \
                    and any(str(x_) in MAYBE_ZERO_ATOMS for x_ in sp.sympify(c.lhs).free_symbols):
                # positions where the temperature is zero: none on a grid that starts above 0 K (a valid configuration), one otherwise
                raise RaisedV("EmptySelection", f"{mod.rel}:{getattr(node, 'lineno', 0)}" if mod else "")
            raise self.err(".item() of the positions selected by a data condition", node, mod)
        if isinstance(v, ArrV) and name == "swapaxes":
            return BoundLib("numpy.swapaxes", v)
        if isinstance(v, ArrV) and name in ("real", "imag"):
            return LIB["numpy." + name](self, [v], {}, node, mod)
        if isinstance(v, ArrV) and name == "setflags":
            return BoundLib("ndarray.setflags", v)
        if isinstance(v, ArrV) and name == "tobytes":
            return BoundLib("ndarray.tobytes", v)
        if isinstance(v, ArrV) and name == "ndim":
            return sp.Integer(v.batch + len(v.shape))
        if isinstance(v, ArrV) and name == "shape":
            dims = [sp.Symbol(f"dim{i}", positive=True, integer=True) for i in range(v.batch)]
            return Tup([sp.Integer(x) for x in v.shape] + dims if v.batch_last else dims + [sp.Integer(x) for x in v.shape])
        if isinstance(v, ArrV) and name == "T" and len(v.shape) == 1 and v.batch == 1:
            # (grid, n) -> (n, grid): iterating it gives the n grid vectors
            out_ = ArrV(1, v.shape, v.fill, dict(v.cells), batch_last=not v.batch_last)
            if getattr(v, "unordered_axes", None):
                out_.unordered_axes = set(v.unordered_axes)
            return out_
        if isinstance(v, ArrV) and name == "T" and len(v.shape) == 2 and v.batch == 0:
            return ArrV(0, v.shape[::-1], v.fill, {(j, i): x for (i, j), x in v.cells.items()})
        if isinstance(v, ArrV) and name == "shape" and False:
            pass
        if isinstance(v, DictV) and name in ("keys", "values", "items", "get", "update", "copy", "pop", "setdefault", "clear"):
            return BoundLib(f"dict.{name}", v)
        if v is None:
            raise RaisedV("AttributeError", f"{mod.rel}:{getattr(node, 'lineno', 0)}" if mod else "")
        if is_sym(v) and v.is_number and name == "is_integer":
            return BoundLib("float.is_integer", v)
        raise self.err(f"unresolved attribute .{name} on {type(v).__name__} {v!r}", node, mod)

    def obj_attr(self, obj: Obj, name, node=None, mod=None):
        if name in obj.attrs:
            return obj.attrs[name]
        for c in ([obj.cls] if obj.cls.startswith("ext:") else self.model.mro(obj.cls)):
            if (c, name) in self.seeds:
                s = self.seeds[(c, name)]
                return s(self, obj) if callable(s) else s
        if self.attr_hook is not None:
            r = self.attr_hook(self, obj, name)
            if r is not NotImplemented:
                return r
        if obj.cls.startswith("ext:"):
            raise self.err(f"attribute {name} of external class {obj.cls[4:]} is not in T-LIB", node, mod)
        owner, f, kind = self.model.find_member(obj.cls, name)
        if f is not None:
            oref = f"{owner.split(':')[0]}:{owner.split(':')[1]}.{name}"
            omod = self.model.mods[owner.split(":")[0]]
            if kind in ("property", "lazy"):
                # a LazyProperty is computed once per object (its real semantics); a plain property is re-evaluated
                # whenever any object state was stored to since (epoch), so a re-pointed attribute is seen
                pc = obj.__dict__.setdefault("_prop_cache", {})
                key = (id(self), oref)
                ep = None if kind == "lazy" else self.epoch
                if key not in pc or pc[key][2] != ep:
                    pc[key] = (self, self.call_def(f, omod, oref, [obj], {}), ep)
                return pc[key][1]
            if kind == "method":
                return FuncV(oref, bound=obj)
            if kind == "staticmethod":
                return FuncV(oref)
            if kind == "classmethod":
                return FuncV(oref, bound=ClsV(obj.cls))
            if kind == "classattr":
                ck = ("classattr", owner, name)
                if ck not in self.cache:
                    # evaluated once, when the class body runs: every instance sees the same object
                    self.cache[ck] = self.eval(f, {"__qual__": f"{owner}.<classbody>"}, omod)
                cv = self.cache[ck]
                if isinstance(cv, LazyPropV):
                    if cv.slot not in obj.attrs:
                        obj.attrs[cv.slot] = self.call(cv.fget, [obj], {}, node, mod)
                    return obj.attrs[cv.slot]                             # whatever was cached under that slot first
                if isinstance(cv, PropertyV):
                    return self.call(cv.fget, [obj], {}, node, mod)       # name = property(getter): a property like any other
                if isinstance(cv, StaticV):
                    return cv.fn                                          # name = staticmethod(f): f itself
                if isinstance(cv, FuncV) and cv.bound is None and not isinstance(f, ast.Lambda) and False:
                    return FuncV(cv.ref, bound=obj)
                return cv
        # instance attribute assigned in __init__ (or a method __init__ calls)
        v = self.init_attr(obj, name)
        if v is not NotImplemented:
            return v
        # attributes installed on the class by module-level statements: `setattr(Class, name, value)`, also inside a loop over a constant table
        inst = self.installed_class_attrs(obj.cls)
        if name in inst:
            v = inst[name]
            if isinstance(v, PropertyV):
                return self.call(v.fget, [obj], {}, node, mod)
            if isinstance(v, FuncV) and v.bound is None:
                return FuncV(v.ref, bound=obj)
            if isinstance(v, (LocalFuncV, LambdaV)):
                raise self.err(f"method {name} installed on the class from a closure is not modelled", node, mod)
            return v
        # delegating __getattr__
        owner, ga, _ = self.model.find_member(obj.cls, "__getattr__")
        if ga is not None:
            tgt = delegating_getattr_target(ga)
            if tgt is not None:
                return self.get_attr(self.obj_attr(obj, tgt, node, mod), name, node, mod)
            omod = self.model.mods[owner.split(":")[0]]
            return self.call_def(ga, omod, f"{owner}.__getattr__", [obj, name], {})
        raise self.err(f"unresolved attribute {name} on {obj.cls}", node, mod)

    def installed_class_attrs(self, cref):
        """{name: value} for module-level `setattr(<this class or a base>, name, value)` statements (folded with the module's own names)"""
        cache = self.__dict__.setdefault("_installed", {})
        if cref in cache:
            return cache[cref]
        out = {}
        cache[cref] = out
        for c in reversed(self.model.mro(cref)):
            if c.startswith("ext:"):
                continue
            mname, q = c.split(":")
            mod = self.model.mods[mname]
            for st in mod.tree.body:
                if not isinstance(st, (ast.For, ast.Expr)):
                    continue
                calls = [x for x in ast.walk(st) if isinstance(x, ast.Call) and isinstance(x.func, ast.Name) and x.func.id == "setattr" and len(x.args) == 3
                         and isinstance(x.args[0], ast.Name) and x.args[0].id == q]
                if not calls:
                    continue
                rec = []
                saved = self.intr.get("builtins.setattr")
                self.intr["builtins.setattr"] = lambda ev, a, k, rec=rec: rec.append((a[0], a[1], a[2]))
                try:
                    self.exec(st, {"__qual__": f"{mname}:<module>"}, mod)
                finally:
                    if saved is None:
                        self.intr.pop("builtins.setattr", None)
                    else:
                        self.intr["builtins.setattr"] = saved
                for target, nm, val in rec:
                    if isinstance(target, ClsV) and target.ref == c and isinstance(nm, str):
                        out[nm] = val
        return out

    def here(self, n=None, mod=None) -> str:
        """'file:line' of the construct being folded: the node when the transfer function was given one, else the function on top of the inlining stack"""
        if mod is not None and n is not None and getattr(n, "lineno", None):
            return f"{mod.rel}:{n.lineno}"
        stack = self.__dict__.get("stack") or []
        if stack:
            ref = stack[-1][0]
            try:
                mname, q = ref.split(":")
                m = self.model.mods[mname]
                return f"{m.rel}:{m.funcs[q].lineno}"
            except Exception:
                return ""
        return ""

    def init_attr(self, obj: Obj, name):
        """value of self.<name> from the constructor: a store directly in __init__ is evaluated
        from its right-hand side; a store inside a no-argument method that __init__ calls is
        obtained by evaluating that method (its other reads of self resolve lazily)"""
        for c in self.model.mro(obj.cls):
            if c.startswith("ext:"):
                continue
            mname, q = c.split(":")
            mod = self.model.mods[mname]
            init = mod.funcs.get(f"{q}.__init__")
            if init is None:
                continue
            selfname = init.args.args[0].arg if init.args.args else "self"

            def stores(f):
                sn = f.args.args[0].arg if f.args.args else "self"
                for st in ast.walk(f):
                    if isinstance(st, ast.Assign):
                        for t in st.targets:
                            if (isinstance(t, ast.Attribute) and isinstance(t.value, ast.Name)
                                    and t.value.id == sn and t.attr == name):
                                return st
                return None

            st = stores(init)
            if st is not None:
                env_ = {selfname: obj, "__self__": obj}
                # the right-hand side may name constructor parameters: one that __init__ keeps unchanged as self.<x> = <parameter> is read back from the object;
                # any other is not known for an object that was not built through its constructor
                params = {a_.arg for a_ in init.args.posonlyargs + init.args.args[1:] + init.args.kwonlyargs}
                for nm in {x.id for x in ast.walk(st.value) if isinstance(x, ast.Name) and x.id in params}:
                    kept = [s2.targets[0].attr for s2 in init.body if isinstance(s2, ast.Assign) and len(s2.targets) == 1 and isinstance(s2.targets[0], ast.Attribute)
                            and isinstance(s2.targets[0].value, ast.Name) and s2.targets[0].value.id == selfname and isinstance(s2.value, ast.Name) and s2.value.id == nm]
                    if not kept:
                        raise self.err(f"attribute {name} is computed in __init__ from the parameter {nm}, which an object not built through its constructor does not have", st, mod)
                    env_[nm] = self.get_attr(obj, kept[0], st, mod)
                return self.eval(st.value, env_, mod)
            for call in ast.walk(init):
                if (isinstance(call, ast.Call) and isinstance(call.func, ast.Attribute)
                        and isinstance(call.func.value, ast.Name) and call.func.value.id == selfname):
                    owner, callee, kind = self.model.find_member(obj.cls, call.func.attr)
                    if callee is None or kind != "method" or stores(callee) is None:
                        continue
                    if call.args or call.keywords:
                        raise self.err(f"{name} is set by {call.func.attr}(...) called with arguments", call, mod)
                    omod = self.model.mods[owner.split(":")[0]]
                    self.call_def(callee, omod, f"{owner}.{call.func.attr}", [obj], {})
                    if name in obj.attrs:
                        return obj.attrs[name]
        return NotImplemented

    def lib_attr(self, full, node=None, mod=None):
        if full in getattr(self, "ext_values", {}):
            return self.ext_values[full]            # a rule's stand-in for a library-level object (e.g. qha's DEFAULT_SETTINGS)
        if full in ("numpy.newaxis",):
            return None
        if full == "numpy.pi" or full == "math.pi":
            return sp.pi
        if full in ("scipy.constants.physical_constants",):
            return LibV(full)
        if full.startswith("scipy.constants.") and full.rsplit(".", 1)[1] in SCIPY_PLAIN_NUMBERS:
            return SCIPY_PLAIN_NUMBERS[full.rsplit(".", 1)[1]]
        if full.startswith("scipy.constants.") and full.rsplit(".", 1)[1] in U.SCIPY_DIRECT:
            q, unit = U.PHYSICAL_CONSTANTS[U.SCIPY_DIRECT[full.rsplit(".", 1)[1]]]
            return q / unit
        return LibV(full)

    def from_resolution(self, kind, ref, node=None, mod=None):
        if kind == "class":
            return ClsV(ref)
        if kind == "func":
            return FuncV(ref)
        if kind == "module":
            return ModV(ref)
        if kind == "global":
            mname, q = ref.split(":")
            key = ("global", ref)
            if ("global", ref) in self.seeds:
                return self.seeds[key]
            if key not in self.cache:
                self.cache[key] = self.eval(self.model.mods[mname].globals[q], {}, self.model.mods[mname])
            return self.cache[key]
        if kind == "ext":
            return self.lib_attr(ref, node, mod)
        if kind == "classmember":
            cref, name = ref.rsplit(".", 1)
            return self.get_attr(ClsV(cref), name, node, mod)
        raise self.err(f"cannot resolve {kind} {ref}", node, mod)

    def lookup(self, name, env, mod: Mod, node=None):
        if name in env:
            return env[name]
        if name in env.get("__locals__", ()):
            # a local of the function being folded that no executed statement has bound
            raise RaisedV("UnboundLocalError", f"{mod.rel}:{getattr(node, 'lineno', 0)}" if mod else "")
        if name in ("True", "False", "None"):
            return {"True": True, "False": False, "None": None}[name]
        if mod is not None:
            if name in mod.classes:
                return ClsV(f"{mod.name}:{name}")
            if name in mod.funcs:
                return FuncV(f"{mod.name}:{name}")
            if name in mod.imports:
                kind, ref = self.model.resolve_import(mod.imports[name])
                return self.from_resolution(kind, ref, node, mod)
            if name in mod.globals:
                return self.from_resolution("global", f"{mod.name}:{name}", node, mod)
        if name in BUILTINS:
            return LibV(f"builtins.{name}")
        if name == "__name__" and mod is not None:
            return mod.name
        if name == "__file__" and mod is not None:
            return f"<package>/{mod.rel}"
        import builtins as _bi
        if hasattr(_bi, name):
            raise self.err(f"builtin {name} has no transfer function (T-LIB)", node, mod)
        if mod is not None and not getattr(mod, "star_imports", None):
            # no binding in any enclosing scope, the module or the builtins (and no star import that could supply it): NameError
            e = RaisedV("NameError", f"{mod.rel}:{getattr(node, 'lineno', 0)}")
            e.reason = f"name {name!r} is not bound in any scope: " + e.reason
            raise e
        raise self.err(f"unbound name {name}", node, mod)

    # ------------------------------------------------------------ expressions
    def eval(self, n, env, mod: Mod):
        m = getattr(self, "e_" + type(n).__name__, None)
        if m is None:
            raise self.err(f"unsupported expression {type(n).__name__}", n, mod)
        return m(n, env, mod)

    def e_Constant(self, n, env, mod):
        v = n.value
        if isinstance(v, (bool, str)) or v is None:
            return v
        if isinstance(v, (int, float)):
            return num(v)
        if isinstance(v, complex):
            return sp.I * num(v.imag)
        return v

    def e_Name(self, n, env, mod):
        return self.lookup(n.id, env, mod, n)

    def e_Attribute(self, n, env, mod):
        base = self.eval(n.value, env, mod)
        return self.get_attr(base, n.attr, n, mod)

    def e_Tuple(self, n, env, mod):
        items = []
        for e in n.elts:
            if isinstance(e, ast.Starred):
                v = self.eval(e.value, env, mod)
                items.extend(self.iterate(v, e, mod))
            else:
                items.append(self.eval(e, env, mod))
        return Tup(items, "tuple" if isinstance(n, ast.Tuple) else "list")

    e_List = e_Tuple

    def e_Dict(self, n, env, mod):
        d = {}
        for k, v in zip(n.keys, n.values):
            if k is None:               # {**other}
                other = self.eval(v, env, mod)
                if not isinstance(other, DictV):
                    raise self.err("** of a non-constant dict in a dict display", n, mod)
                d.update(other.d)
                continue
            d[self.eval(k, env, mod)] = self.eval(v, env, mod)
        return DictV(d)

    def e_Set(self, n, env, mod):
        items, seen = [], set()
        for e in n.elts:
            vals = self.iterate(self.eval(e.value, env, mod), e, mod) if isinstance(e, ast.Starred) else [self.eval(e, env, mod)]
            for v in vals:
                try:
                    h = hkey(v)
                except AnalysisError:
                    h = ("id", id(v))
                if h not in seen:
                    seen.add(h)
                    items.append(v)
        return Tup(items, "set")

    def e_UnaryOp(self, n, env, mod):
        v = self.eval(n.operand, env, mod)
        if isinstance(n.op, ast.USub):
            if isinstance(v, UnitV):
                raise self.err("negated unit", n, mod)
            if isinstance(v, ArrV):
                return self.arr_binop(ast.Mult(), sp.Integer(-1), v, n, mod)
            return -as_sym(v)
        if isinstance(n.op, ast.UAdd):
            return v if isinstance(v, ArrV) else as_sym(v)
        if isinstance(n.op, ast.Not):
            b = self.truth(v, n, mod)
            return not b
        if isinstance(n.op, ast.Invert):
            if isinstance(v, bool):
                return not v
            if isinstance(v, ArrV) and all(isinstance(c, bool) for c in list(v.cells.values()) + [v.fill]):
                out = ArrV(v.batch, v.shape, not v.fill, batch_last=v.batch_last)
                out.cells = {kk: (not c) for kk, c in v.cells.items()}
                return out
            if isinstance(v, ArrV) and getattr(v, "is_cond", False):
                # a mask with one entry per cell: decided entries are negated, undecided ones become the negated condition
                def inv(c):
                    if isinstance(c, bool) or c in (sp.true, sp.false):
                        return not (c is True or c == sp.true)
                    if isinstance(c, CondV):
                        neg_ = {"==": "!=", "!=": "==", "<": ">=", ">=": "<", ">": "<=", "<=": ">"}[c.op]
                        return CondV(f"not ({c.text})", c.lhs, neg_, c.rhs)
                    raise self.err("~ of a mask entry that is neither decided nor a comparison", n, mod)
                out = ArrV(v.batch, v.shape, None, batch_last=v.batch_last)
                for kk in itertools.product(*[range(d_) for d_ in v.shape]):
                    out.cells[kk] = inv(v.get(kk))
                out.is_cond = True
                return out
            if isinstance(v, CondV):
                neg = {"==": "!=", "!=": "==", "<": ">=", ">=": "<", ">": "<=", "<=": ">"}.get(v.op)
                if neg:
                    return CondV(f"not ({v.text})", v.lhs, neg, v.rhs)
            if isinstance(v, TolCond):
                return TolCond(f"not {v.text}")
            if is_sym(v) and v.is_Integer:
                return sp.Integer(~int(v))
        raise self.err("unsupported unary operator", n, mod)

    def e_BinOp(self, n, env, mod):
        a = self.eval(n.left, env, mod)
        b = self.eval(n.right, env, mod)
        return self.binop(n.op, a, b, n, mod)

    def binop(self, op, a, b, n=None, mod=None):
        if hasattr(a, "sym_binop"):
            return a.sym_binop(self, op, b, False, n, mod)
        if hasattr(b, "sym_binop"):
            return b.sym_binop(self, op, a, True, n, mod)
        if isinstance(a, Masked):
            a = a.val
        if isinstance(b, Masked):
            b = b.val
        # units
        if isinstance(a, UnitV) or isinstance(b, UnitV):
            ua = a.expr if isinstance(a, UnitV) else None
            ub = b.expr if isinstance(b, UnitV) else None
            if isinstance(op, ast.Mult):
                if ua is not None and ub is not None:
                    return UnitV(ua * ub)
                # number * unit -> quantity
                return QtyV(as_sym(b if ua is not None else a), ua if ua is not None else ub)
            if isinstance(op, ast.Div):
                if ua is not None and ub is not None:
                    return UnitV(ua / ub)
                if ub is not None:
                    return QtyV(as_sym(a), 1 / ub)
                return UnitV(ua / as_sym(b)) if False else QtyV(1 / as_sym(b), ua)
            if isinstance(op, ast.Pow) and ua is not None:
                return UnitV(ua ** as_sym(b))
            raise self.err("unsupported unit arithmetic", n, mod)
        # strings
        if isinstance(a, str) and isinstance(op, ast.Mod):
            return self.str_format(a, b, n, mod)
        if isinstance(a, str) and isinstance(b, str) and isinstance(op, ast.Add):
            return a + b
        if isinstance(a, CondV) and isinstance(b, CondV) and isinstance(op, ast.BitAnd):
            return CondV(f"({a.text}) & ({b.text})", a, "and", b)        # elementwise conjunction of two masks
        if isinstance(a, Tup) and isinstance(b, Tup) and isinstance(op, ast.Add):
            return Tup(a.items + b.items, a.kind)
        if isinstance(a, Tup) and isinstance(b, Tup) and isinstance(op, (ast.Sub, ast.BitAnd, ast.BitOr, ast.BitXor)) \
                and (a.kind == "set" or getattr(a, "keys_view", False)) and (b.kind == "set" or getattr(b, "keys_view", False)):
            name = {ast.Sub: "difference", ast.BitAnd: "intersection", ast.BitOr: "union", ast.BitXor: "symmetric_difference"}[type(op)]
            return lib_set_method(name)(self, [Tup(list(a.items), "set"), b], {}, n, mod)
        if isinstance(a, Tup) and isinstance(op, ast.Mult) and is_sym(b) and b.is_Integer:
            return Tup(a.items * int(b), a.kind)
        if isinstance(a, Tup) and a.kind in ("tuple", "list") and len(a.items) == 1 and isinstance(op, ast.Mult) and is_sym(b) and not b.is_number and b.is_integer is not False:
            return RepeatV(a.items[0], b)        # (x,) * n with a count that is not a constant
        if isinstance(a, ArrV) or isinstance(b, ArrV):
            # a plain list of numbers broadcasts like a one-dimensional array
            if isinstance(a, Tup) and a.kind in ("list", "tuple"):
                a = _as_arr(self, a, n, mod)
            if isinstance(b, Tup) and b.kind in ("list", "tuple"):
                b = _as_arr(self, b, n, mod)
            return self.arr_binop(op, a, b, n, mod)
        if isinstance(op, ast.MatMult):
            return MatProd(as_sym(a), as_sym(b))
        x, y = as_sym(a, "left operand"), as_sym(b, "right operand")
        if isinstance(op, ast.Add):
            return x + y
        if isinstance(op, ast.Sub):
            return x - y
        if isinstance(op, ast.Mult):
            return x * y
        if isinstance(op, ast.Div):
            return x / y
        if isinstance(op, ast.Pow):
            if y.is_Integer and y < 0 and x.free_symbols and maybe_integer_typed(x):
                e = RaisedV("IntegerDtype", self.err("x", n, mod).where)
                e.detail = (f"an integer-typed array raised to the negative integer power {y}: numpy refuses that (ValueError: Integers to negative integer powers are not allowed), and the temperature "
                            f"grid is integer-typed whenever T_MIN and DT are written as whole numbers (qha.tools.arange)")
                raise e
            return x ** y
        if isinstance(op, ast.FloorDiv) and x.is_Integer and y.is_Integer:
            return sp.Integer(int(x) // int(y))
        if isinstance(op, ast.FloorDiv):
            return sp.floor(x / y)
        if isinstance(op, ast.Mod) and x.is_Integer and y.is_Integer:
            return sp.Integer(int(x) % int(y))
        if isinstance(op, ast.LShift) and x.is_Integer and y.is_Integer:
            return sp.Integer(int(x) << int(y))
        raise self.err(f"unsupported binary operator {type(op).__name__}", n, mod)

    def arr_binop(self, op, a, b, n, mod):
        """elementwise arithmetic on arrays with constant trailing axes (numpy broadcasting on those axes)"""
        def shape(x):
            return x.shape if isinstance(x, ArrV) else ()
        if isinstance(op, ast.MatMult):
            return self.arr_matmul(a, b, n, mod)
        sa, sb = shape(a), shape(b)
        nd = max(len(sa), len(sb))
        pa, pb = (1,) * (nd - len(sa)) + tuple(sa), (1,) * (nd - len(sb)) + tuple(sb)
        out_shape = []
        for x, y in zip(pa, pb):
            if x != y and 1 not in (x, y):
                raise RaisedV("ValueError")
            out_shape.append(y if x == 1 else x)          # an axis of length 0 broadcasts against 1 to length 0
        batch = max(a.batch if isinstance(a, ArrV) else 0, b.batch if isinstance(b, ArrV) else 0)
        out = ArrV(batch, out_shape)
        # constant axes in front of the grid axes ((2, ntv) after a transpose): kept when the other operand has no constant axes of its own (a scalar, a vector
        # over the grid) or is laid out the same way; mixing the two layouts is a different broadcast and is refused
        out.c_order = all(getattr(x, "c_order", False) for x in (a, b) if isinstance(x, ArrV))          # results take the layout of their operands
        lasts = [x.batch_last for x in (a, b) if isinstance(x, ArrV) and x.shape and x.batch]
        if any(lasts):
            if not all(lasts):
                raise self.err("arithmetic between arrays with constant axes before and after the grid axes", n, mod)
            out.batch_last = True

        def get(x, px, key):
            if not isinstance(x, ArrV):
                return as_sym(x)
            k = tuple(0 if d == 1 else i for d, i in zip(px, key))[nd - len(x.shape):]
            return x.get(k)

        for key in itertools.product(*[range(d) for d in out_shape]):
            out.cells[key] = self.binop(op, get(a, pa, key), get(b, pb, key), n, mod)
        return out

    def arr_matmul(self, a, b, n, mod):
        if isinstance(a, ArrV) and isinstance(b, ArrV) and len(a.shape) == 1 and len(b.shape) == 2 and a.shape[0] == b.shape[0]:
            # (..., k) @ (k, m): the trailing axis of a batch of vectors against a matrix
            out = ArrV(max(a.batch, b.batch), (b.shape[1],))
            for j in range(b.shape[1]):
                out.cells[(j,)] = sum((as_sym(a.get((k,))) * as_sym(b.get((k, j))) for k in range(a.shape[0])), sp.Integer(0))
            return out
        if isinstance(a, ArrV) and isinstance(b, ArrV) and len(a.shape) == 2 and len(b.shape) == 1 and a.shape[1] == b.shape[0] and not b.batch:
            out = ArrV(a.batch, (a.shape[0],))
            for i in range(a.shape[0]):
                out.cells[(i,)] = sum((as_sym(a.get((i, k))) * as_sym(b.get((k,))) for k in range(a.shape[1])), sp.Integer(0))
            return out
        if not (isinstance(a, ArrV) and isinstance(b, ArrV) and len(a.shape) == 2 and len(b.shape) == 2 and a.shape[1] == b.shape[0]):
            raise self.err("matrix product of operands that are not conforming constant-size matrices", n, mod)
        out = ArrV(max(a.batch, b.batch), (a.shape[0], b.shape[1]))
        for i in range(a.shape[0]):
            for j in range(b.shape[1]):
                out.cells[(i, j)] = sum((a.get((i, k)) * b.get((k, j)) for k in range(a.shape[1])), sp.Integer(0))
        return out

    def str_format(self, fmt, arg, n, mod):
        vals = arg.items if isinstance(arg, Tup) else [arg]
        out = []
        for v in vals:
            if is_sym(v) and v.is_Integer:
                out.append(int(v))
            elif is_sym(v) and v.is_Rational:
                out.append(float(v))
            elif isinstance(v, (str, int, float)):
                out.append(v)
            else:
                raise self.err("string formatting of a non-constant", n, mod)
        try:
            return fmt % tuple(out)
        except Exception as e:
            raise self.err(f"string formatting failed: {e}", n, mod)

    def e_JoinedStr(self, n, env, mod):
        parts = []
        for v in n.values:
            if isinstance(v, ast.Constant):
                parts.append(str(v.value))
            else:
                x = self.eval(v.value, env, mod)
                if is_sym(x) and x.is_Integer:
                    x = int(x)
                elif is_sym(x) and x.is_Rational:
                    x = float(x)
                if hasattr(x, "const_key") and isinstance(x.const_key, str):
                    x = x.const_key
                if not isinstance(x, (str, int, float)):
                    raise self.err("f-string of a non-constant", n, mod)
                spec = ""
                if v.format_spec is not None:
                    spec = self.e_JoinedStr(v.format_spec, env, mod)
                if v.conversion == ord("r"):
                    x = repr(x)
                elif v.conversion == ord("s"):
                    x = str(x)
                try:
                    parts.append(format(x, spec))
                except ValueError:
                    raise RaisedV("ValueError")
        return "".join(parts)

    def e_BoolOp(self, n, env, mod):
        if isinstance(n.op, ast.And):
            last = True
            for v in n.values:
                last = self.eval(v, env, mod)
                if not self.truth(last, v, mod):
                    return last
            return last
        last = False
        for v in n.values:
            last = self.eval(v, env, mod)
            if self.truth(last, v, mod):
                return last
        return last

    def truth(self, v, n=None, mod=None):
        if isinstance(v, bool) or v is None:
            return bool(v)
        if isinstance(v, MatchV):
            return True
        if hasattr(v, "sym_truth"):
            return v.sym_truth(self, n, mod)
        if isinstance(v, str):
            return bool(v)
        if v is sp.true or v is sp.false:
            return v is sp.true
        if is_sym(v) and v.is_number:
            return bool(v != 0)
        if is_sym(v) and v.is_positive:
            return True
        if isinstance(v, Tup):
            return bool(v.items)
        if isinstance(v, DictV):
            return bool(v.d)
        if isinstance(v, Obj):
            return True
        if isinstance(v, CondV) and is_sym(v.lhs) and getattr(v.lhs, "func", None) is not None and getattr(v.lhs.func, "__name__", "") == "GRIDMAX" \
                and isinstance(v.lhs.args[0], sp.Abs) and is_sym(v.rhs) and sp.sympify(v.rhs).is_number and 0 < sp.sympify(v.rhs) < sp.Rational(1, 1000) and v.op in (">", ">=", "<", "<="):
            # max |x| over the grid against a tiny tolerance, x a quantity that does not vanish identically (the assumption numpy.allclose(x, 0) is read with):
            # "<=" / "<" is false - and stays false when x holds NaN (every comparison with NaN is false).  ">" / ">=" is true for finite data and FALSE for data with a NaN:
            # whatever branches on it sends NaN data the other way (a component that is NaN somewhere on the grid is treated as if it vanished)
            if v.op in ("<", "<="):
                return False
            e = RaisedV("InputAssumption", self.here(n, mod))
            e.expected = "a test for 'vanishes everywhere' that is false for data containing NaN, as numpy.allclose(x, 0) is (max|x| <= tol, not: not (max|x| > tol))"
            e.detail = (f"the branch on [{v.text}] goes one way for finite data and the other way for data with a NaN on the grid (a comparison with NaN is false): a component that is NaN "
                        f"somewhere - outside the range where the stiffness is positive definite, say - is handled like one that vanishes everywhere and is silently left out")
            raise e
        if isinstance(v, (CondV, TolCond)) and getattr(self, "branch_oracle", None) is not None:
            return self.branch_oracle(v)
        if is_sym(v) and isinstance(v, sp.logic.boolalg.Boolean) and getattr(self, "branch_oracle", None) is not None:
            return self.branch_oracle(v)        # a relation between data values (table labels ...): decided by the exploring rule, both ways
        if isinstance(v, (CondV, TolCond)):
            raise DataDependentBranch(f"branch on array data [{getattr(v, 'text', '?')}]", f"{mod.rel}:{getattr(n, 'lineno', 0)}" if mod else "")
        raise self.err(f"branch on a value that is not a known constant ({type(v).__name__})", n, mod)

    def e_Compare(self, n, env, mod):
        left = self.eval(n.left, env, mod)
        result = True
        for op, rn in zip(n.ops, n.comparators):
            right = self.eval(rn, env, mod)
            r = self.compare(op, left, right, n, mod)
            if isinstance(r, CondV):
                return r
            result = result and r
            left = right
        return result

    def compare(self, op, a, b, n, mod):
        if hasattr(a, "sym_compare"):
            return a.sym_compare(self, op, b, False, n, mod)
        if hasattr(b, "sym_compare"):
            return b.sym_compare(self, op, a, True, n, mod)

        def const(v):
            if isinstance(v, LibV):
                return True
            if is_sym(v) and v.is_number:
                return True
            try:
                hkey(v)
                return True
            except AnalysisError:
                return False

        def py(v):
            if isinstance(v, LibV):
                return ("lib", v.name)
            if is_sym(v) and v.is_number and not v.is_Integer:
                return v
            return hkey(v)

        if isinstance(op, (ast.Eq, ast.NotEq)) and ((a is None) != (b is None)):
            return isinstance(op, ast.NotEq)
        for u, v, flipped in ((a, b, False), (b, a, True)):
            # a small array of numbers compared with a number: elementwise, a boolean array
            if isinstance(u, ArrV) and is_sym(v) and v.is_number and isinstance(op, (ast.Eq, ast.NotEq, ast.Lt, ast.LtE, ast.Gt, ast.GtE)) \
                    and u.shape and all(is_sym(c) and c.is_number for c in list(u.cells.values()) + [u.fill]):
                import operator as _op
                fn = {ast.Eq: _op.eq, ast.NotEq: _op.ne, ast.Lt: _op.lt, ast.LtE: _op.le, ast.Gt: _op.gt, ast.GtE: _op.ge}[type(op)]
                one = (lambda c: sp.true if (fn(v, c) if flipped else fn(c, v)) else sp.false)
                out = ArrV(u.batch, u.shape, one(u.fill), batch_last=u.batch_last)
                out.cells = {kk: one(c) for kk, c in u.cells.items()}
                out.is_cond = True
                return out
        for u, v, flipped in ((a, b, False), (b, a, True)):
            # a small array of expressions compared with a number: one condition per cell
            if isinstance(u, ArrV) and is_sym(v) and v.is_number and isinstance(op, (ast.Lt, ast.LtE, ast.Gt, ast.GtE, ast.Eq, ast.NotEq)) and u.shape \
                    and all(is_sym(c) for c in list(u.cells.values()) + [u.fill]):
                out = ArrV(u.batch, u.shape, None, batch_last=u.batch_last)
                for kk in itertools.product(*[range(d_) for d_ in u.shape]):
                    out.cells[kk] = self.compare(op, v, u.get(kk), n, mod) if flipped else self.compare(op, u.get(kk), v, n, mod)
                out.is_cond = True
                return out
        if is_sym(a) and is_sym(b) and not (a.is_number and b.is_number) and isinstance(op, (ast.Eq, ast.NotEq, ast.Lt, ast.LtE, ast.Gt, ast.GtE)):
            # the sign of the difference is known from the declared signs of the atoms (weights, volumes, counts are positive)
            d = a - b
            verdict = None
            if any(str(x) in MAYBE_ZERO_ATOMS for x in d.free_symbols):
                pass            # e.g. the temperature: declared positive for the algebra, but T = 0 is in its domain
            elif d.is_positive:
                verdict = {ast.Eq: False, ast.NotEq: True, ast.Lt: False, ast.LtE: False, ast.Gt: True, ast.GtE: True}[type(op)]
            elif d.is_negative:
                verdict = {ast.Eq: False, ast.NotEq: True, ast.Lt: True, ast.LtE: True, ast.Gt: False, ast.GtE: False}[type(op)]
            elif d.is_zero:
                verdict = {ast.Eq: True, ast.NotEq: False, ast.Lt: False, ast.LtE: True, ast.Gt: False, ast.GtE: True}[type(op)]
            if verdict is not None:
                return verdict
        if isinstance(op, (ast.Eq, ast.NotEq)) and isinstance(a, Obj) and not a.cls.startswith("ext:") and not hasattr(a, "const_key"):
            owner, eqf, kind = self.model.find_member(a.cls, "__eq__")
            if eqf is not None:
                omod = self.model.mods[owner.split(":")[0]]
                r = self.truth(self.call_def(eqf, omod, f"{owner}.__eq__", [a, b], {}), n, mod)
                return r if isinstance(op, ast.Eq) else not r
            if isinstance(b, Obj) and "__fields__" not in a.attrs:
                return (a is b) if isinstance(op, ast.Eq) else (a is not b)
        if isinstance(op, (ast.Is, ast.IsNot)):
            r = (a is b) or (a is None and b is None)
            if isinstance(a, (LibV, ClsV, EnumV)) and isinstance(b, (LibV, ClsV, EnumV)):
                # `type(x) is int`, `cls is Base`, `kind is Enum.MEMBER`: compared by what they name
                same = (type(a) is type(b)) and (getattr(a, "name", None), getattr(a, "ref", None), getattr(a, "cls", None)) == \
                       (getattr(b, "name", None), getattr(b, "ref", None), getattr(b, "cls", None))
                return same if isinstance(op, ast.Is) else not same
            if isinstance(a, Sentinel) or isinstance(b, Sentinel):
                # object() sentinels are identical only to themselves
                return (a is b) if isinstance(op, ast.Is) else (a is not b)
            if not (a is None or b is None or isinstance(a, bool) or isinstance(b, bool) or a is b):
                raise self.err("identity comparison of non-constants", n, mod)
            if isinstance(a, (Obj, sp.Basic, Tup, str)) and b is None:
                r = False
            if isinstance(b, (Obj, sp.Basic, Tup, str)) and a is None:
                r = False
            return r if isinstance(op, ast.Is) else not r
        if isinstance(op, (ast.In, ast.NotIn)):
            if hasattr(b, "sym_contains"):
                r = b.sym_contains(self, a, n, mod)
            elif isinstance(b, Tup) and const(a) and const(b):
                r = py(a) in [py(i) for i in b.items]
            elif isinstance(b, RangeV) and is_sym(a) and a.is_number:
                r = a.is_Integer and int(a) in range(b.lo, b.hi, b.step)
            elif isinstance(b, DictV) and const(a):
                r = a in b.d
            elif isinstance(b, DictV) and b.d.membership(a) is not None:
                r = b.d.membership(a)       # a key built from data: the same expression is a hit, a key that differs in a constant component is a miss
            elif isinstance(b, str) and isinstance(a, str):
                r = a in b
            elif isinstance(b, Tup) and not b.items:
                r = False
            elif isinstance(b, Tup) and getattr(self, "sympy_objects", False) and is_sym(a) and all(is_sym(i) for i in b.items):
                r = any(a == i for i in b.items)            # sympy expressions as objects: equal when structurally the same
            elif isinstance(b, Tup) and const(a) and any(const(i) and py(a) == py(i) for i in b.items):
                r = True            # structurally the same value as a member: equal whatever the other members are
            else:
                raise self.err("membership test on a non-constant", n, mod)
            return r if isinstance(op, ast.In) else not r
        for u, v in ((a, b), (b, a)):
            if is_sym(u) and u.is_Symbol and u.is_positive and u.is_integer and is_sym(v) and v == 0 and isinstance(op, (ast.Eq, ast.NotEq)):
                return isinstance(op, ast.NotEq)
        if const(a) and const(b):
            x, y = py(a), py(b)
            if isinstance(op, ast.Eq):
                return bool(x == y)
            if isinstance(op, ast.NotEq):
                return bool(x != y)
            try:
                if isinstance(op, ast.Lt):
                    return bool(x < y)
                if isinstance(op, ast.LtE):
                    return bool(x <= y)
                if isinstance(op, ast.Gt):
                    return bool(x > y)
                if isinstance(op, ast.GtE):
                    return bool(x >= y)
            except TypeError:
                raise self.err("ordering comparison of constants failed", n, mod)
        if is_sym(a) and is_sym(b) and isinstance(op, (ast.Eq, ast.NotEq)) and (a.free_symbols | b.free_symbols) \
                and all(s.is_integer for s in (a.free_symbols | b.free_symbols)):
            d = sp.expand(a - b)
            if d == 0 or d.is_zero:
                return isinstance(op, ast.Eq)
            if d.is_nonzero:
                return isinstance(op, ast.NotEq)
        if is_sym(a) and is_sym(b) and isinstance(op, (ast.Lt, ast.LtE, ast.Gt, ast.GtE)) and (a.free_symbols | b.free_symbols) \
                and all(s.is_integer for s in (a.free_symbols | b.free_symbols)):
            d = sp.expand(a - b)
            table = {ast.Lt: (d.is_negative, d.is_nonnegative), ast.LtE: (d.is_nonpositive, d.is_positive),
                     ast.Gt: (d.is_positive, d.is_nonpositive), ast.GtE: (d.is_nonnegative, d.is_negative)}[type(op)]
            if table[0]:
                return True
            if table[1]:
                return False
        if is_sym(a) or is_sym(b):
            opn = {ast.Eq: "==", ast.NotEq: "!=", ast.Lt: "<", ast.LtE: "<=", ast.Gt: ">", ast.GtE: ">="}.get(type(op))
            return CondV(src(n), a, opn, b)
        if (a is None) != (b is None) and isinstance(op, (ast.Eq, ast.NotEq)):
            return isinstance(op, ast.NotEq)
        if isinstance(a, Tup) and isinstance(b, Tup) and isinstance(op, (ast.Eq, ast.NotEq)) and getattr(self, "generic_equality", False):
            # sequences over generic atoms (independent symbols standing for values in general position): equal iff the
            # same length and element-wise identical expressions
            eq = len(a.items) == len(b.items)
            if eq:
                for x, y in zip(a.items, b.items):
                    if is_sym(x) and is_sym(y):
                        if x != y and sp.expand(x - y) != 0:
                            eq = False
                            break
                    else:
                        r = self.compare(ast.Eq(), x, y, n, mod)
                        if isinstance(r, (CondV, TolCond)):
                            raise self.err("comparison of non-constants", n, mod)
                        if not r:
                            eq = False
                            break
            return eq if isinstance(op, ast.Eq) else not eq
        raise self.err("comparison of non-constants", n, mod)

    def e_IfExp(self, n, env, mod):
        t = self.truth(self.eval(n.test, env, mod), n.test, mod)
        return self.eval(n.body if t else n.orelse, env, mod)

    def e_NamedExpr(self, n, env, mod):
        v = self.eval(n.value, env, mod)
        self.assign(n.target, v, env, mod)
        return v

    def e_Lambda(self, n, env, mod):
        # Python's closure semantics: free variables are looked up in the enclosing scope when the lambda is CALLED (the scope itself is captured, not a
        # snapshot of it); default values are evaluated once, when the lambda is made
        lam = LambdaV(n, env, mod)
        lam.defaults = [self.eval(d, env, mod) for d in n.args.defaults]
        lam.kw_defaults = {a.arg: self.eval(d, env, mod) for a, d in zip(n.args.kwonlyargs, n.args.kw_defaults) if d is not None}
        return lam

    def e_Starred(self, n, env, mod):
        raise self.err("starred expression outside call/tuple", n, mod)

    def e_Slice(self, n, env, mod):
        return SliceV(*(self.eval(x, env, mod) if x is not None else None for x in (n.lower, n.upper, n.step)))

    def e_Subscript(self, n, env, mod):
        base = self.eval(n.value, env, mod)
        idx = self.eval(n.slice, env, mod)
        return self.subscript(base, idx, n, mod)

    def subscript(self, base, idx, n=None, mod=None):
        if isinstance(base, Masked):
            base = base.val
        if (is_sym(base) or (isinstance(base, ArrV) and base.batch and not base.batch_last)) and self.__dict__.get("block_loops") is not None or \
                (isinstance(idx, Tup) and idx.items and type(idx.items[0]).__name__ == "BlockRows") or type(idx).__name__ == "BlockRows":
            sel = block_selector(self, idx)
            if sel is not None and (is_sym(base) or (isinstance(base, ArrV) and base.batch and not base.batch_last)):
                # the rows of one block of the leading grid axis: arrays are elementwise over the grid, so the block is the same expression
                # (whether the blocks together are the whole axis is decided where the result is stored)
                return base
        if isinstance(base, ArrV) and base.batch and not base.batch_last and isinstance(idx, CondV) and _grid_mask_of_matrices(idx):
            # m[mask]: the matrices at the grid points where the mask holds - the same cell expressions, on a part of the grid
            out = ArrV(base.batch, base.shape, base.fill, dict(base.cells))
            for at in ("sym_of", "symmetric", "tag", "truncated", "unordered_axes"):
                if hasattr(base, at):
                    setattr(out, at, getattr(base, at))
            out.selected_by = idx
            return out
        if isinstance(base, ArrV) and base.batch >= 2 and not base.batch_last and is_sym(idx) and idx.is_Integer and getattr(base, "grid_dims", None):
            return GridSlab(base)
        if hasattr(base, "sym_subscript"):
            return base.sym_subscript(self, idx, n, mod)
        if isinstance(base, PairList):
            # dictionary look-up with keys that define __eq__ (and a consistent __hash__): the entry whose key equals idx
            for kk, vv in base.pairs:
                if _same(self, kk, idx, n, mod):
                    return vv
            raise RaisedV("KeyError", f"{mod.rel}:{getattr(n, 'lineno', 0)}" if mod else "")
        if isinstance(base, Opaque):
            return Opaque(f"{base.name}[{idx!r}]")
        if isinstance(base, LibV) and base.name in ("numpy.r_", "numpy.hstack"):
            return ConcatV(idx.items if isinstance(idx, Tup) and idx.kind != "list" else [idx])
        if isinstance(base, ShapeOf):
            # the grid convention of the folder: dim0 is the length of the temperature axis, dim1 of the volume axis; a vector over the volumes only
            # (v_array.shape[0]) has its one axis along dim1
            if is_sym(base.v) and is_sym(idx) and idx == 0:
                names = {s_.name for s_ in as_sym(base.v).free_symbols}
                if "V" in names and "T" not in names:
                    return sp.Symbol("dim1", positive=True, integer=True)
            return sp.Symbol(f"dim{idx}", positive=True, integer=True)
        if isinstance(base, ArrV):
            items = idx.items if isinstance(idx, Tup) and idx.kind != "list" else [idx]
            items = [_as_index(i) for i in items]
            if any(i is None for i in items) and base.batch and not base.batch_last and not any(i is Ellipsis for i in items):
                # numpy.newaxis in front of / between the grid axes adds a grid axis (grid axes are implicit: every cell is an expression
                # over the grid); behind them it adds a constant axis of length one
                lead, seen_real, k_ = 0, 0, 0
                while k_ < len(items) and seen_real < base.batch:
                    if items[k_] is None:
                        lead += 1
                    else:
                        seen_real += 1
                    k_ += 1
                if lead:
                    rest = [i for j_, i in enumerate(items) if not (i is None and j_ < k_)]
                    res = self.subscript(base, Tup(rest, "tuple"), n, mod)
                    if isinstance(res, ArrV):
                        res = ArrV(res.batch + lead, res.shape, res.fill, dict(res.cells), batch_last=res.batch_last)
                    return res
                grid, const = items[:k_], items[k_:]
                inner = ArrV(0, base.shape, base.fill, dict(base.cells))
                res = self.subscript(inner, Tup(const, "tuple"), n, mod)
                if not isinstance(res, ArrV):
                    res = ArrV(0, (), cells={(): res})
                outer = ArrV(base.batch, res.shape, res.fill, dict(res.cells))
                if any(not (isinstance(g, SliceV) and g.lo is None and g.hi is None and g.step is None) for g in grid):
                    return self.subscript(outer, Tup(grid + [SliceV(None, None, None)] * len(outer.shape), "tuple"), n, mod)
                return outer
            if any(i is None for i in items) and base.batch == 0 and not any(i is Ellipsis for i in items):
                # numpy.newaxis: index without it, then insert the axes of length one where they were asked for
                rest = [i for i in items if i is not None]
                res = self.subscript(base, Tup(rest, "tuple"), n, mod) if rest else base
                if not isinstance(res, ArrV):
                    res = ArrV(0, (), cells={(): res})
                shape, src_axes = [], list(res.shape)
                for i in items:
                    if i is None:
                        shape.append(1)
                    elif isinstance(i, (SliceV, Tup)):
                        shape.append(src_axes.pop(0))
                shape += src_axes
                out = ArrV(0, shape, res.fill)
                for key_s, key_d in zip(itertools.product(*[range(d) for d in res.shape]), itertools.product(*[range(d) for d in shape])):
                    out.cells[key_d] = res.get(key_s)
                return out
            if any(isinstance(i, OpaquePerm) for i in items):
                # one constant axis re-ordered by a data-dependent permutation: the same entries, each once, in an order that is not known;
                # kept in storage order and flagged, so that only order-insensitive statements about that axis can be made
                pos = [j for j, i in enumerate(items) if isinstance(i, OpaquePerm)]
                if len(pos) != 1 or len(items) != base.batch + len(base.shape) or base.batch_last:
                    raise self.err("indexing with a data-dependent permutation in this position", n, mod)
                ax = pos[0] - base.batch
                if ax < 0 or items[pos[0]].n != base.shape[ax]:
                    raise RaisedV("IndexError", f"{mod.rel}:{getattr(n, 'lineno', 0)}" if mod else "")
                plain = list(items)
                plain[pos[0]] = SliceV(None, None, None)
                out = self.subscript(base, Tup(plain, "tuple"), n, mod)
                if isinstance(out, ArrV):
                    kept = [j for j, i in enumerate(plain[base.batch:]) if isinstance(i, (SliceV, Tup))]
                    out.unordered_axes = set(getattr(out, "unordered_axes", set())) | {kept.index(ax)}
                return out
            paired = _paired_fancy(base, items, self, n, mod)
            if paired is not None:
                out = ArrV(base.batch, (len(paired),), base.fill, batch_last=base.batch_last)
                out.cells = {(tpos,): base.get(key) for tpos, key in enumerate(paired)}
                return out
            sets, scalar = base.index_sets(items, self, n, mod)
            if all(scalar) and getattr(base, "_grid_index", None) is None:
                return base.get([x[0] for x in sets])
            gi = getattr(base, "_grid_index", None)
            cut = (lambda v: v) if gi is None else (lambda v: self.subscript(as_sym(v), Tup([gi], "tuple"), n, mod) if as_sym(v) != 0 else v)
            if is_sym(gi):
                cut = lambda v: as_sym(v) if not as_sym(v).free_symbols else sp.Function("GRIDAT")(as_sym(v), gi)
            out_shape = [len(x) for x, sc in zip(sets, scalar) if not sc]
            if is_sym(gi) and all(scalar):
                return cut(base.get([x[0] for x in sets]))
            out = ArrV(0 if is_sym(gi) else base.batch, out_shape, cut(base.fill), batch_last=base.batch_last and not is_sym(gi))
            for combo in itertools.product(*[range(len(x)) for x in sets]):
                src_key = tuple(x[c] for x, c in zip(sets, combo))
                dst_key = tuple(c for c, sc in zip(combo, scalar) if not sc)
                out.cells[dst_key] = cut(base.get(src_key))
            return out
        if isinstance(base, LibV) and base.name == "scipy.constants.physical_constants":
            if idx not in U.PHYSICAL_CONSTANTS:
                raise self.err(f"physical constant {idx!r} not in T-UNITS", n, mod)
            q, unit = U.PHYSICAL_CONSTANTS[idx]
            return Tup([q / unit, "unit", sp.Integer(0)])
        if isinstance(base, Tup):
            if is_sym(idx) and idx.is_Integer:
                try:
                    return base.items[int(idx)]
                except IndexError:
                    # a constant index beyond the end of a tuple/list the code itself built: IndexError at run time
                    raise RaisedV("IndexError", f"{mod.rel}:{getattr(n, 'lineno', 0)}" if mod else "")
            if isinstance(idx, SliceV):
                lo, hi, st = (int(x) if x is not None else None for x in (idx.lo, idx.hi, idx.step))
                return Tup(base.items[lo:hi:st], base.kind)
            raise self.err("non-constant index into a tuple", n, mod)
        if isinstance(base, DictV):
            key = idx
            if key in base.d:
                return base.d[key]
            if base.default is not None:
                return base.default(key)
            raise self.err(f"key {key!r} not in constant dict", n, mod)
        if isinstance(base, str):
            if is_sym(idx) and idx.is_Integer:
                return base[int(idx)]
            if isinstance(idx, SliceV):
                lo, hi, st = (int(x) if x is not None else None for x in (idx.lo, idx.hi, idx.step))
                return base[lo:hi:st]
        if isinstance(base, Obj) and "__fields__" in base.attrs and is_sym(idx) and idx.is_Integer:
            return base.attrs[base.attrs["__fields__"][int(idx)]]
        if isinstance(base, Obj):
            hook = self.seeds.get((base.cls, "__getitem__"))
            if hook:
                return hook(self, base, idx)
            if not base.cls.startswith("ext:"):
                owner, gi, kind = self.model.find_member(base.cls, "__getitem__")
                if gi is not None:
                    omod = self.model.mods[owner.split(":")[0]]
                    return self.call_def(gi, omod, f"{owner}.__getitem__", [base, idx], {})
            raise self.err(f"subscript on object {base!r}", n, mod)
        if is_sym(base):
            items = idx.items if isinstance(idx, Tup) else [idx]
            if all(i is None or i is Ellipsis or (isinstance(i, SliceV) and i.lo is None and i.hi is None and i.step is None)
                   for i in items):
                return base  # broadcasting wrapper: erased (axes are E3's business)
            if base.is_number and not base.free_symbols and any(isinstance(i, SliceV) or (is_sym(i) and i.is_Integer) for i in items):
                # a plain number (a float taken out of a list) is not subscriptable: TypeError, whatever the index
                raise RaisedV("TypeError", f"{mod.rel}:{getattr(n, 'lineno', 0)}" if mod else "")
            from .opaque import scalar_part
            c, r = scalar_part(base)
            return c * indexed(r, tuple(items))
        raise self.err(f"unsupported subscript on {type(base).__name__}", n, mod)

    # comprehension support (concrete iterables only)
    def iterate(self, v, n=None, mod=None):
        if isinstance(v, Masked):
            v = v.val
        if hasattr(v, "sym_iter"):
            return v.sym_iter(self, n, mod)
        if isinstance(v, Tup):
            items = list(v.items)
            if getattr(v, "gen", False):
                del v.items[:]          # a generator is spent by the first traversal: whoever iterates it again (through any alias) gets nothing
            return items
        if isinstance(v, Obj) and "__fields__" in v.attrs:
            return [v.attrs[f] for f in v.attrs["__fields__"]]
        if isinstance(v, DictV):
            return list(v.d.keys())
        if isinstance(v, str):
            return list(v)
        if isinstance(v, RangeV):
            return [sp.Integer(i) for i in range(v.lo, v.hi, v.step)]
        if isinstance(v, ArrV) and v.shape and (not v.batch or v.batch_last):
            # a small array iterates over its first (constant) axis
            if len(v.shape) == 1:
                return [v.get((i,)) for i in range(v.shape[0])]
            out = []
            for i in range(v.shape[0]):
                sub = ArrV(v.batch, v.shape[1:], v.fill, batch_last=v.batch_last)
                sub.cells = {kk[1:]: c for kk, c in v.cells.items() if kk[0] == i}
                out.append(sub)
            return out
        if (is_sym(v) and v.is_number) or isinstance(v, (int, float)) and not isinstance(v, bool):
            # a plain number (also a 0-d array) cannot be iterated or unpacked: TypeError at run time
            raise RaisedV("TypeError", f"{mod.rel}:{getattr(n, 'lineno', 0)}" if mod is not None and n is not None else "")
        raise self.err(f"iteration over a non-constant collection ({type(v).__name__})", n, mod)

    def comp(self, n, env, mod, elt_fn):
        out = []
        flags = []

        def rec(gens, env):
            if not gens:
                out.append(elt_fn(env))
                return
            g = gens[0]
            pre = getattr(self, "_first_iter", None)
            if pre is not None and pre[0] is g:
                itv = pre[1]
                self._first_iter = None
            else:
                itv = self.eval(g.iter, env, mod)
            if getattr(itv, "elementwise_seq", False) or getattr(itv, "elementwise", False):
                flags.append(True)
            for item in self.iterate(itv, g.iter, mod):
                # ONE scope for the whole comprehension, as in Python: its loop variables are rebound in place, so a lambda made in the element expression
                # sees the value a variable has when the lambda is CALLED (the last one, once the comprehension is finished), not the one it had when it was made
                self.assign(g.target, item, env, mod)
                if all(self.truth(self.eval(c, env, mod), c, mod) for c in g.ifs):
                    rec(gens[1:], env)

        rec(n.generators, dict(env))
        self._comp_flags = flags
        return out

    def e_ListComp(self, n, env, mod):
        t = Tup(self.comp(n, env, mod, lambda e: self.eval(n.elt, e, mod)), "list")
        if self._comp_flags:
            t.elementwise = True
        return t

    def e_GeneratorExp(self, n, env, mod):
        # a generator expression over a cursor (an object that hands out items one at a time, e.g. the lines of an open file)
        # is lazy: each next() consumes only as many items of the cursor as it needs
        if len(n.generators) == 1:
            itv = self.eval(n.generators[0].iter, env, mod)
            if hasattr(itv, "sym_next") and not isinstance(itv, LazyGen):
                return LazyGen(self, n, dict(env), mod, itv)
            # the iterable has been evaluated (once - it may have effects, e.g. fp.readline()): hand it on
            self._first_iter = (n.generators[0], itv)
        return self.e_ListComp(n, env, mod)

    def e_SetComp(self, n, env, mod):
        return Tup(self.comp(n, env, mod, lambda e: self.eval(n.elt, e, mod)), "set")

    def e_DictComp(self, n, env, mod):
        pairs = self.comp(n, env, mod, lambda e: (self.eval(n.key, e, mod), self.eval(n.value, e, mod)))
        return DictV(dict(pairs))

    # ------------------------------------------------------------ calls
    def e_Call(self, n, env, mod):
        self.call_sites += 1
        if isinstance(n.func, ast.Name) and n.func.id == "super" and not n.args and "super" not in env:
            qual = env.get("__qual__", "")
            if ":" not in qual or "." not in qual.split(":")[1] or "__self__" not in env:
                raise self.err("super() outside a method", n, mod)
            cref = qual.split(":")[0] + ":" + qual.split(":")[1].rsplit(".", 1)[0]
            return SuperV(env["__self__"], cref)
        f = self.eval(n.func, env, mod)
        args, kwargs = [], {}
        for a in n.args:
            if isinstance(a, ast.Starred):
                args.extend(self.iterate(self.eval(a.value, env, mod), a, mod))
            else:
                args.append(self.eval(a, env, mod))
        for k in n.keywords:
            if k.arg is None:
                d = self.eval(k.value, env, mod)
                if not isinstance(d, DictV):
                    raise self.err("** of a non-constant dict", n, mod)
                kwargs.update(d.d)
            else:
                kwargs[k.arg] = self.eval(k.value, env, mod)
        self._param_masks = None
        out_kw = next((k for k in n.keywords if k.arg == "out" and isinstance(k.value, ast.Name)), None)
        if out_kw is not None and isinstance(f, LibV) and f.name.split(".")[0] == "numpy" and not isinstance(kwargs.get("out"), ArrV):
            # numpy.<ufunc>(..., out=<local>): the result is computed and the local then holds it (aliasing with the caller's
            # array is the effects analysis' business)
            kw2 = {kk: vv for kk, vv in kwargs.items() if kk != "out"}
            result = self.call(f, args, kw2, n, mod)
            self.assign(ast.Name(id=out_kw.value.id, ctx=ast.Store()), result, env, mod)
            return result
        result = self.call(f, args, kwargs, n, mod)
        pm = getattr(self, "_param_masks", None)
        if pm:
            # the callee stored into (masked) an array it received: the caller's array is that very object
            named = [(a, v) for a, v in zip(n.args, args) if isinstance(a, ast.Name)] + \
                    [(k.value, kwargs.get(k.arg)) for k in n.keywords if k.arg and isinstance(k.value, ast.Name)]
            for a, v in named:
                for vid, recs in pm:
                    if vid == id(v) and "__masks__" in env:
                        env["__masks__"].setdefault(a.id, []).extend(recs)
            self._param_masks = None
        return result

    def call(self, f, args, kwargs, n=None, mod=None):
        if isinstance(f, FuncV):
            if f.ref in self.intr:
                kw = TrackedKw(kwargs)
                r = self.intr[f.ref](self, ([f.bound] if isinstance(f.bound, Obj) else []) + args, kw)
                # the rule's model stands for the whole function: a keyword must at least name one of its parameters
                unread = set(kwargs) - kw.read - set(getattr(self.intr[f.ref], "kw", None) or ())
                try:
                    fd_ = self.model.func(f.ref)
                    a_ = fd_.args
                    if a_.kwarg is None:
                        unread -= {x.arg for x in a_.posonlyargs + a_.args + a_.kwonlyargs}
                        unread_bad = sorted(set(kwargs) - {x.arg for x in a_.args + a_.kwonlyargs})
                        if unread_bad:
                            raise RaisedV("TypeError")
                        unread = set()
                except (KeyError, AnalysisError):
                    pass
                if unread:
                    raise self.err(f"call to {f.ref} with keyword(s) {sorted(unread)} the rule's model of that function does not look at", n, mod)
                return r
            mname, q = f.ref.split(":")
            fmod = self.model.mods[mname]
            fd = fmod.funcs[q]
            a = ([f.bound] if f.bound is not None else []) + list(args)
            return self.call_def(fd, fmod, f.ref, a, kwargs)
        if isinstance(f, LocalFuncV):
            return self.call_def(f.node, f.mod, f.qual, args, kwargs, closure=f.env)
        if isinstance(f, LambdaV):
            env = dict(f.env)
            params = [a.arg for a in f.node.args.args]
            if len(args) > len(params):
                raise self.err("lambda arity", n, mod)
            for p, v in zip(params, args):
                env[p] = v
            bound_now = set(params[:len(args)]) | set(kwargs)
            made = getattr(f, "defaults", None)
            for i_, (d, p) in enumerate(zip(reversed(f.node.args.defaults), reversed(params))):
                if p not in bound_now:
                    env[p] = made[len(made) - 1 - i_] if made is not None else self.eval(d, f.env, f.mod)
            for p, v in getattr(f, "kw_defaults", {}).items():
                if p not in kwargs:
                    env[p] = v
            for k, v in kwargs.items():
                env[k] = v
            return self.eval(f.node.body, env, f.mod)
        if isinstance(f, ClsV):
            key = (f.ref, "__new__")
            if key in self.seeds:
                return self.seeds[key](self, args, kwargs)
            return self.construct(f.ref, args, kwargs, n, mod)
        if hasattr(f, "sym_call"):
            return f.sym_call(self, args, kwargs, n, mod)
        if isinstance(f, Opaque):
            return Opaque(f"{f.name}(...)")
        if isinstance(f, ConvV):
            return as_sym(args[0]) * f.factor
        if isinstance(f, BoundLib):
            if f.name.rsplit(".", 1)[-1] in MUTATORS:
                self.epoch += 1
            return self.call_lib(f.name, [f.recv] + args, kwargs, n, mod)
        if isinstance(f, LibV):
            return self.call_lib(f.name, args, kwargs, n, mod)
        if isinstance(f, Obj) and not f.cls.startswith("ext:"):
            owner, cm, kind = self.model.find_member(f.cls, "__call__")
            if cm is not None:
                omod = self.model.mods[owner.split(":")[0]]
                return self.call_def(cm, omod, f"{owner}.__call__", [f] + list(args), kwargs)
        raise self.err(f"call of a non-callable {type(f).__name__}", n, mod)

    def construct(self, cref, args, kwargs, n=None, mod=None):
        """object construction: NamedTuple-like classes get fields; others get constructor params bound"""
        c = self.model.cls(cref)
        bases = self.model.bases(cref)
        obj = Obj(cref)
        if any(b.endswith("NamedTuple") for b in bases):
            fields = [s.target.id for s in c.body if isinstance(s, ast.AnnAssign) and isinstance(s.target, ast.Name)]
            for fname, v in zip(fields, args):
                obj.attrs[fname] = v
            for k, v in kwargs.items():
                obj.attrs[k] = v
            # fields with a default value in the class body
            for s_ in c.body:
                if isinstance(s_, ast.AnnAssign) and isinstance(s_.target, ast.Name) and s_.value is not None and s_.target.id not in obj.attrs:
                    obj.attrs[s_.target.id] = self.eval(s_.value, {}, self.model.mods[cref.split(":")[0]])
            missing = [f_ for f_ in fields if f_ not in obj.attrs]
            if missing or len(args) > len(fields):
                raise RaisedV("TypeError", f"{mod.rel}:{getattr(n, 'lineno', 0)}" if mod else "")
            obj.attrs["__fields__"] = fields
            return obj
        if any((dotted_name(d.func if isinstance(d, ast.Call) else d) or "").split(".")[-1] == "dataclass" for d in c.decorator_list) \
                and self.model.find_member(cref, "__init__")[1] is None:
            # @dataclass without an explicit __init__: annotated class-body names are the constructor parameters, in order
            fields = [s_ for s_ in c.body if isinstance(s_, ast.AnnAssign) and isinstance(s_.target, ast.Name)]
            names = [s_.target.id for s_ in fields]
            if len(args) > len(names) or set(kwargs) - set(names):
                raise RaisedV("TypeError", f"{mod.rel}:{getattr(n, 'lineno', 0)}" if mod else "")
            for fname, v in zip(names, args):
                obj.attrs[fname] = v
            obj.attrs.update(kwargs)
            for s_ in fields:
                if s_.target.id not in obj.attrs:
                    if s_.value is None:
                        raise RaisedV("TypeError", f"{mod.rel}:{getattr(n, 'lineno', 0)}" if mod else "")
                    obj.attrs[s_.target.id] = self.eval(s_.value, {}, self.model.mods[cref.split(":")[0]])
            owner_pi, post, _k = self.model.find_member(cref, "__post_init__")
            if post is not None:
                self.call_def(post, self.model.mods[owner_pi.split(":")[0]], f"{owner_pi}.__post_init__", [obj], {})
            return obj
        for bname in self.model.mro(cref):
            if bname.startswith("ext:") and bname.endswith("UserDict"):
                obj.attrs.setdefault("data", PairList())
            if bname.startswith("ext:") and bname.endswith("UserList"):
                obj.attrs.setdefault("data", Tup([], "list"))
        owner, init, _ = self.model.find_member(cref, "__init__")
        if init is not None:
            omod = self.model.mods[owner.split(":")[0]]
            self.call_def(init, omod, f"{owner}.__init__", [obj] + list(args), kwargs, collect_self=obj)
        return obj

    def bind_params(self, fd, fmod, args, kwargs, n=None):
        env = {}
        a = fd.args
        pos = [p.arg for p in a.posonlyargs + a.args]
        if len(args) > len(pos) and a.vararg is None:
            raise self.err(f"too many positional arguments for {fd.name}", n, fmod)
        for p, v in zip(pos, args):
            env[p] = v
        if a.vararg is not None:
            env[a.vararg.arg] = Tup(args[len(pos):])
        kwonly = [p.arg for p in a.kwonlyargs]
        extra = {}
        for k, v in kwargs.items():
            if k in pos or k in kwonly:
                if k in env:
                    raise self.err(f"duplicate argument {k} for {fd.name}", n, fmod)
                env[k] = v
            elif a.kwarg is not None:
                extra[k] = v
            else:
                raise self.err(f"unexpected keyword {k} for {fd.name}", n, fmod)
        if a.kwarg is not None:
            env[a.kwarg.arg] = DictV(extra)
        for d, p in zip(reversed(a.defaults), reversed(pos)):
            if p not in env:
                env[p] = self.eval(d, {}, fmod)
        for p, d in zip(kwonly, a.kw_defaults):
            if p not in env and d is not None:
                env[p] = self.eval(d, {}, fmod)
        for p in pos + kwonly:
            if p not in env:
                raise self.err(f"missing argument {p} for {fd.name}", n, fmod)
        return env

    def call_def(self, fd, fmod, ref, args, kwargs, closure=None, collect_self=None):
        def akey(v):
            if isinstance(v, sp.Basic) and not v.is_number:
                return ("id", id(v))
            if isinstance(v, (ArrV, DictV)) or (isinstance(v, Obj) and not hasattr(v, "const_key") and "__fields__" not in v.attrs):
                return ("id", id(v))
            try:
                return hkey(v)
            except AnalysisError:
                return ("id", id(v))

        frame = (ref, tuple(akey(a) for a in args), tuple(sorted((k, akey(v)) for k, v in kwargs.items())))
        stack = self.__dict__.setdefault("stack", [])
        if frame in stack:
            # the same function is re-entered with the same constant arguments: unbounded recursion
            raise RaisedV("RecursionError", ref)
        self.depth += 1
        if self.depth > MAX_DEPTH:
            self.depth -= 1
            raise self.err(f"inlining depth > {MAX_DEPTH} at {ref}")
        stack.append(frame)
        try:
            self.note_fn(ref)
            env = dict(closure or {})
            env.update(self.bind_params(fd, fmod, args, kwargs))
            if args and isinstance(args[0], Obj) and fd.args.args:
                env["__self__"] = args[0]
            env["__masks__"] = {}
            self.__dict__.setdefault("_initial_params", {})[id(env)] = {a_.arg: id(env[a_.arg]) for a_ in fd.args.posonlyargs + fd.args.args + fd.args.kwonlyargs if a_.arg in env}
            env["__qual__"] = ref
            env["__locals__"] = _locals_of(fd) - set(closure or {})
            is_gen = _is_gen(fd)
            if is_gen:
                env["__yields__"] = []
            try:
                self.exec_body(body_wo_doc(fd), env, fmod)
            except Ret as r:
                if not is_gen:
                    return r.value
            if is_gen:
                gen_ = Tup(env["__yields__"], "list")
                gen_.gen = True             # the (eagerly folded) items of a generator: next() consumes them one by one
                return gen_
            return None
        finally:
            self.depth -= 1
            stack.pop()
            try:
                initial = self.__dict__.get("_initial_params", {}).pop(id(env), {})
                masks = env.get("__masks__", {})
                self._param_masks = [(initial[p], recs) for p, recs in masks.items() if p in initial and recs] or None
            except NameError:
                pass

    # ------------------------------------------------------------ statements
    def exec_body(self, stmts, env, mod):
        for st in stmts:
            self.exec(st, env, mod)

    def exec(self, st, env, mod):
        is_print = (isinstance(st, ast.Expr) and isinstance(st.value, ast.Call) and isinstance(st.value.func, ast.Name)
                    and st.value.func.id == "print" and "builtins.print" in self.intr)
        if is_logging_stmt(st) and not is_print:
            return
        m = getattr(self, "s_" + type(st).__name__, None)
        if m is None:
            raise self.err(f"unsupported statement {type(st).__name__}", st, mod)
        m(st, env, mod)

    def s_Return(self, st, env, mod):
        v = self.eval(st.value, env, mod) if st.value is not None else None
        if isinstance(st.value, ast.Name) and st.value.id in env.get("__masks__", {}):
            v = Masked(v.val if isinstance(v, Masked) else v, env["__masks__"][st.value.id])
        raise Ret(v)

    def s_Assign(self, st, env, mod):
        v = self.eval(st.value, env, mod)
        for t in st.targets:
            self.assign(t, v, env, mod)

    def s_AnnAssign(self, st, env, mod):
        if st.value is not None:
            self.assign(st.target, self.eval(st.value, env, mod), env, mod)

    def s_AugAssign(self, st, env, mod):
        if isinstance(st.target, ast.Subscript):
            base_ = self.eval(st.target.value, env, mod)
            if getattr(base_, "deepcopy_of_array_mapping", False):
                raise self.err("in-place update of an element of a mapping made by ONE copy.deepcopy of a mapping of arrays: elements that were the same array are still the "
                               "same array in the copy, which the symbolic values cannot represent", st, mod)
        cur = self.eval(st.target, env, mod)
        v = self.binop(st.op, cur, self.eval(st.value, env, mod), st, mod)
        if isinstance(cur, ArrV) and isinstance(v, ArrV) and v is not cur and v.shape == cur.shape and v.batch == cur.batch and v.batch_last == cur.batch_last \
                and not isinstance(st.op, ast.MatMult) and isinstance(st.target, ast.Name):
            # an augmented assignment to an array works in place: every other name bound to it (and the array a view was taken from) sees it
            for key in itertools.product(*[range(d) for d in cur.shape]):
                cur.cells[key] = v.get(key)
            if not isinstance(cur.cells, _ViewCells):
                cur.fill = v.fill
            self.epoch += 1
            return
        self.assign(st.target, v, env, mod)

    def assign(self, t, v, env, mod):
        if isinstance(t, ast.Name):
            if isinstance(v, Masked):
                env.setdefault("__masks__", {})[t.id] = list(v.masks)
                v = v.val
            else:
                env.get("__masks__", {}).pop(t.id, None)
            env[t.id] = v
            return
        if isinstance(t, (ast.Tuple, ast.List)):
            items = self.iterate(v, t, mod)
            stars = [i for i, e in enumerate(t.elts) if isinstance(e, ast.Starred)]
            if len(stars) == 1:
                k = stars[0]
                after = len(t.elts) - k - 1
                if len(items) < len(t.elts) - 1:
                    raise RaisedV("ValueError", f"{mod.rel}:{getattr(t, 'lineno', 0)}" if mod else "")
                for tt, vv in zip(t.elts[:k], items[:k]):
                    self.assign(tt, vv, env, mod)
                self.assign(t.elts[k].value, Tup(list(items[k:len(items) - after]), "list"), env, mod)
                for tt, vv in zip(t.elts[k + 1:], items[len(items) - after:] if after else []):
                    self.assign(tt, vv, env, mod)
                return
            if len(items) != len(t.elts):
                raise self.err(f"unpack arity: {len(t.elts)} targets, {len(items)} values", t, mod)
            for tt, vv in zip(t.elts, items):
                self.assign(tt, vv, env, mod)
            return
        if isinstance(t, ast.Attribute):
            self.epoch += 1
            base = self.eval(t.value, env, mod)
            if hasattr(base, "sym_setattr"):
                return base.sym_setattr(self, t.attr, v, t, mod)
            if isinstance(base, Obj):
                base.attrs[t.attr] = v
                return
            raise self.err("attribute store on a non-object", t, mod)
        if isinstance(t, ast.Subscript):
            return self.store_subscript(t, v, env, mod)
        raise self.err("unsupported assignment target", t, mod)

    def store_subscript(self, t, v, env, mod):
        self.epoch += 1
        base = self.eval(t.value, env, mod)
        idx = self.eval(t.slice, env, mod)
        sel = block_selector(self, idx) if (self.__dict__.get("block_loops") is not None or "BlockRows" in (type(idx).__name__, type(idx.items[0]).__name__ if isinstance(idx, Tup) and idx.items else "")) else None
        if sel is not None and isinstance(t.value, ast.Name) and (is_sym(base) or isinstance(base, Masked) or (isinstance(base, ArrV) and base.batch and not base.batch_last)):
            # out[rows] = v for every block: out = v on the rows the blocks cover - all of them, or a finding
            block_cover(self, sel, t, mod)
            if isinstance(base, ArrV) and isinstance(v, ArrV) and tuple(v.shape) != tuple(base.shape):
                raise RaisedV("ValueError", f"{mod.rel}:{getattr(t, 'lineno', 0)}" if mod else "")
            env[t.value.id] = v
            return
        return self._store_into(base, idx, v, t, mod, env)

    def _store_into(self, base, idx, v, t, mod, env=None):
        env = env if env is not None else {}
        if isinstance(base, ArrV) and isinstance(idx, CondV) and _grid_mask_of_matrices(idx):
            if not (isinstance(v, ArrV) and getattr(v, "selected_by", None) is idx and tuple(v.shape) == tuple(base.shape) and v.batch == base.batch and not base.cells):
                raise self.err("store under a mask over the grid axes: only `out[mask] = f(m[mask])` into a freshly filled array is modelled", t, mod)
            # out = f(m) where the mask holds, the previous fill elsewhere; the mask is kept for the rule that has to accept it
            base.cells = dict(v.cells)
            base.guarded_fill, base.fill = base.fill, v.fill
            for at in ("sym_of", "symmetric", "tag", "truncated"):
                if hasattr(v, at):
                    setattr(base, at, getattr(v, at))
            self.__dict__.setdefault("inversion_guards", []).append((idx, base.guarded_fill, f"{mod.rel}:{getattr(t, 'lineno', 0)}" if mod else ""))
            return
        if hasattr(base, "sym_store"):
            return base.sym_store(self, idx, v, t, mod)
        if isinstance(base, DictV):
            base.d[idx] = v
            return
        if isinstance(base, Tup) and base.kind == "list" and is_sym(idx) and idx.is_Integer:
            i_ = int(idx)
            if not -len(base.items) <= i_ < len(base.items):
                raise RaisedV("IndexError", f"{mod.rel}:{getattr(t, 'lineno', 0)}" if mod else "")
            base.items[i_] = v
            return
        if isinstance(base, Obj):
            hook = self.seeds.get((base.cls, "__setitem__"))
            if hook:
                return hook(self, base, idx, v)
            if not base.cls.startswith("ext:"):
                owner, si, kind = self.model.find_member(base.cls, "__setitem__")
                if si is not None:
                    omod = self.model.mods[owner.split(":")[0]]
                    self.call_def(si, omod, f"{owner}.__setitem__", [base, idx, v], {})
                    return
                for bname in self.model.mro(base.cls):
                    if bname.startswith("ext:") and f"{bname[4:]}.__setitem__" in LIB:
                        return LIB[f"{bname[4:]}.__setitem__"](self, [base, idx, v], {}, t, mod)
        if isinstance(base, ArrV):
            items = idx.items if isinstance(idx, Tup) and idx.kind != "list" else [idx]
            items = [_as_index(i) for i in items]
            paired = _paired_fancy(base, items, self, t, mod)
            if paired is not None:
                keys = paired
                if isinstance(v, ArrV):
                    if tuple(v.shape) != (len(keys),):
                        raise self.err("shape mismatch in a paired integer-array store", t, mod)
                    for tpos, key in enumerate(keys):
                        base.cells[key] = v.get((tpos,))
                elif isinstance(v, Tup) and len(v.items) == len(keys):
                    for key, val in zip(keys, v.items):
                        base.cells[key] = as_sym(val)
                else:
                    for key in keys:
                        base.cells[key] = as_sym(v)
                return
            if getattr(base, "maybe_copy_of", None) is not None:
                e_ = RaisedV("InputAssumption", self.here(t, mod))
                e_.expected = "stores through a reshaped array only when the array is known to be C-contiguous (a fresh allocation, .copy(), numpy.copy(x, order='C'), ascontiguousarray)"
                e_.detail = ("a store through x.reshape(...) is meant to change x, but reshape returns a COPY when x is not contiguous in memory - and x here takes its layout from arrays handed in "
                             "from outside (numpy.copy keeps the layout of its argument, arithmetic results follow their operands): for Fortran-ordered or transposed input the store is lost "
                             "and the result is computed from the unmodified array")
                raise e_
            sets, scalar = base.index_sets(items, self, t, mod)
            gi = getattr(base, "_grid_index", None)
            if gi is not None:
                # a store at ONE position (or a part) of the grid axis: the cell keeps its old value everywhere else - neither the old nor the new expression
                if isinstance(v, ArrV):
                    raise self.err("array stored at a part of the grid axis", t, mod)
                tok = sp.Symbol("gridpos[" + (str(gi) if is_sym(gi) else f"{gi.lo}:{gi.hi}:{gi.step}") + "]")
                for combo in itertools.product(*sets):
                    base.cells[tuple(combo)] = sp.Function("ONLY_AT")(as_sym(v), tok, as_sym(base.get(tuple(combo))))
                return
            if isinstance(v, ArrV):
                dims = [len(x) for x, sc in zip(sets, scalar) if not sc]
                if list(v.shape) != dims:
                    raise self.err(f"shape mismatch in block store {v.shape} -> {dims}", t, mod)
                for combo in itertools.product(*[range(len(x)) for x in sets]):
                    dst = tuple(x[c] for x, c in zip(sets, combo))
                    sk = tuple(c for c, sc in zip(combo, scalar) if not sc)
                    base.cells[dst] = v.get(sk)
                return
            val = as_sym(v)
            for combo in itertools.product(*sets):
                base.cells[tuple(combo)] = val
            return
        if isinstance(t.value, ast.Name) and (is_sym(base) or isinstance(base, Masked)):
            items = idx.items if isinstance(idx, Tup) else [idx]
            conds = [(k, i) for k, i in enumerate(items) if isinstance(i, (WhereV, CondV))]
            if len(conds) == 1:
                k, c = conds[0]
                rest_full = all(isinstance(i, SliceV) and i.lo is None and i.hi is None and i.step is None
                                for j, i in enumerate(items) if j != k)
                rec = MaskRec(c.cond if isinstance(c, WhereV) else c, src(t.slice), v, t.lineno, axis=k,
                              rest_full=rest_full)
                env.setdefault("__masks__", {}).setdefault(t.value.id, []).append(rec)
                return
            if not conds and all((is_sym(i) and i.is_Integer) or isinstance(i, SliceV) for i in items):
                # a positional store (e.g. ret[0, :] = 0): recorded as a mask with no condition
                rec = MaskRec(None, src(t.slice), v, t.lineno, axis=0, rest_full=False)
                env.setdefault("__masks__", {}).setdefault(t.value.id, []).append(rec)
                return
        raise self.err("unsupported subscript store", t, mod)

    def s_Expr(self, st, env, mod):
        if isinstance(st.value, ast.Yield):
            env["__yields__"].append(self.eval(st.value.value, env, mod) if st.value.value is not None else None)
            return
        if isinstance(st.value, ast.YieldFrom):
            env["__yields__"].extend(self.iterate(self.eval(st.value.value, env, mod), st, mod))
            return
        if isinstance(st.value, (ast.Call, ast.NamedExpr)):
            self.eval(st.value, env, mod)
            return
        if isinstance(st.value, ast.Constant):
            return          # a string / Ellipsis statement
        raise self.err("expression statement", st, mod)

    def s_If(self, st, env, mod):
        try:
            t = self.truth(self.eval(st.test, env, mod), st.test, mod)
        except DataDependentBranch:
            if all(is_logging_stmt(x) for x in st.body + st.orelse):
                return          # a data-dependent diagnostic: no effect on values
            raise
        self.exec_body(st.body if t else st.orelse, env, mod)

    def s_While(self, st, env, mod):
        n = 0
        while self.truth(self.eval(st.test, env, mod), st.test, mod):
            n += 1
            if n > 5000:
                raise self.err("while-loop folding bound (5000) exceeded", st, mod)
            try:
                self.exec_body(st.body, env, mod)
            except _Continue:
                continue
            except _Break:
                return
        self.exec_body(st.orelse, env, mod)

    def s_Try(self, st, env, mod):
        try:
            self.exec_body(st.body, env, mod)
        except RaisedV as e:
            for h in st.handlers:
                names = []
                if h.type is None:
                    names = None
                elif isinstance(h.type, ast.Tuple):
                    names = [dotted_name(x) for x in h.type.elts]
                else:
                    names = [dotted_name(h.type)]
                if names is None or any(nm and (nm.split(".")[-1] == e.exc_name.split(".")[-1] or nm in ("Exception", "BaseException")
                                                 or _exception_is_a(e.exc_name.split(".")[-1], nm.split(".")[-1])) for nm in names):
                    if h.name:
                        env[h.name] = Opaque(f"exception {e.exc_name}")
                    self.exec_body(h.body, env, mod)
                    break
            else:
                self.exec_body(st.finalbody, env, mod)
                raise
        else:
            self.exec_body(st.orelse, env, mod)
        self.exec_body(st.finalbody, env, mod)

    def s_For(self, st, env, mod):
        itv = self.eval(st.iter, env, mod)
        if hasattr(itv, "sym_next"):
            n = 0
            while True:
                try:
                    item = itv.sym_next(self)
                except RaisedV as e:
                    if e.exc_name == "StopIteration":
                        break
                    raise
                n += 1
                if n > 5000:
                    raise self.err("iterator folding bound (5000) exceeded", st, mod)
                self.assign(st.target, item, env, mod)
                try:
                    self.exec_body(st.body, env, mod)
                except _Continue:
                    continue
                except _Break:
                    return
            self.exec_body(st.orelse, env, mod)
            return
        items = self.iterate(itv, st.iter, mod)
        if len(items) > MAX_UNROLL:
            raise self.err(f"loop unrolling bound {MAX_UNROLL} exceeded", st, mod)
        for item in items:
            self.assign(st.target, item, env, mod)
            try:
                self.exec_body(st.body, env, mod)
            except _Continue:
                continue
            except _Break:
                break
        else:
            self.exec_body(st.orelse, env, mod)

    def s_With(self, st, env, mod):
        for it in st.items:
            v = self.eval(it.context_expr, env, mod)
            if it.optional_vars is not None:
                self.assign(it.optional_vars, v, env, mod)
        self.exec_body(st.body, env, mod)

    def s_Continue(self, st, env, mod):
        raise _Continue()

    def s_Break(self, st, env, mod):
        raise _Break()

    def s_Import(self, st, env, mod):
        for a in st.names:
            name = a.asname or a.name.split(".")[0]
            target = a.name if a.asname else a.name.split(".")[0]
            kind, ref = self.model.resolve_import(("mod", target))
            env[name] = self.from_resolution(kind, ref, st, mod)

    def s_ImportFrom(self, st, env, mod):
        base = st.module or ""
        if st.level:
            pkg = mod.name.rsplit(".", 1)[0] if not mod.path.name == "__init__.py" else mod.name
            parts = pkg.split(".")
            parts = parts[: len(parts) - (st.level - 1)]
            base = ".".join(parts + ([st.module] if st.module else []))
        for a in st.names:
            kind, ref = self.model.resolve_from(base, a.name)
            env[a.asname or a.name] = self.from_resolution(kind, ref, st, mod)

    def s_FunctionDef(self, st, env, mod):
        env[st.name] = LocalFuncV(st, env, mod, f"{env.get('__qual__', mod.name + ':?')}.{st.name}")

    def s_Raise(self, st, env, mod):
        name = "?"
        if st.exc is not None:
            name = dotted_name(st.exc.func if isinstance(st.exc, ast.Call) else st.exc) or "?"
        raise RaisedV(name, f"{mod.rel}:{st.lineno}")

    def s_Assert(self, st, env, mod):
        return

    def s_Pass(self, st, env, mod):
        return

    # ------------------------------------------------------------ library calls
    def call_lib(self, name, args, kwargs, n=None, mod=None):
        if name in self.intr:
            # rule-supplied transfer functions: a keyword argument the function never looked at is not modelled -> fail closed
            kw = TrackedKw(kwargs)
            r = self.intr[name](self, args, kw)
            unread = sorted(set(kwargs) - kw.read - set(getattr(self.intr[name], "kw", None) or ()))
            if unread:
                raise self.err(f"call to {name} with keyword(s) {unread} the transfer function does not model", n, mod)
            return r
        short = name.split(".", 1)[1] if name.startswith("builtins.") else name
        fn = LIB.get(name) or LIB.get(short)
        if fn is None and getattr(self, "lenient", False):
            # effect rules (which files are opened, which objects are stored to) do not need the value of an unknown
            # library call: it is an opaque value; anything that then *needs* a constant (a path, a branch) still fails closed
            return Opaque(f"{name}(...)")
        if fn is None:
            raise self.err(f"call to {name} has no transfer function (T-LIB)", n, mod)
        bad = set(kwargs) - set(getattr(fn, "kw", ()) or ()) if getattr(fn, "kw", ()) is not None else set()
        if bad:
            raise self.err(f"call to {name} with keyword(s) {sorted(bad)} the transfer function does not model", n, mod)
        return fn(self, args, kwargs, n, mod)


class TrackedKw(dict):
    """keyword arguments handed to a rule-supplied transfer function; records which ones it consulted"""
    def __init__(self, d):
        super().__init__(d)
        self.read = set()

    def get(self, k, default=None):
        self.read.add(k)
        return super().get(k, default)

    def __getitem__(self, k):
        self.read.add(k)
        return super().__getitem__(k)

    def __contains__(self, k):
        self.read.add(k)
        return super().__contains__(k)

    def pop(self, k, *d):
        self.read.add(k)
        return super().pop(k, *d)

    def items(self):
        self.read.update(super().keys())
        return super().items()

    def keys(self):
        self.read.update(super().keys())
        return super().keys()

    def values(self):
        self.read.update(super().keys())
        return super().values()

    def __iter__(self):
        self.read.update(super().keys())
        return super().__iter__()

    def all(self):
        """plain copy for a transfer function that captures every keyword for its rule to judge"""
        self.read.update(super().keys())
        return dict(super().items())

    def __len__(self):          # `if k:` / `len(k)` on the whole mapping: treated as a conscious look at all of them
        self.read.update(super().keys())
        return super().__len__()


def kw_accept(k, name, ok, what=""):
    """consume keyword `name` of a library call if present; its value must satisfy `ok` (a value-preserving spelling of
    the default behaviour the transfer function models) - otherwise the call is not modelled"""
    if name in k:
        v = k[name]
        if not ok(v):
            raise AnalysisError(f"keyword {name}={v!r} {what or 'is not modelled by the transfer function'}")


def open_kw(k):
    """text-mode open(): encoding utf-8/ascii (the formats are ASCII), universal newlines"""
    kw_accept(k, "encoding", lambda v: v is None or (isinstance(v, str) and v.lower().replace("-", "").replace("_", "") in ("utf8", "ascii", "latin1", "usascii")))
    kw_accept(k, "newline", lambda v: v is None)
    kw_accept(k, "errors", lambda v: v in (None, "strict"))
    kw_accept(k, "buffering", lambda v: True)


def yaml_kw(k):
    """yaml.load(stream, Loader=...): the loaders that read plain mappings/scalars identically"""
    kw_accept(k, "Loader", lambda v: getattr(v, "name", None) in ("yaml.FullLoader", "yaml.SafeLoader", "yaml.Loader", "yaml.CSafeLoader",
                                                                   "yaml.CFullLoader", "yaml.CLoader", "yaml.UnsafeLoader"))


def whitespace_sep(v):
    return isinstance(v, str) and v in (r"\s+", r"\s*", r"[ \t]+", r"\s{1,}")


class _Continue(Exception):
    pass


class _Break(Exception):
    pass


class ModV:
    def __init__(self, name):
        self.name = name


class UnitReg:
    pass


class BoundLib:
    def __init__(self, name, recv):
        self.name, self.recv = name, recv


class LazyGen:
    """(elt for target in cursor if conds): evaluated item by item"""

    def __init__(self, ev, node, env, mod, cursor):
        self.ev, self.node, self.env, self.mod, self.cursor = ev, node, env, mod, cursor

    def sym_next(self, ev=None):
        g = self.node.generators[0]
        count = 0
        while True:
            item = self.cursor.sym_next(self.ev)          # RaisedV(StopIteration) when the cursor is exhausted
            count += 1
            if count > 100000:
                raise self.ev.err("generator folding bound exceeded", self.node, self.mod)
            e2 = dict(self.env)
            self.ev.assign(g.target, item, e2, self.mod)
            if all(self.ev.truth(self.ev.eval(c, e2, self.mod), c, self.mod) for c in g.ifs):
                return self.ev.eval(self.node.elt, e2, self.mod)

    def nxt(self):
        return self.sym_next(self.ev)

    def sym_iter(self, ev, n, mod):
        out = []
        while True:
            try:
                out.append(self.sym_next(ev))
            except RaisedV as e:
                if e.exc_name == "StopIteration":
                    return out
                raise


class LazyIter:
    """map / filter / dropwhile / takewhile / chain over a cursor (an object handing out items one at a time): item by item"""

    def __init__(self, ev, kind, fn, source, n=None, mod=None):
        self.ev, self.kind, self.fn, self.source, self.n, self.mod = ev, kind, fn, source, n, mod
        self.dropping = True
        self.done = False

    def _pull(self):
        src_ = self.source
        if hasattr(src_, "sym_next"):
            return src_.sym_next(self.ev)
        if not hasattr(self, "_buf"):
            self._buf = list(self.ev.iterate(src_, self.n, self.mod))
        if not self._buf:
            raise RaisedV("StopIteration")
        return self._buf.pop(0)

    def _test(self, item):
        if self.fn is None:
            return self.ev.truth(item, self.n, self.mod)
        return self.ev.truth(self.ev.call(self.fn, [item], {}, self.n, self.mod), self.n, self.mod)

    def sym_next(self, ev=None):
        count = 0
        while True:
            count += 1
            if count > 100000:
                raise self.ev.err("iterator folding bound exceeded", self.n, self.mod)
            if self.done:
                raise RaisedV("StopIteration")
            item = self._pull()
            if self.kind == "map":
                return self.ev.call(self.fn, [item], {}, self.n, self.mod)
            if self.kind == "filter":
                if self._test(item):
                    return item
                continue
            if self.kind == "dropwhile":
                if self.dropping and self._test(item):
                    continue
                self.dropping = False
                return item
            if self.kind == "takewhile":
                if self._test(item):
                    return item
                self.done = True
                raise RaisedV("StopIteration")
            raise self.ev.err(f"lazy iterator kind {self.kind}", self.n, self.mod)

    def nxt(self):
        return self.sym_next(self.ev)

    def sym_iter(self, ev, n, mod):
        out = []
        while True:
            try:
                out.append(self.sym_next(ev))
            except RaisedV as e:
                if e.exc_name == "StopIteration":
                    return out
                raise


class SliceV:
    def __init__(self, lo, hi, step):
        self.lo, self.hi, self.step = lo, hi, step

    def __repr__(self):
        f = lambda x: "" if x is None else str(x)
        return f"{f(self.lo)}:{f(self.hi)}" + (f":{f(self.step)}" if self.step is not None else "")


class RangeV:
    def __init__(self, lo, hi, step=1):
        self.lo, self.hi, self.step = lo, hi, step


class WhereV:
    def __init__(self, cond):
        self.cond = cond


class ShapeOf:
    def __init__(self, v):
        self.v = v

    def sym_iter(self, ev, n, mod):
        # (*x.shape,) inside another shape: the grid dimensions of x, however many - one opaque item (only shapes are built from it)
        return [sp.Function("DIMS_OF")(as_sym(self.v) if is_sym(self.v) else sp.Symbol(f"ARRAY{id(self.v)}"))]


Indexed = sp.Function("Indexed")


def indexed(base, idx):
    """x[idx] for a non-trivial index; kept as an opaque atom with the index text"""
    return Indexed(base, sp.Symbol("idx[" + ",".join(map(repr, idx)) + "]"))


class _AllRows:
    def __repr__(self):
        return "<all rows>"


ALLROWS = _AllRows()


def edge_padded(x):
    """x with its first and last element repeated once (x[[0, *range(len(x)), -1]] == numpy.pad(x, 1, mode='edge'))"""
    from .opaque import scalar_part
    c, r = scalar_part(x)
    return c * indexed(r, (sp.Integer(0), ALLROWS, sp.Integer(-1)))


def is_indexed(t):
    return getattr(t, "func", None) == Indexed


class Transposed(sp.Function):
    nargs = 1


class MatProd(sp.Function):
    nargs = 2


STR_METHODS = {"lower", "upper", "strip", "split", "startswith", "endswith", "join", "format", "rjust", "replace",
               "lstrip", "rstrip", "isdigit", "find", "rfind", "index", "rindex", "count", "partition", "rpartition", "ljust", "center", "zfill",
               "isalpha", "isalnum", "isspace", "title", "capitalize", "swapcase", "casefold", "splitlines", "rsplit", "removeprefix", "removesuffix",
               "expandtabs", "isnumeric", "isdecimal", "islower", "isupper"}

BUILTINS = {"id", "vars", "frozenset", "len", "range", "tuple", "list", "sorted", "zip", "map", "int", "float", "str", "sum", "abs", "min",
            "max", "round", "set", "dict", "enumerate", "isinstance", "next", "reversed", "any", "all", "open",
            "print", "type", "callable", "getattr", "repr", "hash", "bool", "slice", "setattr", "property", "hasattr", "object", "filter", "staticmethod"}


_LOC_CACHE, _GEN_CACHE = {}, {}


def _locals_of(fd):
    k = id(fd)
    if k not in _LOC_CACHE:
        from .cfg import DefiniteAssignment
        _LOC_CACHE[k] = (fd, DefiniteAssignment.collect_locals(fd))
    return _LOC_CACHE[k][1]


def _is_gen(fd):
    k = id(fd)
    if k not in _GEN_CACHE:
        _GEN_CACHE[k] = (fd, has_own_yield(fd))
    return _GEN_CACHE[k][1]


def has_own_yield(fd):
    """a yield in the function's own body (nested defs and lambdas excluded)"""
    todo = list(fd.body)
    while todo:
        n = todo.pop()
        if isinstance(n, (ast.Yield, ast.YieldFrom)):
            return True
        if isinstance(n, (ast.FunctionDef, ast.AsyncFunctionDef, ast.Lambda, ast.ClassDef)):
            continue
        todo.extend(ast.iter_child_nodes(n))
    return False


def delegating_getattr_target(fd):
    """`def __getattr__(self, name): return getattr(self.X, name)` -> 'X' (None if another idiom)"""
    body = body_wo_doc(fd)
    if len(body) != 1 or not isinstance(body[0], ast.Return):
        return None
    c = body[0].value
    if (isinstance(c, ast.Call) and isinstance(c.func, ast.Name) and c.func.id == "getattr" and len(c.args) == 2
            and isinstance(c.args[0], ast.Attribute) and isinstance(c.args[0].value, ast.Name)
            and c.args[0].value.id == fd.args.args[0].arg and isinstance(c.args[1], ast.Name)
            and c.args[1].id == fd.args.args[1].arg):
        return c.args[0].attr
    return None


# ---------------------------------------------------------------- library transfer functions
def _const_int(v):
    if is_sym(v) and v.is_Integer:
        return int(v)
    if isinstance(v, int):
        return v
    raise AnalysisError(f"expected a constant integer, got {v!r}")


def lib_exp(ev, a, k, n, mod):
    r = _cellwise(sp.exp, ev, a, n, mod)
    return sp.exp(as_sym(a[0])) if r is None else r


def lib_expm1(ev, a, k, n, mod):
    r = _cellwise(lambda x: sp.exp(x) - 1, ev, a, n, mod)
    return sp.exp(as_sym(a[0])) - 1 if r is None else r


def _cellwise(fn, ev, a, n, mod):
    x = a[0]
    if isinstance(x, Tup) and x.items and all(is_sym(i) and not isinstance(i, bool) for i in x.items):
        x = ArrV(0, (len(x.items),), cells={(j,): i for j, i in enumerate(x.items)})
    if isinstance(x, ArrV):
        out = ArrV(x.batch, x.shape, fill=fn(as_sym(x.fill)), batch_last=x.batch_last)
        for key in itertools.product(*[range(d) for d in x.shape]):
            out.cells[key] = fn(as_sym(x.get(key)))
        return out
    return None


def lib_log(ev, a, k, n, mod):
    r = _cellwise(sp.log, ev, a, n, mod)
    return sp.log(as_sym(a[0])) if r is None else r


def lib_sqrt(ev, a, k, n, mod):
    r = _cellwise(sp.sqrt, ev, a, n, mod)
    return sp.sqrt(as_sym(a[0])) if r is None else r


def lib_prod(ev, a, k, n, mod):
    v = a[0]
    axis = k.get("axis", a[1] if len(a) > 1 else None)
    if isinstance(v, Tup) and axis is not None and _const_int(axis) == 0:
        r = sp.Integer(1)
        for i in v.items:
            r = r * as_sym(i)
        return r
    if isinstance(v, Tup) and v.items and all(is_sym(i) for i in v.items) and (axis is None or _const_int(axis) in (1, -1)):
        # a tuple of grid vectors reduced over the GRID axis (axis=None: over everything): one number per vector (or one in all)
        # instead of one value per grid point - an opaque reduction that no per-point formula equals
        r = sp.Integer(1)
        for i in v.items:
            r = r * as_sym(i)
        tag = "PRODALL" if axis is None else "PRODGRID"
        return sp.Function(tag)(r) if axis is None else Tup([sp.Function(tag)(as_sym(i)) for i in v.items], "list")
    raise ev.err("numpy.prod of a non-tuple or without axis=0", n, mod)


def lib_array(ev, a, k, n, mod):
    """numpy.array(x): a new array (copy=True is the default) - a small array is copied, a list of numbers becomes one"""
    x = a[0]
    if not _float_dtype(k.get("dtype")):
        raise ev.err(f"numpy.array with dtype {k.get('dtype')!r} is not modelled", n, mod)
    if isinstance(x, ArrV) and k.get("copy", True) is not False:
        out = ArrV(x.batch, x.shape, x.fill, dict(x.cells), batch_last=x.batch_last)
        return out
    if isinstance(x, Tup) and x.kind in ("list", "tuple") and x.items and all(is_sym(i) and not isinstance(i, bool) for i in x.items) \
            and any(as_sym(i).free_symbols for i in x.items) and not getattr(x, "elementwise_seq", False) and not getattr(x, "gen", False):
        # a list of scalar expressions becomes a vector (arithmetic, .sum(), slices)
        return ArrV(0, (len(x.items),), cells={(j,): i for j, i in enumerate(x.items)})
    if isinstance(x, Tup) and x.kind in ("list", "tuple") and not x.items:
        return ArrV(0, (0,))            # numpy.array([]): an empty vector
    return x


def lib_len(ev, a, k, n, mod):
    v = a[0]
    if isinstance(v, Tup):
        return sp.Integer(len(v.items))
    if isinstance(v, str):
        return sp.Integer(len(v))
    if isinstance(v, DictV):
        return sp.Integer(len(v.d))
    if isinstance(v, ShapeOf):
        return RankOf(v.v)
    if isinstance(v, ArrV) and v.batch == 0:
        return sp.Integer(v.shape[0])
    if hasattr(v, "sym_len"):
        return v.sym_len()
    if is_sym(v) and not v.is_number:
        return sp.Function("LEN", positive=True, integer=True)(v)          # the length of a data vector: an unknown positive integer
    raise ev.err("len() of a non-constant", n, mod)


class RankOf(sp.Function):
    nargs = 1


class RepeatV:
    """(x,) * n: the same item n times, n not a constant"""

    def __init__(self, item, count):
        self.item, self.count = item, count


class ConcatV:
    """numpy.r_[part, part, ...] / concatenation of vectors whose lengths are expressions: parts are RepeatV, single values, or slices of a data vector"""

    def __init__(self, parts):
        self.parts = list(parts)


class StackV:
    """numpy.empty / zeros((k, <grid dims>, <constant dims>)): k arrays over the grid held in one block.  Unpacking or iterating it gives the k arrays
    (views: what is stored through them is stored in the block); a subscript addresses the k arrays with its first item"""

    def __init__(self, members):
        self.members = list(members)

    def sym_iter(self, ev, n, mod):
        return list(self.members)

    def _split(self, ev, idx, n, mod):
        items = list(idx.items) if isinstance(idx, Tup) and idx.kind != "list" else [idx]
        items = [_as_index(i) for i in items]
        nd = 1 + self.members[0].batch + len(self.members[0].shape)
        if any(i is Ellipsis for i in items):
            k_ = items.index(Ellipsis)
            items = items[:k_] + [SliceV(None, None, None)] * (nd - len(items) + 1) + items[k_ + 1:]
        first, rest = items[0], items[1:]
        if isinstance(first, SliceV):
            sel = list(range(len(self.members)))[slice(*(int(x) if x is not None else None for x in (first.lo, first.hi, first.step)))]
            scalar = False
        elif is_sym(first) and first.is_Integer:
            if not -len(self.members) <= int(first) < len(self.members):
                raise RaisedV("IndexError", ev.here(n, mod))
            sel, scalar = [int(first) % len(self.members)], True
        else:
            raise ev.err("index on the first axis of a block of grid arrays", n, mod)
        return sel, scalar, (Tup(rest, "tuple") if rest else None)

    def sym_subscript(self, ev, idx, n, mod):
        sel, scalar, rest = self._split(ev, idx, n, mod)
        parts = [self.members[i] if rest is None else ev.subscript(self.members[i], rest, n, mod) for i in sel]
        return parts[0] if scalar else StackV(parts)

    def sym_store(self, ev, idx, v, t, mod):
        sel, scalar, rest = self._split(ev, idx, t, mod)
        if isinstance(v, (ArrV, StackV)):
            raise ev.err("array stored into a block of grid arrays", t, mod)
        for i in sel:
            m = self.members[i]
            if rest is None:
                m.cells = {}
                m.fill = as_sym(v)
                continue
            ev._store_into(m, rest, v, t, mod)

    def sym_getattr(self, ev, name, node, mod):
        if name == "shape":
            inner = ev.get_attr(self.members[0], "shape", node, mod)
            return Tup([sp.Integer(len(self.members))] + list(inner.items), "tuple")
        raise ev.err(f"attribute {name} of a block of grid arrays", node, mod)


class GridSlab:
    """x[k] of an array with two or more grid axes: only its size is known (how many bytes one row of the leading axis takes)"""

    def __init__(self, arr):
        self.arr = arr

    def sym_getattr(self, ev, name, node, mod):
        dims = [as_sym(d) for d in self.arr.grid_dims[1:]] + [sp.Integer(d) for d in self.arr.shape]
        if name == "shape":
            return Tup(dims, "tuple")
        if name in ("size", "nbytes"):
            tot = sp.Integer(1)
            for d in dims:
                tot *= d
            return tot * (8 if name == "nbytes" else 1)
        if name == "itemsize":
            return sp.Integer(8)
        raise ev.err(f"attribute {name} of one row of a grid array", node, mod)


class BlockRangeV:
    """range(K) with a trip count that depends on the grid: iterated once, with a symbolic block index (cijsa.blocks)"""

    def __init__(self, count):
        self.count = count

    def sym_iter(self, ev, n, mod):
        from .blocks import BlockLoop
        loops = ev.__dict__.setdefault("block_loops", {})
        i = sp.Symbol(f"BLOCK{len(loops)}", integer=True, nonnegative=True)
        loops[i] = BlockLoop(i, self.count)
        return [i]


def lib_range(ev, a, k, n, mod):
    if len(a) == 1 and is_sym(a[0]) and not as_sym(a[0]).is_number and as_sym(a[0]).is_integer is not False:
        return BlockRangeV(as_sym(a[0]))
    ints = [_const_int(x) for x in a]
    if len(ints) == 1:
        return RangeV(0, ints[0])
    if len(ints) == 2:
        return RangeV(ints[0], ints[1])
    return RangeV(*ints)


def block_selector(ev, idx):
    """the block family an index stands for: a slice whose bounds contain the index of a block loop, or a piece of array_split; None otherwise"""
    from .blocks import BlockRows
    first = idx.items[0] if isinstance(idx, Tup) and idx.kind != "list" and idx.items else idx
    rest = idx.items[1:] if isinstance(idx, Tup) and idx.kind != "list" else []
    if not all(isinstance(r, SliceV) and r.lo is None and r.hi is None and r.step is None or r is Ellipsis for r in rest):
        return None
    if isinstance(first, BlockRows):
        return first
    loops = ev.__dict__.get("block_loops") or {}
    if isinstance(first, SliceV) and first.step is None and first.lo is not None and first.hi is not None and is_sym(first.lo) and is_sym(first.hi):
        used = [i for i in loops if i in (as_sym(first.lo).free_symbols | as_sym(first.hi).free_symbols)]
        if len(used) == 1:
            return (loops[used[0]], as_sym(first.lo), as_sym(first.hi))
    return None


def block_cover(ev, sel, n, mod):
    """the blocks of `sel` cover their axis exactly once - or a finding (with the witness) / an analysis error"""
    from .blocks import BlockRows, check_slices, check_sections
    cache = ev.__dict__.setdefault("block_verdicts", {})
    key = id(sel) if isinstance(sel, BlockRows) else (sel[0].sym, sp.srepr(sel[1]), sp.srepr(sel[2]))
    if key not in cache:
        cache[key] = check_sections(sel) if isinstance(sel, BlockRows) else check_slices(*sel)
        ctx = getattr(ev, "ctx", None)
        if ctx is not None and cache[key][0]:
            ctx.extra.setdefault("block_loops", []).append(f"{ev.here(n, mod)}: {cache[key][1]}")
    ok, note = cache[key]
    if not ok:
        e = RaisedV("InputAssumption", ev.here(n, mod))
        e.expected = "every row of the grid axis is processed, for every grid the configuration allows"
        e.detail = f"a loop that works through a grid axis in blocks does not cover it for every axis length: {note}"
        raise e
    return note


class BlockListV:
    """numpy.array_split(numpy.arange(L), S): S index vectors that together are 0 .. L-1"""

    def __init__(self, length, sections):
        self.length, self.sections = length, sections

    def sym_iter(self, ev, n, mod):
        from .blocks import BlockRows
        rows = BlockRows(self.length, self.sections)
        block_cover(ev, rows, n, mod)           # the call itself raises when it is asked for no sections
        return [rows]


def lib_array_split(ev, a, k, n, mod):
    x, sec = a[0], k.get("indices_or_sections", a[1] if len(a) > 1 else None)
    ax = k.get("axis", a[2] if len(a) > 2 else sp.Integer(0))
    if not (is_sym(x) and getattr(x, "func", None) is not None and getattr(x.func, "__name__", "") == "ARANGE" and len(x.args) == 1) or _const_int(ax) != 0:
        raise ev.err("numpy.array_split of something other than numpy.arange(<axis length>)", n, mod)
    if not is_sym(sec):
        raise ev.err("numpy.array_split with explicit split points", n, mod)
    return BlockListV(x.args[0], as_sym(sec))


lib_array_split.kw = {"indices_or_sections", "axis"}


def lib_tuple(ev, a, k, n, mod):
    return Tup(ev.iterate(a[0], n, mod) if a else [], "tuple")


def lib_list(ev, a, k, n, mod):
    out = Tup(ev.iterate(a[0], n, mod) if a else [], "list")
    if a and getattr(a[0], "own_order", None) is not None:
        out.own_order = a[0].own_order          # the same items in the same (element-specific) order
    return out


def lib_sorted(ev, a, k, n, mod):
    items = ev.iterate(a[0], n, mod)
    key = k.get("key")
    if key is None and len(items) == 2 and all(is_sym(i) for i in items) and not all(i.is_number for i in items) and not k.get("reverse", False):
        return Tup([sp.Min(*items), sp.Max(*items)], "list")       # two data values in order
    def kf(x):
        v = ev.call(key, [x], {}, n, mod) if key is not None else x
        if is_sym(v) and v.is_number:
            return v
        if isinstance(v, str):
            return v
        if isinstance(v, Tup) and all(is_sym(i) and i.is_number for i in v.items):
            return tuple(v.items)
        try:
            return hkey(v)
        except AnalysisError:
            raise ev.err("sorted() of non-constants", n, mod)
    rev = k.get("reverse", False)
    if not isinstance(rev, bool):
        raise ev.err("sorted(reverse=<non-constant>)", n, mod)
    for kw in k:
        if kw not in ("key", "reverse"):
            raise ev.err(f"sorted() keyword {kw}", n, mod)
    return Tup(sorted(items, key=kf, reverse=rev), "list")


def lib_list_sort(ev, a, k, n, mod):
    lst = a[0]
    res = lib_sorted(ev, [lst], k, n, mod)
    lst.items[:] = res.items
    return None


lib_list_sort.kw = {"key", "reverse"}


def lib_list_misc(name):
    def f(ev, a, k, n, mod):
        lst = a[0]
        if name == "reverse":
            lst.items.reverse()
        elif name == "clear":
            del lst.items[:]
        elif name == "insert":
            lst.items.insert(_const_int(a[1]), a[2])
        elif name == "remove":
            hit = [i for i in lst.items if hkey(i) == hkey(a[1])]
            if not hit:
                raise RaisedV("ValueError")
            lst.items.remove(hit[0])
        return None
    return f


def lib_zip(ev, a, k, n, mod):
    if any(hasattr(x, "sym_next") for x in a):
        # a cursor among the arguments: items are pulled left to right, round by round; the round that finds an argument
        # exhausted has already consumed one item from every argument to its left (zip(fp, range(n)) reads n + 1 lines)
        its = [x if hasattr(x, "sym_next") else iter(ev.iterate(x, n, mod)) for x in a]
        rows = []
        while True:
            row = []
            try:
                for it in its:
                    row.append(it.sym_next(ev) if hasattr(it, "sym_next") else next(it))
            except StopIteration:
                break
            except RaisedV as e:
                if e.exc_name == "StopIteration":
                    break
                raise
            rows.append(Tup(row))
            if len(rows) > 100000:
                raise ev.err("zip folding bound exceeded", n, mod)
        return Tup(rows, "list")
    out = Tup([Tup(t) for t in zip(*[ev.iterate(x, n, mod) for x in a])], "list")
    summarised = [x for x in a if getattr(x, "elementwise_seq", False) or getattr(x, "elementwise", False)]
    if summarised and len(out.items) == 1:
        # sequences folded as ONE "all rows" element stay so when zipped: enumerate() then hands out the all-rows index
        owner = next((x for x in summarised if hasattr(x, "sym_enumerate")), None)
        out.elementwise_seq = True
        out.elementwise = True
        if owner is not None:
            idx = owner.sym_enumerate(ev, n, mod).items[0].items[0]
            out.sym_enumerate = lambda ev_, n_, mod_, idx=idx, out=out: Tup([Tup([idx, out.items[0]])], "list")
    return out


def lib_product(ev, a, k, n, mod):
    rep = _const_int(k.get("repeat", sp.Integer(1)))
    return Tup([Tup(t) for t in itertools.product(*[ev.iterate(x, n, mod) for x in a], repeat=rep)], "list")


lib_product.kw = {"repeat"}


def lib_permutations(ev, a, k, n, mod):
    r = _const_int(a[1]) if len(a) > 1 else None
    return Tup([Tup(t) for t in itertools.permutations(ev.iterate(a[0], n, mod), r)], "list")


def lib_set(ev, a, k, n, mod):
    items = ev.iterate(a[0], n, mod) if a else []
    out, seen = [], []
    for i in items:
        kx = skey(i)            # members that are expressions: the same expression is the same member
        if kx not in seen:
            seen.append(kx)
            out.append(i)
    return Tup(out, "set")


def lib_set_method(name):
    def f(ev, a, k, n, mod):
        me = a[0]
        others = [ev.iterate(o, n, mod) for o in a[1:]]
        keys = lambda items: [skey(i) for i in items]
        if name in ("union", "update"):
            out = list(me.items)
            for o in others:
                for i in o:
                    if skey(i) not in keys(out):
                        out.append(i)
            if name == "update":
                me.items[:] = out
                return None
            return Tup(out, "set")
        if name == "intersection":
            out = [i for i in me.items if all(skey(i) in keys(o) for o in others)]
            return Tup(out, "set")
        if name == "difference":
            return Tup([i for i in me.items if not any(skey(i) in keys(o) for o in others)], "set")
        if name == "symmetric_difference":
            o = others[0]
            return Tup([i for i in me.items if skey(i) not in keys(o)] + [i for i in o if skey(i) not in keys(me.items)], "set")
        if name == "issubset":
            return all(skey(i) in keys(others[0]) for i in me.items)
        if name == "issuperset":
            return all(skey(i) in keys(me.items) for i in others[0])
        if name == "isdisjoint":
            return not any(skey(i) in keys(others[0]) for i in me.items)
        if name == "add":
            if skey(a[1]) not in keys(me.items):
                me.items.append(a[1])
            return None
        if name in ("discard", "remove"):
            hit = [i for i in me.items if skey(i) == skey(a[1])]
            if not hit and name == "remove":
                raise RaisedV("KeyError")
            for i in hit:
                me.items.remove(i)
            return None
        raise ev.err(f"set method {name}", n, mod)
    return f


def lib_int(ev, a, k, n, mod):
    v = a[0]
    if isinstance(v, str):
        try:
            return sp.Integer(int(v))
        except ValueError:
            raise RaisedV("ValueError")
    if is_sym(v) and v.is_Rational:
        return sp.Integer(int(v))
    if is_sym(v):
        # truncation toward zero: floor for a non-negative argument, an opaque INT atom otherwise
        if v.is_integer:
            return v
        if isinstance(v, sp.Function) and getattr(v.func, "__name__", "") in ("ROUND", "RINT", "ARGMIN", "ARGMAX", "SEARCHSORTED_left", "SEARCHSORTED_right"):
            return v
        return sp.floor(v) if v.is_nonnegative else sp.Function("INT")(v)
    raise ev.err("int() of a non-constant", n, mod)


def lib_float(ev, a, k, n, mod):
    v = a[0]
    if isinstance(v, str):
        try:
            return num(float(v))
        except ValueError:
            raise RaisedV("ValueError")
    return as_sym(v)


def lib_str(ev, a, k, n, mod):
    v = a[0]
    if v is None:
        return "None"
    if is_sym(v) and v.is_Integer:
        return str(int(v))
    if isinstance(v, str):
        return v
    if hasattr(v, "sym_str"):
        return v.sym_str()
    raise ev.err("str() of a non-constant", n, mod)


def lib_repr(ev, a, k, n, mod):
    """repr() of plain data (nested dict / list / str / number / bool / None): a string that is equal for two values exactly when the values have the same
    structure, types included - modelled by the structural key of the value.  Anything that has no structural key (arrays, symbols in containers) is refused."""
    def structural(v):
        if isinstance(v, bool) or v is None or isinstance(v, (str, int)):
            return (type(v).__name__, v)
        if isinstance(v, DictV):
            return ("dict", tuple((structural(kk), structural(vv)) for kk, vv in v.d.items()))
        if isinstance(v, Tup):
            return (v.kind, tuple(structural(i) for i in v.items))
        if isinstance(v, sp.Basic) and v.is_number:
            return ("int", int(v)) if v.is_Integer else ("float", sp.srepr(v))
        if isinstance(v, float):
            return ("float", repr(v))
        return ("key", skey(v))
    v = a[0]
    if isinstance(v, str):
        return repr(v)
    return "repr:" + repr(structural(v))


def lib_copy(ev, a, k, n, mod):
    x = a[0]
    if isinstance(x, ArrV):
        return ArrV(x.batch, x.shape, x.fill, dict(x.cells), x.sym_of)
    if isinstance(x, Tup) and x.kind == "list":
        return Tup(list(x.items), "list")
    return x


def _order_kw(ev, k, n, mod, default):
    o = k.get("order", default)
    o = o if isinstance(o, str) else default
    if o not in ("C", "K", "A", "F"):
        raise ev.err(f"copy with order {o!r}", n, mod)
    return o


def lib_np_copy(ev, a, k, n, mod):
    """numpy.copy(x, order='K'): the copy keeps the memory layout of x unless order='C' is asked for"""
    out = lib_copy(ev, a, {}, n, mod)
    o = _order_kw(ev, k, n, mod, "K")
    if isinstance(out, ArrV):
        out.c_order = True if o == "C" else (bool(getattr(a[0], "c_order", False)) if o in ("K", "A") else False)
    return out


lib_np_copy.kw = {"order", "subok"}


def lib_method_copy(ev, a, k, n, mod):
    """x.copy(order='C'): a fresh C-contiguous array by default"""
    out = lib_copy(ev, a, {}, n, mod)
    o = _order_kw(ev, k, n, mod, "C")
    if isinstance(out, ArrV):
        out.c_order = True if o == "C" else (bool(getattr(a[0], "c_order", False)) if o in ("K", "A") else False)
    return out


lib_method_copy.kw = {"order"}


def lib_where(ev, a, k, n, mod):
    if len(a) == 1 and isinstance(a[0], CondV):
        return WhereV(a[0])
    raise ev.err("numpy.where with unsupported arguments", n, mod)


def lib_gradient(ev, a, k, n, mod):
    return GRAD(as_sym(a[0]))


def lib_quantity(ev, a, k, n, mod):
    val = a[0] if isinstance(a[0], ArrV) else as_sym(a[0])        # a small array of magnitudes: one unit for all of them
    unit = a[1] if len(a) > 1 else k.get("units")
    if isinstance(unit, str):
        unit = UnitV(U.parse_unit_string(unit))
    if not isinstance(unit, UnitV):
        raise ev.err("Quantity() without a resolvable unit", n, mod)
    return QtyV(val, unit.expr)


def lib_qty_to(ev, a, k, n, mod):
    q, unit = a[0], a[1]
    if isinstance(unit, str):
        unit = UnitV(U.parse_unit_string(unit))
    if not isinstance(unit, UnitV):
        raise ev.err(".to() without a resolvable unit", n, mod)
    if isinstance(q.val, ArrV):
        return QtyV(ev.arr_binop(ast.Mult(), q.val, q.unit / unit.expr, n, mod), unit.expr)
    return QtyV(q.val * q.unit / unit.expr, unit.expr)


def lib_isinstance(ev, a, k, n, mod):
    v, t = a
    tn = t.name if isinstance(t, LibV) else (t.ref if isinstance(t, ClsV) else None)
    if tn == "builtins.tuple":
        return isinstance(v, Tup) and v.kind == "tuple"
    if tn == "builtins.str":
        return isinstance(v, str)
    if tn == "builtins.dict":
        return isinstance(v, DictV)
    if isinstance(t, ClsV):
        return isinstance(v, Obj) and not v.cls.startswith("ext:") and t.ref in ev.model.mro(v.cls)
    if tn in ("builtins.int", "builtins.float"):
        if isinstance(v, bool):
            return tn == "builtins.int"         # bool is a subclass of int
        return is_sym(v) and bool(v.is_number)
    if tn == "builtins.bool":
        return isinstance(v, bool)
    if tn in ("numbers.Number", "numbers.Complex", "numbers.Real", "numbers.Rational", "numbers.Integral"):
        # the numeric tower: bool < int < Integral < Rational < Real < Complex < Number; float is Real
        if isinstance(v, bool):
            return True
        if is_sym(v) and v.is_number:
            return bool(v.is_Integer) if tn in ("numbers.Integral", "numbers.Rational") else True
        return False
    if isinstance(t, Tup):
        return any(lib_isinstance(ev, [v, tt], k, n, mod) for tt in t.items)
    if tn == "builtins.list":
        return isinstance(v, Tup) and v.kind == "list"
    raise ev.err("isinstance() on an unsupported type", n, mod)


def lib_sum(ev, a, k, n, mod):
    items = ev.iterate(a[0], n, mod)
    r = as_sym(a[1]) if len(a) > 1 else sp.Integer(0)
    for i in items:
        r = r + as_sym(i)
    return r


def lib_dict_items(ev, a, k, n, mod):
    return Tup([Tup([kk, vv]) for kk, vv in a[0].d.items()], "list")


def lib_dict_keys(ev, a, k, n, mod):
    t = Tup(list(a[0].d.keys()), "list")
    t.keys_view = True          # a dict view: supports the set operators
    return t


def lib_dict_values(ev, a, k, n, mod):
    return Tup(list(a[0].d.values()), "list")


def lib_dict_get(ev, a, k, n, mod):
    d, key = a[0], a[1]
    if d.d.membership(key) is None:
        raise ev.err("dict.get with a key built from data that may or may not equal a stored key", n, mod)
    return d.d.get(key, a[2] if len(a) > 2 else None)


def lib_option_context(ev, a, k, n, mod):
    """pandas.option_context(name, value, ...): options set for the duration of a with-block and restored afterwards.  Display options change how numbers are PRINTED
    (precision, width), which the value rules do not decide; any other option is not modelled"""
    names = [x for x in a[0::2]]
    if not names or not all(isinstance(x, str) and x.startswith("display.") for x in names):
        raise ev.err("pandas.option_context with options other than display.*", n, mod)
    return Opaque("pandas.option_context(display options)")


def lib_numarr_reduce(name):
    """any / all / argmax / argmin of a small array of plain numbers (axis=None: over all entries; axis=k: along that axis)"""
    def f(ev, a, k, n, mod):
        x = a[0]
        axis = k.get("axis", a[1] if len(a) > 1 else None)
        def red(vals):
            if name == "any":
                return any(c != 0 for c in vals)
            if name == "all":
                return all(c != 0 for c in vals)
            best = (max if name == "argmax" else min)(vals)
            return sp.Integer(vals.index(best))
        if axis is None:
            return red([x.get(key) for key in itertools.product(*[range(d) for d in x.shape])])
        ax = _const_int(axis) % len(x.shape)
        rest = [d for i_, d in enumerate(x.shape) if i_ != ax]
        out = ArrV(0, tuple(rest))
        for key in itertools.product(*[range(d) for d in rest]):
            lane = [x.get(key[:ax] + (j,) + key[ax:]) for j in range(x.shape[ax])]
            r = red(lane)
            out.cells[key] = (sp.true if r else sp.false) if isinstance(r, bool) else r
        if name in ("any", "all"):
            out.is_cond = True
        return out
    f.kw = {"axis"}
    return f


def lib_id(ev, a, k, n, mod):
    """id(x): the address of the object - a value of which only 'same object, same address' is known"""
    return OpaqueToken("id", a[0])


def lib_np_shape(ev, a, k, n, mod):
    return ev.get_attr(a[0], "shape", n, mod)


class AttrsView:
    """vars(obj): the instance dictionary itself - reads and writes go to the object's attributes"""

    def __init__(self, obj):
        self.obj = obj

    def sym_getattr(self, ev, name, node, mod):
        if name in ("setdefault", "get", "pop", "update", "keys", "items", "values"):
            return BoundLib("vars." + name, self)
        raise ev.err(f"attribute {name} of vars(object)", node, mod)

    def sym_subscript(self, ev, idx, n, mod):
        if isinstance(idx, str) and idx in self.obj.attrs:
            return self.obj.attrs[idx]
        if isinstance(idx, str):
            raise RaisedV("KeyError")
        raise ev.err("vars(object)[non-constant]", n, mod)

    def sym_contains(self, ev, item, n, mod):
        if not isinstance(item, str):
            raise ev.err("membership of a non-constant in vars(object)", n, mod)
        return item in self.obj.attrs


def lib_vars(ev, a, k, n, mod):
    if len(a) == 1 and isinstance(a[0], Obj) and not a[0].cls.startswith("ext:"):
        return AttrsView(a[0])
    raise ev.err("vars() of something that is not an instance of a repository class", n, mod)


def lib_vars_setdefault(ev, a, k, n, mod):
    view, name = a[0], a[1]
    if not isinstance(name, str):
        raise ev.err("vars(object).setdefault with a non-constant name", n, mod)
    if name not in view.obj.attrs:
        view.obj.attrs[name] = a[2] if len(a) > 2 else None
    return view.obj.attrs[name]


def lib_vars_get(ev, a, k, n, mod):
    view, name = a[0], a[1]
    if not isinstance(name, str):
        raise ev.err("vars(object).get with a non-constant name", n, mod)
    return view.obj.attrs.get(name, a[2] if len(a) > 2 else None)


def lib_abs(ev, a, k, n, mod):
    r = _cellwise(sp.Abs, ev, a, n, mod)
    return sp.Abs(as_sym(a[0])) if r is None else r


LIB = {
    "numpy.exp": lib_exp, "numpy.expm1": lib_expm1, "numpy.log": lib_log, "numpy.sqrt": lib_sqrt,
    "math.exp": lib_exp, "math.sqrt": lib_sqrt, "math.log": lib_log, "math.expm1": lib_expm1,
    "numpy.prod": lib_prod, "numpy.array": lib_array, "numpy.asarray": lib_array, "numpy.copy": lib_np_copy,
    "ndarray.copy": lib_method_copy, "ndarray.to_numpy": lib_copy,
    "numpy.where": lib_where, "numpy.gradient": lib_gradient, "numpy.abs": lib_abs, "abs": lib_abs,
    "len": lib_len, "range": lib_range, "tuple": lib_tuple, "list": lib_list, "sorted": lib_sorted,
    "zip": lib_zip, "itertools.product": lib_product, "itertools.permutations": lib_permutations,
    "set": lib_set, "int": lib_int, "float": lib_float, "str": lib_str, "repr": lib_repr, "sum": lib_sum, "id": lib_id, "vars": lib_vars,
    "numarr.any": lib_numarr_reduce("any"), "numarr.all": lib_numarr_reduce("all"), "numarr.argmax": lib_numarr_reduce("argmax"), "numarr.argmin": lib_numarr_reduce("argmin"),
    "vars.setdefault": lib_vars_setdefault, "vars.get": lib_vars_get, "numpy.shape": lib_np_shape, "pandas.option_context": lib_option_context,
    "isinstance": lib_isinstance,
    "pint.Quantity": lib_quantity, "pint.Quantity.to": lib_qty_to,
    "dict.items": lib_dict_items, "dict.keys": lib_dict_keys, "dict.values": lib_dict_values, "dict.get": lib_dict_get,
}


# ---------------------------------------------------------------- standard seeds for cij
def convert_unit_intrinsic(ev, args, kwargs):
    names = ["unit_from", "unit_to", "value"]
    vals = dict(zip(names, args))
    vals.update(kwargs)

    def unit(v):
        if isinstance(v, str):
            return U.parse_unit_string(v)
        if isinstance(v, UnitV):
            return v.expr
        raise AnalysisError(f"convert_unit with an unresolvable unit {v!r}")

    factor = unit(vals["unit_from"]) / unit(vals["unit_to"])
    if vals.get("value") is None:
        return ConvV(factor)
    return as_sym(vals["value"]) * factor


def standard_seeds():
    return {("global", "cij.util.units:units"): UnitReg()}


def standard_intrinsics():
    return {}


# ---------------------------------------------------------------- arrays, regex, getattr
def _shape_items(ev, v, n, mod):
    items = ev.iterate(v, n, mod) if isinstance(v, Tup) else [v]
    const = []
    for i in reversed(items):
        if is_sym(i) and i.is_Integer:
            const.insert(0, int(i))
        else:
            break
    return len(items) - len(const), const


def _is_bool_dtype(v):
    return v is not None and ("bool" in repr(v).lower())


def _is_float_like_dtype(v):
    return v is None or _is_bool_dtype(v) or any(t in repr(v).lower() for t in ("float", "double", "complex"))


def _leading_stack(ev, shape, n, mod):
    """(k, rest) when the shape is (k, <at least one grid dimension>, ...) with a constant k in FRONT of the grid axes; else None"""
    items = ev.iterate(shape, n, mod) if isinstance(shape, Tup) else [shape]
    if len(items) >= 2 and is_sym(items[0]) and items[0].is_Integer and 1 <= int(items[0]) <= 12 and is_sym(items[1]) and not as_sym(items[1]).is_number:
        return int(items[0]), Tup(list(items[1:]), "tuple")
    return None


def lib_zeros(ev, a, k, n, mod):
    st = _leading_stack(ev, a[0], n, mod)
    if st is not None:
        return StackV([lib_zeros(ev, [st[1]] + list(a[1:]), k, n, mod) for _ in range(st[0])])
    batch, const = _shape_items(ev, a[0], n, mod)
    dt = k.get("dtype", a[1] if len(a) > 1 else None)
    if not _is_float_like_dtype(dt):
        raise ev.err("numpy.zeros with a non-floating dtype is not modelled", n, mod)
    fill = sp.false if _is_bool_dtype(dt) else sp.Integer(0)
    if not const:
        return False if _is_bool_dtype(dt) else sp.Integer(0)
    out = ArrV(batch, const, fill)
    if _is_bool_dtype(dt):
        out.is_cond = True
    if batch and isinstance(a[0], Tup):
        out.grid_dims = list(a[0].items[:batch])         # the lengths of the grid axes as the code wrote them (sizes, block loops)
    out.c_order = True
    return out


lib_zeros.kw = {"dtype"}


UNINIT = sp.Symbol("UNINITIALISED_MEMORY")


def lib_empty(ev, a, k, n, mod):
    """numpy.empty: whatever the allocator hands out - every cell that is not written later stays UNINITIALISED_MEMORY"""
    st = _leading_stack(ev, a[0], n, mod)
    if st is not None:
        members = [lib_empty(ev, [st[1]] + list(a[1:]), k, n, mod) for _ in range(st[0])]
        if all(isinstance(m_, ArrV) for m_ in members):
            return StackV(members)
    batch, const = _shape_items(ev, a[0], n, mod)
    if not const:
        return UNINIT
    out_ = ArrV(batch, const, UNINIT)
    out_.c_order = True
    return out_


def lib_empty_like(ev, a, k, n, mod):
    x = a[0]
    if isinstance(x, ArrV):
        return ArrV(x.batch, x.shape, UNINIT)
    return UNINIT


def lib_ones(ev, a, k, n, mod):
    batch, const = _shape_items(ev, a[0], n, mod)
    dt = k.get("dtype", a[1] if len(a) > 1 else None)
    if not _is_float_like_dtype(dt):
        raise ev.err("numpy.ones with a non-floating dtype is not modelled", n, mod)
    fill = sp.true if _is_bool_dtype(dt) else sp.Integer(1)
    if not const:
        return True if _is_bool_dtype(dt) else sp.Integer(1)
    out = ArrV(batch, const, fill)
    if _is_bool_dtype(dt):
        out.is_cond = True
    return out


lib_ones.kw = {"dtype"}


INV_COUNTER = [0]


def lib_inv(ev, a, k, n, mod):
    m = a[0]
    if not isinstance(m, ArrV) or len(m.shape) != 2 or m.shape[0] != m.shape[1]:
        raise ev.err("numpy.linalg.inv of something that is not a (..., n, n) array", n, mod)
    size = m.shape[0]
    if all(sp.sympify(m.get((i, j))).is_number for i in range(size) for j in range(size)):
        M = sp.Matrix(size, size, lambda i, j: m.get((i, j)))
        if M.det() == 0:
            raise RaisedV("numpy.linalg.LinAlgError")
        Mi = M.inv()
        out = ArrV(m.batch, m.shape, sp.Integer(0), sym_of=m)
        for i in range(size):
            for j in range(size):
                out.cells[(i, j)] = Mi[i, j]
        if getattr(m, "selected_by", None) is not None:
            out.selected_by = m.selected_by
        ev.__dict__.setdefault("inversions", []).append(out)
        return out
    symmetric = all(sp.simplify(m.get((i, j)) - m.get((j, i))) == 0 for i in range(size) for j in range(i))
    INV_COUNTER[0] += 1
    tag = INV_COUNTER[0]
    out = ArrV(m.batch, m.shape, sp.Integer(0), sym_of=m)
    for i in range(size):
        for j in range(size):
            a_, b_ = (min(i, j), max(i, j)) if symmetric else (i, j)
            out.cells[(i, j)] = sp.Symbol(f"INV{tag}_{a_}_{b_}", real=True)
    out.symmetric = symmetric
    out.tag = tag
    if getattr(m, "selected_by", None) is not None:
        out.selected_by = m.selected_by
    ev.__dict__.setdefault("inversions", []).append(out)
    return out


def _grid_mask_of_matrices(c) -> bool:
    """a condition built only from the sign / log-determinant symbols of slogdet: one truth value per grid point"""
    if isinstance(c, CondV) and c.op == "and":
        return _grid_mask_of_matrices(c.lhs) and _grid_mask_of_matrices(c.rhs)
    return isinstance(c, CondV) and is_sym(c.lhs) and is_sym(c.rhs) and bool(as_sym(c.lhs).free_symbols | as_sym(c.rhs).free_symbols) \
        and all(str(x).startswith("SLOGDET_") for x in (as_sym(c.lhs).free_symbols | as_sym(c.rhs).free_symbols))


def lib_slogdet(ev, a, k, n, mod):
    """numpy.linalg.slogdet(m) -> (sign, log|det|) per matrix: two symbols tied to the matrix"""
    m = a[0]
    if not isinstance(m, ArrV) or len(m.shape) != 2 or m.shape[0] != m.shape[1]:
        raise ev.err("numpy.linalg.slogdet of something that is not a (..., n, n) array", n, mod)
    SLOGDET_COUNTER[0] += 1
    tag = SLOGDET_COUNTER[0]
    ev.__dict__.setdefault("slogdets", {})[tag] = m
    return Tup([sp.Symbol(f"SLOGDET_SIGN_{tag}", real=True), sp.Symbol(f"SLOGDET_LOG_{tag}", real=True)], "tuple")


lib_slogdet.kw = set()


def lib_finfo(ev, a, k, n, mod):
    t = a[0] if a else k.get("dtype")
    name = getattr(t, "name", t)
    if name not in ("builtins.float", "numpy.float64", "numpy.double", "float", "float64", "d", "f8"):
        raise ev.err(f"numpy.finfo of {t!r} is not modelled", n, mod)
    return FInfoV()


def lib_full_like(ev, a, k, n, mod):
    x = a[0]
    val = a[1] if len(a) > 1 else k.get("fill_value")
    if getattr(val, "name", None) in ("numpy.nan", "math.nan", "numpy.NaN"):
        val = sp.nan
    if set(k) - {"fill_value"} or not is_sym(val) or not isinstance(x, ArrV):
        raise ev.err("numpy.full_like: only (array, scalar) is modelled", n, mod)
    return ArrV(x.batch, x.shape, as_sym(val))


def lib_pinv(ev, a, k, n, mod):
    """Moore-Penrose pseudo-inverse: with numpy's default cut-off (machine precision x size) it is the inverse of every matrix
    numpy.linalg.inv would invert; with an explicit cut-off the singular values below cut-off x the largest are dropped, the
    result is then marked `truncated` (it is the inverse only for well-conditioned matrices)"""
    cut = k.get("rcond", k.get("rtol", a[1] if len(a) > 1 else None))
    herm = k.get("hermitian", a[2] if len(a) > 2 else False)
    if not isinstance(herm, bool):
        raise ev.err("numpy.linalg.pinv with a non-constant hermitian flag", n, mod)
    m = a[0]
    if herm and isinstance(m, ArrV) and len(m.shape) == 2:
        bad = [(i, j, m.get((i, j)), m.get((j, i))) for i in range(m.shape[0]) for j in range(i) 
               if as_sym(m.get((i, j))) != as_sym(m.get((j, i))) and sp.simplify(as_sym(m.get((i, j))) - sp.conjugate(as_sym(m.get((j, i))))) != 0]   # equal entries: data symbols stand for real numbers
        if bad:
            raise ev.err(f"numpy.linalg.pinv(hermitian=True) of a matrix that is not symmetric: entries {bad[0]}", n, mod)
    out = lib_inv(ev, a[:1], {}, n, mod)
    if cut is not None:
        if not (is_sym(cut) and cut.is_number):
            raise ev.err("numpy.linalg.pinv with a non-constant cut-off", n, mod)
        if cut > sp.Rational(1, 10 ** 12):
            out.truncated = cut
    return out


lib_pinv.kw = {"rcond", "rtol", "hermitian"}
LIB_LATE = {"numpy.linalg.slogdet": lib_slogdet, "numpy.finfo": lib_finfo, "numpy.full_like": lib_full_like}


def lib_allclose_unknown(ev, a, k, n, mod):
    x = a[0]
    if is_sym(x) and x.is_number and is_sym(a[1]) and a[1].is_number:
        rtol = k.get("rtol", a[2] if len(a) > 2 else sp.Rational(1, 10 ** 5))
        atol = k.get("atol", a[3] if len(a) > 3 else sp.Rational(1, 10 ** 8))
        if is_sym(rtol) and rtol.is_number and is_sym(atol) and atol.is_number:
            return bool(sp.Abs(x - a[1]) <= atol + rtol * sp.Abs(a[1]))          # numpy's own test, on exact numbers
        return bool(x == a[1])
    # a symbolic array is assumed not to vanish identically (a vanishing one is merely skipped)
    return False


def lib_re_search(ev, a, k, n, mod):
    import re
    pat, text = a[0], a[1]
    if not isinstance(pat, str) or not isinstance(text, str):
        raise ev.err("re.search on non-constant arguments", n, mod)
    m = re.search(pat, text)
    return MatchV(m) if m else None


class RegexV:
    """a compiled pattern (constant)"""

    def __init__(self, pat, flags=0):
        self.pat, self.flags = pat, flags
        self.const_key = ("regex", pat, flags)

    def sym_getattr(self, ev, name, node, mod):
        if name in ("search", "match", "fullmatch", "sub", "findall", "split"):
            return BoundLib(f"regex.{name}", self)
        if name == "pattern":
            return self.pat
        raise ev.err(f"regex attribute {name}", node, mod)


def _re_flags(v):
    if v is None:
        return 0
    if is_sym(v) and v.is_Integer:
        return int(v)
    name = getattr(v, "name", "")
    import re
    if name.startswith("re.") and hasattr(re, name[3:]):
        return int(getattr(re, name[3:]))
    raise AnalysisError(f"regex flags {v!r} are not modelled")


def lib_re_compile(ev, a, k, n, mod):
    if not isinstance(a[0], str):
        raise ev.err("re.compile of a non-constant pattern", n, mod)
    return RegexV(a[0], _re_flags(a[1] if len(a) > 1 else k.get("flags")))


lib_re_compile.kw = {"flags"}


def lib_regex_method(name):
    def f(ev, a, k, n, mod):
        import re
        rx = a[0]
        if isinstance(rx, str):                      # module-level re.<name>(pattern, string, ...)
            rx = RegexV(rx, _re_flags(k.get("flags")))
        rest = a[1:]
        if not all(isinstance(x, str) for x in rest[:2 if name == "sub" else 1]):
            raise ev.err(f"regex {name} on a non-constant string", n, mod)
        c = re.compile(rx.pat, rx.flags)
        if name in ("search", "match", "fullmatch"):
            m = getattr(c, name)(rest[0])
            return MatchV(m) if m else None
        if name == "sub":
            return c.sub(rest[0], rest[1])
        if name == "findall":
            r = c.findall(rest[0])
            return Tup([Tup(list(x)) if isinstance(x, tuple) else x for x in r], "list")
        if name == "split":
            return Tup(c.split(rest[0]), "list")
        raise ev.err(f"regex method {name}", n, mod)
    f.kw = {"flags"}
    return f


class PartialV:
    """functools.partial(f, *args, **kwargs)"""

    def __init__(self, f, args, kwargs):
        self.f, self.args, self.kwargs = f, list(args), dict(kwargs)

    def sym_call(self, ev, args, kwargs, n, mod):
        kw = dict(self.kwargs)
        kw.update(kwargs)
        return ev.call(self.f, self.args + list(args), kw, n, mod)


def lib_partial(ev, a, k, n, mod):
    return PartialV(a[0], a[1:], k)


lib_partial.kw = None


class GetterV:
    def __init__(self, kind, names):
        self.kind, self.names = kind, names

    def sym_call(self, ev, args, kwargs, n, mod):
        def one(nm):
            if self.kind == "attr":
                v = args[0]
                for part in nm.split("."):
                    v = ev.get_attr(v, part, n, mod)
                return v
            return ev.subscript(args[0], nm, n, mod)
        vals = [one(nm) for nm in self.names]
        return vals[0] if len(vals) == 1 else Tup(vals)


def lib_attrgetter(ev, a, k, n, mod):
    if not all(isinstance(x, str) for x in a):
        raise ev.err("attrgetter of non-constant names", n, mod)
    return GetterV("attr", list(a))


def lib_itemgetter(ev, a, k, n, mod):
    return GetterV("item", list(a))


def lib_mapping_proxy(ev, a, k, n, mod):
    if not isinstance(a[0], DictV):
        raise ev.err("MappingProxyType of something that is not a dict", n, mod)
    out = DictV()
    out.d.update(a[0].d)
    out.readonly = True
    return out


def lib_frozenset(ev, a, k, n, mod):
    if not a:
        return Tup([], "set")
    items = []
    seen = set()
    for v in ev.iterate(a[0], n, mod):
        h = hkey(v)
        if h not in seen:
            seen.add(h)
            items.append(v)
    return Tup(items, "set")


class NullContext:
    """a context manager without effect on values (numpy.errstate, warnings.catch_warnings, contextlib.nullcontext/suppress)"""

    def sym_getattr(self, ev, name, node, mod):
        return BoundLib("identity_method", self)


def lib_nullcontext(ev, a, k, n, mod):
    return NullContext()


lib_nullcontext.kw = None


def lib_np_round(ev, a, k, n, mod):
    dec = a[1] if len(a) > 1 else k.get("decimals", sp.Integer(0))
    dec = _const_int(dec)

    def one(v):
        v = as_sym(v)
        if v.is_integer:
            return v
        if v.is_Rational:
            q = sp.Rational(round(v * 10 ** dec), 10 ** dec)
            return q
        return sp.Function(f"ROUND{dec}")(v) if dec else sp.Function("ROUND")(v)
    x = a[0]
    if isinstance(x, Tup) and x.items and all(is_sym(i) for i in x.items):
        # numpy.round of a sequence of (grid) vectors is an array: one constant axis over the items
        out = ArrV(1, (len(x.items),), batch_last=True)
        out.cells = {(i,): one(v) for i, v in enumerate(x.items)}
        return out
    if isinstance(x, Tup):
        return Tup([one(i) for i in x.items], x.kind)
    if isinstance(x, ArrV):
        out = ArrV(x.batch, x.shape, one(x.fill))
        out.cells = {kk: one(v) for kk, v in x.cells.items()}
        return out
    return one(x)


lib_np_round.kw = {"decimals"}


def lib_nt_replace(ev, a, k, n, mod):
    src_ = a[0]
    bad = [kk for kk in k if kk not in src_.attrs["__fields__"]]
    if bad:
        raise RaisedV("ValueError")
    out = Obj(src_.cls, dict(src_.attrs), getattr(src_, "label", None))
    for kk, v in k.items():
        out.attrs[kk] = v
    return out


lib_nt_replace.kw = None


def _qha_unit(tok):
    """unit tokens of qha.unit_conversion function names"""
    table = {"j": "J", "ev": "eV", "ry": "Ry", "gpa": "GPa", "megabar": "Mbar", "b3": "bohr^3", "a3": "angstrom^3", "ry_b3": "Ry/bohr^3",
             "ev_a3": "eV/angstrom^3", "ev_b3": "eV/bohr^3", "ry_a3": "Ry/angstrom^3"}
    if tok not in table:
        return None
    try:
        return U.parse_unit_string(table[tok])
    except Exception:
        return None


def lib_qha_convert(name):
    """qha.unit_conversion.<a>_to_<b>(value): a number of units a -> the same quantity as a number of units b"""
    src_, _, dst = name.partition("_to_")
    ua, ub = _qha_unit(src_), _qha_unit(dst)

    def f(ev, a, k, n, mod):
        if ua is None or ub is None:
            raise ev.err(f"qha.unit_conversion.{name}: unit not in T-UNITS", n, mod)
        return as_sym(a[0]) * ua / ub
    return f


def lib_resource_filename(ev, a, k, n, mod):
    """pkg_resources.resource_filename(package, name): a path inside the installed package"""
    from .fsmodel import PathV
    if not (isinstance(a[0], str) and a[0].split(".")[0] == "cij" and isinstance(a[1], str)):
        raise ev.err("resource_filename of a non-constant package / name", n, mod)
    sub = a[0].split(".")[2:] if a[0].startswith("cij.data") else None
    if sub is None:
        raise ev.err(f"resource_filename inside package {a[0]} (only cij.data is modelled)", n, mod)
    return PathV("/".join(sub + [a[1]]), "packaged")


def lib_getattr(ev, a, k, n, mod):
    if isinstance(a[1], (Obj, Tup, DictV, ArrV)) or (is_sym(a[1]) and not isinstance(a[1], bool)):
        raise RaisedV("TypeError", f"{mod.rel}:{getattr(n, 'lineno', 0)}" if mod else "")      # getattr(): attribute name must be string
    if not isinstance(a[1], str):
        raise ev.err("getattr with a non-constant name", n, mod)
    try:
        return ev.get_attr(a[0], a[1], n, mod)
    except RaisedV:
        raise
    except AnalysisError:
        if len(a) > 2:
            return a[2]
        raise


def lib_match_group(ev, a, k, n, mod):
    m = a[0].m
    return m.group(*[_const_int(x) for x in a[1:]])


def lib_match_groups(ev, a, k, n, mod):
    return Tup(list(a[0].m.groups()))


LIB.update({
    "match.group": lib_match_group, "match.groups": lib_match_groups,
    "numpy.zeros": lib_zeros, "numpy.ones": lib_ones, "numpy.linalg.inv": lib_inv, "numpy.linalg.pinv": lib_pinv,
    "numpy.allclose": lib_allclose_unknown, "re.search": lib_regex_method("search"), "re.match": lib_regex_method("match"),
    "re.fullmatch": lib_regex_method("fullmatch"), "re.sub": lib_regex_method("sub"), "re.findall": lib_regex_method("findall"), "re.split": lib_regex_method("split"),
    "re.compile": lib_re_compile, "regex.search": lib_regex_method("search"), "regex.match": lib_regex_method("match"),
    "regex.fullmatch": lib_regex_method("fullmatch"), "regex.sub": lib_regex_method("sub"), "regex.findall": lib_regex_method("findall"), "regex.split": lib_regex_method("split"),
    "pkg_resources.resource_filename": lib_resource_filename, "namedtuple._replace": lib_nt_replace, "functools.partial": lib_partial, "operator.attrgetter": lib_attrgetter, "operator.itemgetter": lib_itemgetter,
    "types.MappingProxyType": lib_mapping_proxy, "frozenset": lib_frozenset,
    "numpy.errstate": lib_nullcontext, "warnings.catch_warnings": lib_nullcontext, "contextlib.nullcontext": lib_nullcontext,
    "numpy.round": lib_np_round, "numpy.around": lib_np_round, "numpy.round_": lib_np_round, "ndarray.round": lib_np_round,
    "getattr": lib_getattr,
})


def lib_type(ev, a, k, n, mod):
    v = a[0]
    if isinstance(v, bool):
        return LibV("builtins.bool")
    if isinstance(v, str):
        return LibV("builtins.str")
    if is_sym(v) and v.is_Integer:
        return LibV("builtins.int")
    if is_sym(v) and v.is_Rational:
        return LibV("builtins.float")
    if isinstance(v, Tup):
        return LibV("builtins." + ("tuple" if v.kind == "tuple" else v.kind))
    if v is None:
        return LibV("builtins.NoneType")
    raise ev.err("type() of a non-constant", n, mod)


def lib_dict(ev, a, k, n, mod):
    d = DictV()
    if a:
        src_ = a[0]
        if isinstance(src_, DictV):
            d.d.update(src_.d)
        else:
            for it in ev.iterate(src_, n, mod):
                kk, vv = ev.iterate(it, n, mod)
                d.d[kk] = vv
    for kk, vv in k.items():
        d.d[kk] = vv
    return d


LIB.update({"type": lib_type, "dict": lib_dict})


def _minmax(fn):
    def f(ev, a, k, n, mod):
        items = ev.iterate(a[0], n, mod) if len(a) == 1 else list(a)
        if all(is_sym(i) and i.is_number for i in items):
            return fn(items)
        if all(is_sym(i) for i in items):
            return (sp.Max if fn is max else sp.Min)(*items)
        raise ev.err("min()/max() of non-constants", n, mod)
    return f


LIB.update({"min": _minmax(min), "max": _minmax(max)})


def lib_str_method(name):
    def f(ev, a, k, n, mod):
        s_, rest = a[0], a[1:]
        args = []
        for x in rest:
            if isinstance(x, Tup):
                x = [i if isinstance(i, str) else (int(i) if is_sym(i) and i.is_Integer else i) for i in x.items]
                if name == "startswith" or name == "endswith":
                    x = tuple(x)
            elif is_sym(x) and x.is_Integer:
                x = int(x)
            elif not isinstance(x, (str, int)) and x is not None:
                raise ev.err(f"str.{name} with a non-constant argument", n, mod)
            args.append(x)
        if name == "format" and (k or any(not isinstance(x, (str, int)) for x in args)):
            kw = {}
            for kk, vv in k.items():
                if is_sym(vv) and vv.is_Integer:
                    vv = int(vv)
                if not isinstance(vv, (str, int)):
                    raise ev.err("str.format with a non-constant argument", n, mod)
                kw[kk] = vv
            return s_.format(*args, **kw)
        try:
            r = getattr(s_, name)(*args)
        except ValueError:
            raise RaisedV("ValueError", f"{mod.rel}:{getattr(n, 'lineno', 0)}" if mod else "")       # 'substring not found' of str.index on a constant string
        if isinstance(r, list):
            return Tup(r, "list")
        if isinstance(r, tuple):
            return Tup(list(r), "tuple")
        if isinstance(r, int) and not isinstance(r, bool):
            return sp.Integer(r)
        return r
    return f


for _m in STR_METHODS:
    LIB[f"str.{_m}"] = lib_str_method(_m)
    LIB[f"str.{_m}"].kw = None


def lib_list_append(ev, a, k, n, mod):
    a[0].items.append(a[1])
    return None


def lib_list_extend(ev, a, k, n, mod):
    a[0].items.extend(ev.iterate(a[1], n, mod))
    return None


lib_list_extend.kw = set()


def lib_np_pad(ev, a, k, n, mod):
    """numpy.pad(x, w, mode='edge') of a vector with one constant axis (w: int or (before, after))"""
    x = a[0]
    width = a[1] if len(a) > 1 else k.get("pad_width")
    mode = k.get("mode", a[2] if len(a) > 2 else "constant")
    stat_whole = False
    if mode in ("median", "mean", "maximum", "minimum") and not (set(k) - {"pad_width", "mode", "stat_length"}):
        # a statistic of the `stat_length` outermost values: of ONE value it is that value (mode='edge'); of the whole vector (the default, None) it is not
        sl = k.get("stat_length")
        if isinstance(sl, Tup):
            sl = sl.items
            while len(sl) == 1 and isinstance(sl[0], Tup):
                sl = sl[0].items
            sl = None if any(v is None for v in sl) else {_const_int(v) for v in sl}
        elif sl is not None:
            sl = {_const_int(sl)}
        if sl == {1}:
            mode = "edge"
        elif sl is None:
            stat_whole, mode = mode, "edge"
        else:
            raise ev.err("numpy.pad: a statistic of more than one but not all values is not modelled", n, mod)
        k = {kk: vv for kk, vv in k.items() if kk != "stat_length"}
    if set(k) - {"pad_width", "mode"} or mode != "edge":
        raise ev.err("numpy.pad: only mode='edge' (or a statistic mode) is modelled", n, mod)
    if stat_whole:
        if is_sym(x):
            return sp.Function(f"padded_with_{stat_whole}_of_all")(as_sym(x))
        raise ev.err("numpy.pad: statistic of the whole vector for this operand is not modelled", n, mod)
    if isinstance(width, Tup) and width.items and all(isinstance(w, Tup) for w in width.items):
        # per-axis widths: modelled when only the (single) grid axis of a (grid, k) array is padded by (1, 1)
        per = [[_const_int(v) for v in w.items] for w in width.items]
        if isinstance(x, ArrV) and x.batch == 1 and not x.batch_last and len(per) == 1 + len(x.shape) and per[0] == [1, 1] and all(p_ == [0, 0] for p_ in per[1:]):
            out = ArrV(x.batch, x.shape, edge_padded(as_sym(x.fill)) if as_sym(x.fill) != 0 else x.fill)
            out.cells = {kk: edge_padded(as_sym(c)) for kk, c in x.cells.items()}
            return out
        raise ev.err("numpy.pad: these per-axis widths are not modelled", n, mod)
    if isinstance(width, Tup):
        ws = [_const_int(w) for w in width.items]
        if len(ws) != 2:
            raise ev.err("numpy.pad: per-axis widths not modelled", n, mod)
        before, after = ws
    else:
        before = after = _const_int(width)
    if is_sym(x) and before == after == 1:
        return edge_padded(x)
    if isinstance(x, Tup):
        items = list(x.items)
        return Tup([items[0]] * before + items + [items[-1]] * after, "list")
    if isinstance(x, ArrV) and x.batch == 0 and len(x.shape) == 1:
        vals = [x.get((i,)) for i in range(x.shape[0])]
        vals = [vals[0]] * before + vals + [vals[-1]] * after
        return ArrV(0, (len(vals),), cells={(i,): v for i, v in enumerate(vals)})
    raise ev.err("numpy.pad of this operand is not modelled", n, mod)


lib_np_pad.kw = None


def lib_list_index(ev, a, k, n, mod):
    want = hkey(a[1])
    for i, x in enumerate(a[0].items):
        try:
            if hkey(x) == want:
                return sp.Integer(i)
        except AnalysisError:
            continue
    raise RaisedV("ValueError")


def lib_list_tolist(ev, a, k, n, mod):
    return Tup(list(a[0].items), "list")


def lib_next(ev, a, k, n, mod):
    if hasattr(a[0], "sym_next"):
        try:
            return a[0].sym_next(ev)
        except RaisedV as e:
            if e.exc_name == "StopIteration" and len(a) > 1:
                return a[1]
            raise
    if isinstance(a[0], Tup) and getattr(a[0], "gen", False):
        if a[0].items:
            return a[0].items.pop(0)
        if len(a) > 1:
            return a[1]
        raise RaisedV("StopIteration")
    items = ev.iterate(a[0], n, mod)
    if items:
        return items[0]
    if len(a) > 1:
        return a[1]
    raise RaisedV("StopIteration")


def _bool_reduce(ev, v, k, n, mod, how):
    """any/all of a boolean small array (cells sp.true / sp.false), optionally along one constant axis"""
    axis = k.get("axis")
    cells = {key: v.get(key) for key in itertools.product(*[range(d) for d in v.shape])}
    if not all(c is sp.true or c is sp.false or c in (True, False) for c in cells.values()):
        raise ev.err(f"{how}() of an array whose elements are not known truth values", n, mod)
    red = any if how == "any" else all
    if axis is None:
        return red(bool(c) for c in cells.values())
    ax = _const_int(axis) % len(v.shape)
    shape = tuple(d for i, d in enumerate(v.shape) if i != ax)
    out = ArrV(v.batch, shape, batch_last=v.batch_last)
    for key in itertools.product(*[range(d) for d in shape]):
        vals = [bool(cells[key[:ax] + (j,) + key[ax:]]) for j in range(v.shape[ax])]
        out.cells[key] = sp.true if red(vals) else sp.false
    out.is_cond = True
    return out


def lib_any(ev, a, k, n, mod):
    v = a[0]
    if isinstance(v, ArrV) and getattr(v, "is_cond", False):
        return _bool_reduce(ev, v, k, n, mod, "any")
    if isinstance(v, bool):
        return v
    if hasattr(v, "sym_any"):
        return v.sym_any(ev, n, mod)
    if isinstance(v, (CondV, TolCond)):
        return v
    if isinstance(v, Tup):
        return any(ev.truth(i, n, mod) for i in v.items)
    raise ev.err("any() of a non-constant", n, mod)


lib_any.kw = {"axis"}


def lib_all(ev, a, k, n, mod):
    if isinstance(a[0], ArrV) and getattr(a[0], "is_cond", False):
        return _bool_reduce(ev, a[0], k, n, mod, "all")
    v = a[0]
    if isinstance(v, bool):
        return v
    if isinstance(v, (CondV, TolCond)):
        return v
    if isinstance(v, Tup):
        return all(ev.truth(i, n, mod) for i in v.items)
    raise ev.err("all() of a non-constant", n, mod)


lib_all.kw = {"axis"}


def lib_enumerate(ev, a, k, n, mod):
    start = _const_int(k.get("start", a[1] if len(a) > 1 else sp.Integer(0)))
    if getattr(a[0], "elementwise_seq", False) and hasattr(a[0], "sym_enumerate") and start == 0:
        return a[0].sym_enumerate(ev, n, mod)        # one summarised iteration: (all-rows index, element)
    return Tup([Tup([sp.Integer(i), x]) for i, x in enumerate(ev.iterate(a[0], n, mod), start)], "list")


lib_enumerate.kw = {"start"}


def lib_astype(ev, a, k, n, mod):
    """x.astype(dtype): identity for a floating dtype; truncation toward zero for an integer dtype; anything else unmodelled"""
    x = a[0]
    dt = a[1] if len(a) > 1 else k.get("dtype")
    if isinstance(dt, CommonDtypeV):
        if any(x is y for y in dt.arrays):
            if not dt.floating and maybe_integer_typed(x):
                raise ev.err("astype to the common type of integer arrays", n, mod)
            return x            # the common type of a set of arrays that includes this one holds every value of it
        e = RaisedV("InputAssumption", ev.here(n, mod))
        e.expected = "a cast to a type that holds the array's own values (the common type of ALL the arrays involved)"
        e.detail = ("an array is cast to the element type of OTHER arrays (numpy.result_type of them): when this one is complex and those are real its imaginary parts are discarded "
                    "(numpy only warns), when it is floating and those are integer its values are truncated")
        raise e
    name = dt if isinstance(dt, str) else getattr(dt, "name", None)
    name = (name or "").replace("builtins.", "").replace("numpy.", "")
    if name in ("float", "float64", "double", "float_", "longdouble", "f8", "d", "complex", "complex128"):
        return x
    if name in ("int", "int64", "int32", "intp", "int_", "i8", "i4", "long", "uint64", "uint32"):
        def one(v):
            v = as_sym(v)
            if v.is_integer:
                return v
            if v.is_number:
                return sp.Integer(int(v))
            return sp.Function("TRUNC")(v)
        if isinstance(x, ArrV):
            out = ArrV(x.batch, x.shape, one(x.fill))
            out.cells = {kk: one(v) for kk, v in x.cells.items()}
            return out
        if isinstance(x, Tup):
            return Tup([one(i) for i in x.items], x.kind)
        return one(x)
    raise ev.err(f"astype({dt!r}) is not modelled", n, mod)


lib_astype.kw = {"dtype", "copy"}
LIB.update({"ndarray.astype": lib_astype, "identity_method": lambda ev, a, k, n, mod: a[0], "list.append": lib_list_append, "list.extend": lib_list_extend, "numpy.pad": lib_np_pad, "list.index": lib_list_index, "list.tolist": lib_list_tolist,
            "list.copy": lib_list_tolist, "next": lib_next, "any": lib_any, "all": lib_all, "numpy.any": lib_any,
            "numpy.all": lib_all, "enumerate": lib_enumerate})


# keywords each transfer function models (anything else is an analysis error, never ignored)
lib_prod.kw = {"axis"}
lib_sorted.kw = {"key", "reverse"}
lib_quantity.kw = {"units"}
lib_allclose_unknown.kw = {"atol", "rtol"}
lib_copy.kw = {"copy"}
lib_getattr.kw = set()


def lib_np_sum(ev, a, k, n, mod):
    x = a[0]
    axis = k.get("axis", a[1] if len(a) > 1 else None)
    keep = k.get("keepdims", False)
    if isinstance(x, ArrV) and axis is not None:
        ax = _const_int(axis) - x.batch if _const_int(axis) >= 0 else len(x.shape) + _const_int(axis)
        if not 0 <= ax < len(x.shape):
            raise ev.err("numpy.sum over a grid axis of an array", n, mod)
        rest = [d for i, d in enumerate(x.shape) if i != ax]
        out_shape = [1 if i == ax else d for i, d in enumerate(x.shape)] if keep else rest
        out = ArrV(x.batch, out_shape)
        for key in itertools.product(*[range(d) for d in rest]):
            tot = sp.Integer(0)
            for j in range(x.shape[ax]):
                full = list(key)
                full.insert(ax, j)
                tot += x.get(tuple(full))
            okey = list(key)
            if keep:
                okey.insert(ax, 0)
            out.cells[tuple(okey)] = tot
        if not out_shape:
            return out.get(())
        return out
    raise ev.err("numpy.sum of this operand is not modelled", n, mod)


lib_np_sum.kw = {"axis", "keepdims"}
LIB["numpy.sum"] = lib_np_sum


def _const_axis(ev, x, axis, n, mod):
    ai = _const_int(axis)
    rank = x.batch + len(x.shape)
    if ai < 0:
        ai += rank
    ax = ai - x.batch
    if not 0 <= ai < rank:
        raise RaisedV("AxisError", f"{mod.rel}:{getattr(n, 'lineno', 0)}" if mod else "")
    if ax < 0:
        raise ev.err("reduction over a grid axis of an array", n, mod)
    return ax


def _weights_list(ev, w, n, mod):
    if isinstance(w, ArrV) and w.batch == 0 and len(w.shape) == 1:
        return [as_sym(w.get((j,))) for j in range(w.shape[0])]
    if isinstance(w, Tup):
        return [as_sym(x) for x in w.items]
    raise ev.err("weights of a mean are not a constant-length vector", n, mod)


def lib_np_average(fallback, allow_weights):
    """numpy.average / numpy.mean of an array with constant trailing axes along one of them (weights: constant-length vector;
    normalised by their sum as numpy does; a length mismatch raises as numpy does)"""
    def f(ev, a, k, n, mod):
        x = a[0]
        if isinstance(x, Tup) and x.items and all(is_sym(i) and not isinstance(i, bool) for i in x.items) and any(as_sym(i).free_symbols for i in x.items):
            # mean over a sequence of whole-array expressions along the new leading axis: their (weighted) mean, elementwise
            axis_ = k.get("axis", a[1] if len(a) > 1 else None)
            if axis_ is not None and _const_int(axis_) == 0 and not (set(k) - {"axis", "weights"}):
                w_ = k.get("weights") if allow_weights else None
                ws_ = [sp.Integer(1)] * len(x.items) if w_ is None else _weights_list(ev, w_, n, mod)
                if len(ws_) != len(x.items):
                    raise RaisedV("ValueError", f"{mod.rel}:{getattr(n, 'lineno', 0)}" if mod else "")
                return sum((w1 * as_sym(i) for w1, i in zip(ws_, x.items)), sp.Integer(0)) / sum(ws_)
        if not isinstance(x, ArrV):
            if fallback is None:
                raise ev.err("mean of this operand is not modelled", n, mod)
            return fallback(ev, a, k, n, mod)
        extra = set(k) - {"axis", "weights"} if allow_weights else set(k) - {"axis"}
        if extra:
            raise ev.err(f"keyword(s) {sorted(extra)} of a mean are not modelled", n, mod)
        axis = k.get("axis", a[1] if len(a) > 1 else None)
        w = k.get("weights", a[2] if len(a) > 2 else None) if allow_weights else None
        if axis is None:
            raise ev.err("mean over all axes of a grid array", n, mod)
        ax = _const_axis(ev, x, axis, n, mod)
        size = x.shape[ax]
        if w is None:
            ws = [sp.Integer(1)] * size
        else:
            ws = _weights_list(ev, w, n, mod)
            if len(ws) != size:
                raise RaisedV("ValueError", f"{mod.rel}:{getattr(n, 'lineno', 0)}" if mod else "")
        rest = [d for i, d in enumerate(x.shape) if i != ax]
        out = ArrV(x.batch, rest)
        den = sum(ws)
        for key in itertools.product(*[range(d) for d in rest]):
            tot = sp.Integer(0)
            for j in range(size):
                full = list(key)
                full.insert(ax, j)
                tot += ws[j] * as_sym(x.get(tuple(full)))
            out.cells[tuple(key)] = tot / den
        return out if rest else out.get(())
    f.kw = None
    return f


def lib_slice(ev, a, k, n, mod):
    vals = [None if v is None else v for v in a]
    if len(vals) == 1:
        return SliceV(None, vals[0], None)
    while len(vals) < 3:
        vals.append(None)
    return SliceV(*vals[:3])


lib_slice.kw = set()


def lib_dict_update(ev, a, k, n, mod):
    d = a[0]
    if len(a) > 1:
        other = a[1]
        if isinstance(other, DictV):
            d.d.update(other.d)
        else:
            # an iterable of (key, value) pairs
            try:
                pairs = list(ev.iterate(other, n, mod))
            except AnalysisError:
                raise ev.err("dict.update with something that is neither a dict nor a sequence of pairs", n, mod)
            for p_ in pairs:
                if not (isinstance(p_, Tup) and len(p_.items) == 2):
                    raise ev.err("dict.update with a sequence whose items are not pairs", n, mod)
                d.d[p_.items[0]] = p_.items[1]
    for kk, vv in k.items():
        d.d[kk] = vv
    return None


def lib_dict_copy(ev, a, k, n, mod):
    out = DictV()
    out.d.update(a[0].d)
    return out


def lib_asdict(ev, a, k, n, mod):
    o = a[0]
    return DictV({f: o.attrs[f] for f in o.attrs["__fields__"]})


def lib_dict_pop(ev, a, k, n, mod):
    d, key = a[0], a[1]
    if key in d.d:
        v = d.d[key]
        del d.d.m[hkey(key)]
        return v
    if len(a) > 2:
        return a[2]
    raise RaisedV("KeyError")


LIB.update({"dict.update": lib_dict_update, "dict.copy": lib_dict_copy, "namedtuple._asdict": lib_asdict, "dict.pop": lib_dict_pop})
lib_dict_update.kw = None


def _same(ev, a, b, n=None, mod=None):
    if a is b:
        return True
    try:
        return bool(ev.compare(ast.Eq(), a, b, n, mod))
    except AnalysisError:
        return False


def lib_list_index2(ev, a, k, n, mod):
    for i, x in enumerate(a[0].items):
        if _same(ev, x, a[1], n, mod):
            return sp.Integer(i)
    raise RaisedV("ValueError")


def lib_list_getitem(ev, a, k, n, mod):
    """seq.__getitem__(i) as a function value (map(seq.__getitem__, order))"""
    items = a[0].items
    i = _const_int(a[1])
    if not -len(items) <= i < len(items):
        raise RaisedV("IndexError")
    return items[i]


LIB["list.__getitem__"] = lib_list_getitem


def lib_list_pop(ev, a, k, n, mod):
    lst = a[0]
    if not lst.items:
        raise RaisedV("IndexError")
    idx = _const_int(a[1]) if len(a) > 1 else -1
    return lst.items.pop(idx)


def lib_userdict_setitem(ev, a, k, n, mod):
    obj, key, val = a
    data = obj.attrs["data"]
    for i, (kk, vv) in enumerate(data.pairs):
        if _same(ev, kk, key, n, mod):
            data.pairs[i] = (kk, val)
            return None
    data.pairs.append((key, val))
    return None


def lib_userdict_init(ev, a, k, n, mod):
    a[0].attrs["data"] = PairList()
    return None


def lib_userlist_init(ev, a, k, n, mod):
    a[0].attrs["data"] = Tup([], "list")
    return None


LIB.update({"list.index": lib_list_index2, "list.pop": lib_list_pop,
            "collections.UserDict.__setitem__": lib_userdict_setitem, "collections.UserDict.__init__": lib_userdict_init,
            "collections.UserList.__init__": lib_userlist_init,
            "pairlist.items": lambda ev, a, k, n, mod: Tup([Tup([kk, vv]) for kk, vv in a[0].pairs], "list"),
            "pairlist.keys": lambda ev, a, k, n, mod: Tup([kk for kk, vv in a[0].pairs], "list"),
            "pairlist.values": lambda ev, a, k, n, mod: Tup([vv for kk, vv in a[0].pairs], "list")})


# ---------------------------------------------------------------- broader numpy / builtins coverage
INTEGER_GRID_SYMBOLS = {"T"}     # grids that qha builds with qha.tools.arange(MIN, N, STEP) = MIN + STEP * numpy.arange(N): integer-typed when the settings are whole numbers


def maybe_integer_typed(x) -> bool:
    """the array this expression stands for can have an integer element type: an integer-coefficient polynomial in a grid that is integer-typed
    whenever the user writes whole numbers (the temperature grid T_MIN + DT * arange(NT))"""
    if isinstance(x, Masked):
        x = x.val
    if isinstance(x, ArrV):
        return all(maybe_integer_typed(c) for c in list(x.cells.values()) + ([x.fill] if len(x.cells) < max(1, int(np_prod(x.shape))) else []))
    if not is_sym(x):
        return isinstance(x, int) and not isinstance(x, bool)
    x = x.subs({u_: 1 for u_ in x.free_symbols if u_ in set(U.UNIT_SYMBOLS)})       # unit typing (T / K is the bare number of kelvins) does not change the element type
    if not x.free_symbols:
        return bool(x.is_Integer)
    if not all(s_.name in INTEGER_GRID_SYMBOLS for s_ in x.free_symbols):
        return False
    try:
        poly = sp.Poly(sp.expand(x), *sorted(x.free_symbols, key=str))
    except sp.PolynomialError:
        return False
    return all(c.is_Integer for c in poly.coeffs())


def np_prod(shape):
    out = 1
    for d in shape:
        out *= d
    return out


def lib_reciprocal(ev, a, k, n, mod):
    """numpy.reciprocal keeps the element type of its argument: on an integer array it is the integer quotient 1 // x (0 for every |x| > 1)"""
    dt = k.get("dtype")
    if dt is not None and not _float_dtype(dt):
        raise ev.err(f"numpy.reciprocal with dtype {dt!r} is not modelled", n, mod)
    if dt is None and maybe_integer_typed(a[0]):
        e = RaisedV("IntegerDtype", ev.err("x", n, mod).where)
        e.detail = (f"numpy.reciprocal({src_of(n)}) keeps the element type of its argument, and the temperature grid is integer-typed whenever T_MIN and DT are written as whole numbers "
                    f"(qha.tools.arange): the result is then the integer quotient, 0 for every T > 1 (and a division-by-zero warning at T = 0), not 1/T")
        raise e
    return _elementwise(lambda x: 1 / x)(ev, a, {}, n, mod)


lib_reciprocal.kw = ("dtype",)


def src_of(n):
    try:
        return ast.unparse(n.args[0]) if isinstance(n, ast.Call) and n.args else ast.unparse(n)
    except Exception:
        return "..."


def _elementwise(fn):
    """lift a scalar sympy function over ArrV cells"""
    def f(ev, a, k, n, mod):
        x = a[0]
        if isinstance(x, Masked):
            x = x.val
        if isinstance(x, ArrV):
            out = ArrV(x.batch, x.shape, fill=fn(as_sym(x.fill)) if is_sym(x.fill) else x.fill)
            for key in itertools.product(*[range(d) for d in x.shape]):
                out.cells[key] = fn(as_sym(x.get(key)))
            return out
        return fn(as_sym(x))
    return f


# more elementwise functions with exact sympy counterparts (a swapped one shows up as a different normal form)
LIB.setdefault("numpy.log10", _elementwise(lambda x: sp.log(x) / sp.log(10)))
LIB.setdefault("numpy.log2", _elementwise(lambda x: sp.log(x) / sp.log(2)))
LIB.setdefault("numpy.log1p", _elementwise(lambda x: sp.log(1 + x)))
LIB.setdefault("math.log10", _elementwise(lambda x: sp.log(x) / sp.log(10)))
LIB.setdefault("math.log2", _elementwise(lambda x: sp.log(x) / sp.log(2)))
LIB.setdefault("numpy.floor", _elementwise(sp.floor))
LIB.setdefault("numpy.ceil", _elementwise(sp.ceiling))
LIB.setdefault("math.floor", _elementwise(sp.floor))
LIB.setdefault("math.ceil", _elementwise(sp.ceiling))
LIB.setdefault("numpy.sin", _elementwise(sp.sin))
LIB.setdefault("numpy.cos", _elementwise(sp.cos))
LIB.setdefault("numpy.tan", _elementwise(sp.tan))
LIB.setdefault("numpy.sinh", _elementwise(sp.sinh))
LIB.setdefault("numpy.cosh", _elementwise(sp.cosh))
LIB.setdefault("numpy.tanh", _elementwise(sp.tanh))
LIB.setdefault("numpy.cbrt", _elementwise(lambda x: x ** sp.Rational(1, 3)))
LIB.setdefault("numpy.sign", _elementwise(sp.sign))



def _float_dtype(v):
    name = v if isinstance(v, str) else getattr(v, "name", "")
    return v is None or (name or "").replace("builtins.", "").replace("numpy.", "") in ("float", "float64", "double", "float_", "f8", "longdouble")


def _binary(op):
    def f(ev, a, k, n, mod):
        if not _float_dtype(k.get("dtype")):
            raise ev.err(f"dtype {k.get('dtype')!r} is not modelled", n, mod)
        r = ev.binop(op, a[0], a[1], n, mod)
        out = k.get("out", a[2] if len(a) > 2 else None)
        if out is None:
            return r
        if isinstance(out, Tup) and len(out.items) == 1:
            out = out.items[0]
        if isinstance(out, ArrV) and isinstance(r, ArrV) and r.shape == out.shape and r.batch == out.batch:
            # stored into that very array: every name bound to it (and the array a view was taken from) sees the result
            for key in itertools.product(*[range(d) for d in out.shape]):
                out.cells[key] = r.get(key)
            if not isinstance(out.cells, _ViewCells):
                out.fill = r.fill
            ev.epoch += 1
            return out
        raise ev.err("ufunc with out= on a value that is not a small array of the result's shape", n, mod)
    f.kw = {"dtype", "out"}
    return f


def lib_map(ev, a, k, n, mod):
    fn = a[0]
    if len(a) == 2 and hasattr(a[1], "sym_next"):
        return LazyIter(ev, "map", fn, a[1], n, mod)
    seqs = [ev.iterate(x, n, mod) for x in a[1:]]
    out = Tup([ev.call(fn, list(args), {}, n, mod) for args in zip(*seqs)], "list")
    if any(getattr(x, "elementwise_seq", False) or getattr(x, "elementwise", False) for x in a[1:]) and len(out.items) == 1:
        out.elementwise = True          # one summarised "all rows" element stays one
    return out


def lib_reduce(ev, a, k, n, mod):
    """functools.reduce(f, iterable[, initial]): left fold"""
    items = list(ev.iterate(a[1], n, mod))
    if len(a) > 2:
        acc = a[2]
    elif items:
        acc, items = items[0], items[1:]
    else:
        raise RaisedV("TypeError", f"{mod.rel}:{getattr(n, 'lineno', 0)}" if mod else "")
    for i in items:
        acc = ev.call(a[0], [acc, i], {}, n, mod)
    return acc


def lib_operator(opcls, nargs=2, compare=False):
    def f(ev, a, k, n, mod):
        if len(a) != nargs:
            raise ev.err("operator function called with an unexpected number of arguments", n, mod)
        if nargs == 1:
            return ev.binop(ast.Sub(), sp.Integer(0), a[0], n, mod) if opcls is ast.USub else a[0]
        if compare:
            return ev.compare(opcls(), a[0], a[1], n, mod)
        return ev.binop(opcls(), a[0], a[1], n, mod)
    return f


class CommonDtypeV:
    """numpy.result_type(<arrays>, <scalars>): the common element type of THESE arrays (real or complex, whatever they are) with the scalars"""

    def __init__(self, arrays, floating):
        self.arrays, self.floating = list(arrays), floating


def lib_result_type(ev, a, k, n, mod):
    if all(_float_dtype(x) or (is_sym(x)) for x in a):
        return LibV("numpy.float64")
    arrays = [x for x in a if isinstance(x, ArrV)]
    rest = [x for x in a if not isinstance(x, ArrV)]
    if arrays and all(_float_dtype(x) or (is_sym(x) and x.is_number) or isinstance(x, (int, float)) for x in rest):
        literal_float = isinstance(n, ast.Call) and any(isinstance(x_, ast.Constant) and isinstance(x_.value, (float, complex)) for x_ in n.args)      # 1.0 folds to the integer 1: the literal tells
        return CommonDtypeV(arrays, literal_float or any((is_sym(x) and not x.is_Integer) or isinstance(x, float) or _float_dtype(x) for x in rest))
    raise ev.err("numpy.result_type of non-floating types", n, mod)


def lib_round(ev, a, k, n, mod):
    x = as_sym(a[0])
    nd = a[1] if len(a) > 1 else k.get("ndigits")
    if nd is not None:
        return lib_np_round(ev, [x, nd], {}, n, mod)
    if x.is_Rational:
        return sp.Integer(round(x))
    return sp.Function("ROUND")(x)


lib_round.kw = {"ndigits"}
LIB.setdefault("round", lib_round)


def lib_lazy(kind):
    def f(ev, a, k, n, mod):
        fn, source = a[0], a[1]
        if hasattr(source, "sym_next"):
            return LazyIter(ev, kind, fn, source, n, mod)
        it = LazyIter(ev, kind, fn, source, n, mod)
        return Tup(it.sym_iter(ev, n, mod), "list")
    return f


def lib_chain(ev, a, k, n, mod):
    out = []
    for part in a:
        out.extend(ev.iterate(part, n, mod))
    return Tup(out, "list")


def lib_chain_from_iterable(ev, a, k, n, mod):
    out = []
    for part in ev.iterate(a[0], n, mod):
        out.extend(ev.iterate(part, n, mod))
    return Tup(out, "list")


def lib_starmap(ev, a, k, n, mod):
    return Tup([ev.call(a[0], list(ev.iterate(args, n, mod)), {}, n, mod) for args in ev.iterate(a[1], n, mod)], "list")


LIB.update({"filter": lib_lazy("filter"), "itertools.dropwhile": lib_lazy("dropwhile"), "itertools.takewhile": lib_lazy("takewhile"),
            "itertools.filterfalse": None, "itertools.chain": lib_chain, "itertools.chain.from_iterable": lib_chain_from_iterable,
            "itertools.starmap": lib_starmap})
LIB.pop("itertools.filterfalse")


def lib_property(ev, a, k, n, mod):
    fget = a[0] if a else k.get("fget")
    if fget is None or len(a) > 1 or set(k) - {"fget", "doc"}:
        raise ev.err("property() with a setter / deleter is not modelled", n, mod)
    return PropertyV(fget)


lib_property.kw = {"fget", "doc"}
LIB["property"] = lib_property


class LazyPropV(PropertyV):
    """lazy_property.LazyProperty(f) built by a call (not used as a decorator): the value is cached on the instance under '_' + f.__name__ (installed source of
    lazy_property) - two such properties made from lambdas share the slot '_<lambda>'"""

    def __init__(self, fget, slot):
        super().__init__(fget)
        self.slot = slot


def lib_lazy_property(ev, a, k, n, mod):
    fget = a[0]
    if len(a) != 1 or k:
        raise ev.err("LazyProperty() with other than one function", n, mod)
    if isinstance(fget, LambdaV):
        name = "<lambda>"
    elif isinstance(fget, FuncV):
        name = fget.ref.split(".")[-1].split(":")[-1]
    else:
        raise ev.err("LazyProperty() of something that is not a function", n, mod)
    return LazyPropV(fget, "_" + name)


lib_lazy_property.kw = set()
LIB["lazy_property.LazyProperty"] = lib_lazy_property
LIB["functools.cached_property"] = lib_property            # cached per attribute name (__set_name__): a property whose value does not change
LIB["staticmethod"] = lambda ev, a, k, n, mod: StaticV(a[0])


def lib_hasattr(ev, a, k, n, mod):
    try:
        ev.get_attr(a[0], a[1], n, mod)
        return True
    except RaisedV as e:
        if e.exc_name == "AttributeError":
            return False
        raise


LIB["hasattr"] = lib_hasattr


def lib_chainmap(ev, a, k, n, mod):
    """collections.ChainMap(m1, m2, ...): look-ups find the FIRST mapping that has the key"""
    out = DictV()
    for m_ in reversed(a):
        if not isinstance(m_, DictV):
            raise ev.err("ChainMap of something that is not a constant-key dict", n, mod)
        out.d.update(m_.d)
    # a mapping that answers every key (the scenario dictionaries of a rule): the first such mapping answers what the ones before it lack
    for m_ in a:
        if m_.default is not None:
            shadow = [x.d for x in a[:a.index(m_)]]
            out.default = (lambda m1, sh: (lambda key: next((d_[key] for d_ in sh if key in d_), None) or m1.default(key)))(m_, shadow)
            break
    out.readonly = True
    return out


LIB["collections.ChainMap"] = lib_chainmap
for _nm, _op in (("equal", ast.Eq), ("not_equal", ast.NotEq), ("less", ast.Lt), ("less_equal", ast.LtE), ("greater", ast.Gt), ("greater_equal", ast.GtE)):
    LIB[f"numpy.{_nm}"] = (lambda opc: (lambda ev, a, k, n, mod: ev.compare(opc(), a[0], a[1], n, mod)))(_op)


def lib_expand_dims(ev, a, k, n, mod):
    x = a[0]
    if isinstance(x, ArrV):
        raise ev.err("numpy.expand_dims of a small array is not modelled", n, mod)
    return x            # a broadcasting wrapper around a symbolic value: erased (like x[:, None])


lib_expand_dims.kw = {"axis"}
LIB["numpy.expand_dims"] = lib_expand_dims


class MethodCallerV:
    """operator.methodcaller(name, *args, **kwargs)"""

    def __init__(self, name, args, kwargs):
        self.name, self.args, self.kwargs = name, args, kwargs

    def sym_call(self, ev, args, kwargs, n, mod):
        if len(args) != 1 or kwargs:
            raise ev.err("methodcaller object called with other than one argument", n, mod)
        return ev.call(ev.get_attr(args[0], self.name, n, mod), list(self.args), dict(self.kwargs), n, mod)


def lib_methodcaller(ev, a, k, n, mod):
    if not a or not isinstance(a[0], str):
        raise ev.err("operator.methodcaller with a non-constant method name", n, mod)
    return MethodCallerV(a[0], list(a[1:]), dict(k))


lib_methodcaller.kw = None
LIB["operator.methodcaller"] = lib_methodcaller


def lib_ufunc2(opcls):
    """numpy.add/subtract/multiply/divide(a, b[, out=a]): elementwise; with out= the result is also stored into that array"""
    def f(ev, a, k, n, mod):
        r = ev.binop(opcls(), a[0], a[1], n, mod)
        out = k.get("out", a[2] if len(a) > 2 else None)
        if out is None:
            return r
        if isinstance(out, Tup) and len(out.items) == 1:
            out = out.items[0]
        if isinstance(out, ArrV) and isinstance(r, ArrV) and r.shape == out.shape and r.batch == out.batch:
            for key in itertools.product(*[range(d) for d in out.shape]):
                out.cells[key] = r.get(key)
            if not isinstance(out.cells, _ViewCells):
                out.fill = r.fill
            ev.epoch += 1
            return out
        raise ev.err("ufunc with out= on a value that is not a small array", n, mod)
    f.kw = {"out"}
    return f


for _nm, _op in (("add", ast.Add), ("subtract", ast.Sub), ("multiply", ast.Mult), ("divide", ast.Div), ("true_divide", ast.Div), ("power", ast.Pow)):
    LIB[f"numpy.{_nm}"] = lib_ufunc2(_op)


def lib_setflags(ev, a, k, n, mod):
    # writeable/aligned flags have no effect on values
    return None


lib_setflags.kw = {"write", "align", "uic"}
LIB["ndarray.setflags"] = lib_setflags
# NamedTuple._make(iterable): the record built from the items in field order
LIB["namedtuple._make"] = lambda ev, a, k, n, mod: ev.construct(a[0].ref, list(ev.iterate(a[1], n, mod)), {})


class Sentinel:
    """object(): a value that is only ever compared by identity"""
    _n = [0]

    def __init__(self):
        Sentinel._n[0] += 1
        self.const_key = ("sentinel", Sentinel._n[0])

    def __repr__(self):
        return f"<object #{self.const_key[1]}>"


LIB["object"] = lambda ev, a, k, n, mod: Sentinel()


class OpaquePerm:
    """a data-dependent permutation of 0..n-1 (argsort of a vector of expressions)"""

    def __init__(self, n):
        self.n = n


def lib_opaque_order(tag):
    """numpy.sort / numpy.argsort of a symbolic vector: a reordering decided by the vector's own values"""
    def f(ev, a, k, n, mod):
        x = a[0]
        if isinstance(x, ArrV) and tag == "SORT" and x.shape:
            # sorted along one constant axis: position k of a lane holds the k-th smallest of that lane's entries - whichever
            # entry that is depends on the data (an opaque atom per position), not on where it was stored
            axis = _const_int(k.get("axis", a[1] if len(a) > 1 else sp.Integer(-1)))
            nd = x.batch + len(x.shape)
            axis = axis % nd
            ca = axis - (0 if x.batch_last else x.batch)
            if not 0 <= ca < len(x.shape):
                raise ev.err("numpy.sort along a grid axis of a small array is not modelled", n, mod)
            if x.batch_last and x.batch:
                # (k, grid) layout: which of the k entries comes first changes from grid point to grid point; whether what is done with the sorted entries is
                # symmetric in them (and so unchanged) is not something the normal forms can express
                raise ev.err("numpy.sort of grid-dependent entries along a constant axis in (k, grid) layout: pointwise reordering is not modelled", n, mod)
            out = ArrV(x.batch, x.shape, batch_last=x.batch_last)
            for key in itertools.product(*[range(d) for d in x.shape]):
                lane = [x.get(key[:ca] + (j,) + key[ca + 1:]) for j in range(x.shape[ca])]
                if len({sp.srepr(as_sym(c)) for c in lane}) == 1:
                    out.cells[key] = lane[0]
                else:
                    out.cells[key] = sp.Function("KTH_SMALLEST")(sp.Integer(key[ca]), *[as_sym(c) for c in lane])
            return out
        if isinstance(x, ArrV) and tag == "ARGSORT" and not x.batch and len(x.shape) == 1:
            # the permutation that sorts a vector of expressions: which one depends on the data; indexing with it keeps every entry exactly once
            return OpaquePerm(x.shape[0])
        if isinstance(x, ArrV) or not is_sym(as_sym(x)):
            raise ev.err(f"numpy.{tag.lower()} of a small array is not modelled", n, mod)
        return sp.Function(tag)(as_sym(x))
    f.kw = {"kind", "axis", "stable"}
    return f


LIB.setdefault("numpy.sort", lib_opaque_order("SORT"))
LIB.setdefault("numpy.argsort", lib_opaque_order("ARGSORT"))
LIB["float.is_integer"] = lambda ev, a, k, n, mod: bool(as_sym(a[0]).is_Integer or (as_sym(a[0]).is_Rational and as_sym(a[0]).q == 1))
LIB.update({"functools.reduce": lib_reduce, "operator.add": lib_operator(ast.Add), "operator.sub": lib_operator(ast.Sub), "operator.mul": lib_operator(ast.Mult),
            "operator.truediv": lib_operator(ast.Div), "operator.pow": lib_operator(ast.Pow), "operator.floordiv": lib_operator(ast.FloorDiv),
            "operator.mod": lib_operator(ast.Mod), "operator.matmul": lib_operator(ast.MatMult), "operator.lshift": lib_operator(ast.LShift),
            "operator.neg": lib_operator(ast.USub, 1), "operator.pos": lib_operator(ast.UAdd, 1),
            "operator.eq": lib_operator(ast.Eq, compare=True), "operator.ne": lib_operator(ast.NotEq, compare=True), "operator.lt": lib_operator(ast.Lt, compare=True),
            "operator.le": lib_operator(ast.LtE, compare=True), "operator.gt": lib_operator(ast.Gt, compare=True), "operator.ge": lib_operator(ast.GtE, compare=True)})
LIB.update({"list.sort": lib_list_sort, "list.reverse": lib_list_misc("reverse"), "list.clear": lib_list_misc("clear"), "list.insert": lib_list_misc("insert"),
            "list.remove": lib_list_misc("remove")})
# id(x): the identity of an object - distinct objects, distinct atoms (used as a cache key: the value cached under it is then
# looked up by object identity, which C14's process-wide-cache rule judges)
LIB.setdefault("id", lambda ev, a, k, n, mod: sp.Symbol(f"ID_{id(a[0])}", positive=True, integer=True))
for _nm in ("j_to_ev", "ev_to_j", "gpa_to_megabar", "megabar_to_gpa", "b3_to_a3", "a3_to_b3", "ry_to_ev", "ev_to_ry", "ry_to_j", "j_to_ry",
            "gpa_to_ev_a3", "ev_a3_to_gpa", "gpa_to_ry_b3", "ry_b3_to_gpa", "gpa_to_ev_b3", "ev_b3_to_gpa"):
    LIB.setdefault(f"qha.unit_conversion.{_nm}", lib_qha_convert(_nm))
LIB.update({"map": lib_map, "numpy.result_type": lib_result_type, "numpy.promote_types": lib_result_type})


def lib_bool(ev, a, k, n, mod):
    return ev.truth(a[0], n, mod)


def lib_combinations(with_replacement):
    def f(ev, a, k, n, mod):
        items = ev.iterate(a[0], n, mod)
        r = _const_int(a[1])
        fn = itertools.combinations_with_replacement if with_replacement else itertools.combinations
        return Tup([Tup(t) for t in fn(items, r)], "list")
    return f


class BytesKey:
    """x.tobytes(): a hashable key standing for the array's content"""

    def __init__(self, expr):
        self.const_key = ("bytes", sp.srepr(sp.sympify(expr)))

    def __repr__(self):
        return f"bytes{self.const_key[1][:40]}"


def lib_tobytes(ev, a, k, n, mod):
    x = a[0]
    if isinstance(x, ArrV):
        # the content of a small array: the tuple of its cells (distinct contents, distinct keys)
        cells = [x.get(key) for key in itertools.product(*[range(d) for d in x.shape])]
        return BytesKey(sp.Tuple(*[as_sym(c) for c in cells]))
    return BytesKey(as_sym(x))


def lib_opaque_reduce(name):
    def f(ev, a, k, n, mod):
        from .opaque import homogeneous
        extra = [as_sym(v) for kk, v in sorted(k.items()) if v is not None and not isinstance(v, bool)]
        x = a[0]
        if isinstance(x, ArrV):
            raise ev.err(f"{name} of a small array is not modelled here", n, mod)
        tag = name + ("_" + "_".join(f"{kk}{k[kk]}" for kk in sorted(k)) if k else "")
        return homogeneous(tag, [as_sym(x)] + [as_sym(y) for y in a[1:]], (0,))
    f.kw = None
    return f


def _zero_guard(cond, x, y):
    """numpy.where(u != 0, u, 0) and numpy.where(u == 0, 0, u): u itself, whatever its value"""
    if not (isinstance(cond, CondV) and cond.op in ("!=", "==") and is_sym(x) and is_sym(y)):
        return None
    u, c = (cond.lhs, cond.rhs) if is_sym(cond.rhs) and sp.sympify(cond.rhs).is_number else (cond.rhs, cond.lhs)
    if not (is_sym(u) and is_sym(c) and sp.sympify(c) == 0):
        return None
    keep, other = (x, y) if cond.op == "!=" else (y, x)
    if sp.sympify(keep) == sp.sympify(u) and sp.sympify(other) == 0:
        return u
    return None


def _same_branches(cond, x, y):
    """numpy.where(c, v, v): v"""
    if is_sym(x) and is_sym(y) and not isinstance(x, bool) and sp.sympify(x) == sp.sympify(y):
        return x
    return None


def _series_guard(cond, x, y):
    """numpy.where(u < c, approximation, exact) (or `u > c` with the branches swapped) for a small positive constant c: when the first
    neglected term of the expansion of `exact` around u = 0, at u = c, is below the unit round-off relative to the value there, the
    selection is `exact` to working precision on the whole domain; returns that branch, or None"""
    if not (isinstance(cond, CondV) and cond.op in ("<", "<=", ">", ">=") and is_sym(x) and is_sym(y)):
        return None
    u, c = cond.lhs, cond.rhs
    op = cond.op
    if is_sym(u) and u.is_number and is_sym(c) and not c.is_number:
        u, c, op = c, u, {"<": ">", "<=": ">=", ">": "<", ">=": "<="}[op]
    if not (is_sym(c) and c.is_number and c > 0 and c < 1 and is_sym(u) and u.free_symbols):
        return None
    approx, exact = (x, y) if op in ("<", "<=") else (y, x)
    z = sp.Dummy("z", positive=True)
    a_z, e_z = sp.sympify(approx).subs(u, z), sp.sympify(exact).subs(u, z)
    if (a_z.free_symbols | e_z.free_symbols) - {z} or z not in e_z.free_symbols:
        return None
    try:
        lead = sp.series(e_z - a_z, z, 0, 8).removeO()
        lead = sp.expand(lead)
        if lead == 0:
            return exact
        terms = sorted(sp.Add.make_args(lead), key=lambda t: sp.degree(t, z))
        first = terms[0]
        ref = sp.limit(e_z, z, 0)
    except Exception:
        return None
    if sp.degree(first, z) < 1 or not ref.is_number or ref == 0:
        return None
    bound = abs(first.subs(z, c)) * 2 / abs(ref)
    return exact if bound <= sp.Rational(1, 2 ** 52) else None


def lib_where3(ev, a, k, n, mod):
    if len(a) == 1:
        return lib_where(ev, a, k, n, mod)
    cond, x, y = a
    if isinstance(cond, bool):
        return x if cond else y
    if isinstance(cond, CondV) and _series_guard(cond, x, y) is not None:
        return _series_guard(cond, x, y)
    if isinstance(cond, CondV) and _zero_guard(cond, x, y) is not None:
        return _zero_guard(cond, x, y)
    if isinstance(cond, (CondV, TolCond)) and _same_branches(cond, x, y) is not None:
        return x
    if isinstance(cond, CondV):
        # an exact `== 0` guard on the value that is returned otherwise is the identity wherever that value is non-zero
        if cond.op == "==" and is_sym(cond.rhs) and cond.rhs == 0 and is_sym(cond.lhs) and as_sym(y) == cond.lhs:
            return y
        yv = y.val if isinstance(y, Masked) else y
        if is_sym(x) and as_sym(x).is_number and is_sym(yv) and as_sym(yv).free_symbols and not isinstance(yv, bool):
            # numpy.where(<condition on a row coordinate>, constant, values): the values with the constant stored where the condition
            # holds - the same thing as values[numpy.where(cond), :] = constant on a fresh array
            rec = MaskRec(cond, f"where({cond.text})", x, getattr(n, "lineno", 0), axis=0, rest_full=True)
            return Masked(yv, (list(y.masks) if isinstance(y, Masked) else []) + [rec])
        return sp.Function("WHERE")(sp.Symbol("cond[" + cond.text + "]"), as_sym(x), as_sym(y))
    if isinstance(cond, TolCond):
        return sp.Function("WHERE")(sp.Symbol("cond[" + cond.text + "]"), as_sym(x), as_sym(y))
    if isinstance(cond, ArrV) and getattr(cond, "is_cond", False):
        # elementwise selection with a value-dependent condition per cell
        import itertools as _it

        def cell(v, key):
            if isinstance(v, ArrV):
                if v.shape != cond.shape:
                    raise ev.err("numpy.where: operand shape differs from the condition", n, mod)
                return v.get(key)
            return as_sym(v)
        out = ArrV(cond.batch, cond.shape, batch_last=cond.batch_last)
        for key in _it.product(*[range(s_) for s_ in cond.shape]):
            c = cond.get(key)
            if c is True or c == sp.true or (is_sym(c) and c == 1):
                out.cells[key] = cell(x, key)
            elif c is False or c == sp.false or (is_sym(c) and c == 0):
                out.cells[key] = cell(y, key)
            elif isinstance(c, CondV):
                g = _series_guard(c, cell(x, key), cell(y, key))
                if g is None:
                    g = _zero_guard(c, cell(x, key), cell(y, key))
                if g is None:
                    g = _same_branches(c, cell(x, key), cell(y, key))
                out.cells[key] = g if g is not None else sp.Function("WHERE")(sp.Symbol("cond[" + c.text + "]"), cell(x, key), cell(y, key))
            else:
                out.cells[key] = sp.Function("WHERE")(c, cell(x, key), cell(y, key))
        return out
    raise ev.err("numpy.where with an unsupported condition", n, mod)


class TolCond:
    def __init__(self, text, pair=None):
        self.text = text
        self.pair = pair        # the two expressions held to be (nearly) equal when the condition is true


def lib_isclose_sym(ev, a, k, n, mod):
    x = a[0]
    if isinstance(x, ArrV):
        from .linalg import isclose
        return isclose(ev, a, k)
    return TolCond(f"isclose({as_sym(x)}, {as_sym(a[1])}" + "".join(f", {kk}={vv}" for kk, vv in sorted(k.items())) + ")", (as_sym(x), as_sym(a[1])))


lib_isclose_sym.kw = {"atol", "rtol"}


def lib_value_predicate(name):
    """isfinite / isnan / isinf: a condition on the VALUE of its argument (never a position)"""
    def f(ev, a, k, n, mod):
        x = a[0]
        if isinstance(x, (int, float)) and not isinstance(x, bool):
            import math
            return getattr(math, name)(x)
        if isinstance(x, ArrV):
            # elementwise: each cell's predicate is a condition on that cell's value
            import itertools as _it
            out = ArrV(x.batch, x.shape, fill=sp.Symbol(f"cond[{name}({x.fill})]"), batch_last=x.batch_last)
            for key in _it.product(*[range(s_) for s_ in x.shape]):
                out.cells[key] = sp.Symbol(f"cond[{name}({x.get(key)})]")
            out.is_cond = True
            return out
        return TolCond(f"{name}({as_sym(x)})")
    return f


def lib_inner(ev, a, k, n, mod):
    A, B = a[0], a[1]
    if isinstance(A, ArrV) and isinstance(B, ArrV) and len(A.shape) == 2 and len(B.shape) == 2 and A.shape[1] == B.shape[1]:
        out = ArrV(0, (A.shape[0], B.shape[0]))
        for i in range(A.shape[0]):
            for j in range(B.shape[0]):
                out.cells[(i, j)] = sum((A.get((i, kk)) * B.get((j, kk)) for kk in range(A.shape[1])), sp.Integer(0))
        return out
    return sp.Function("INNER")(as_sym(A), as_sym(B))


def lib_dot(ev, a, k, n, mod):
    A, B = a[0], a[1]
    if isinstance(A, ArrV) and isinstance(B, ArrV):
        return ev.arr_matmul(A, B, n, mod)
    return MatProd(as_sym(A), as_sym(B))


def lib_searchsorted(ev, a, k, n, mod):
    side = k.get("side", "left")
    return sp.Function("SEARCHSORTED_" + str(side))(as_sym(a[0]), as_sym(a[1]))


lib_searchsorted.kw = {"side"}

_ID = lambda ev, a, k, n, mod: a[0]
_ID.kw = None


def lib_asarray(ev, a, k, n, mod):
    """numpy.asarray: no copy of an array; a plain list of numbers becomes a one-dimensional array"""
    x = a[0]
    if not _float_dtype(k.get("dtype")):
        raise ev.err(f"asarray with dtype {k.get('dtype')!r} is not modelled", n, mod)
    if isinstance(x, Tup) and x.kind in ("list", "tuple") and x.items and all(is_sym(i) for i in x.items):
        return _as_arr(ev, x, n, mod)
    return x


lib_asarray.kw = {"dtype", "order"}
LIB.update({
    "bool": lib_bool, "itertools.combinations_with_replacement": lib_combinations(True), "itertools.combinations": lib_combinations(False),
    "ndarray.tobytes": lib_tobytes,
    "numpy.multiply": _binary(ast.Mult()), "numpy.divide": _binary(ast.Div()), "numpy.true_divide": _binary(ast.Div()),
    "numpy.add": _binary(ast.Add()), "numpy.subtract": _binary(ast.Sub()), "numpy.power": _binary(ast.Pow()),
    "numpy.negative": _elementwise(lambda x: -x), "numpy.square": _elementwise(lambda x: x ** 2),
    "numpy.reciprocal": lib_reciprocal, "numpy.conj": _elementwise(sp.conjugate), "numpy.conjugate": _elementwise(sp.conjugate),
    "numpy.asarray": lib_asarray, "numpy.ascontiguousarray": lib_asarray, "numpy.asfarray": lib_asarray, "numpy.float64": _ID, "numpy.atleast_1d": lib_asarray,
    "numpy.asanyarray": lib_asarray,
    "numpy.mean": lib_np_average(lib_opaque_reduce("MEAN"), False), "numpy.average": lib_np_average(None, True), "slice": lib_slice, "numpy.amin": lib_opaque_reduce("MIN"), "numpy.amax": lib_opaque_reduce("MAX"),
    "numpy.min": lib_opaque_reduce("MIN"), "numpy.max": lib_opaque_reduce("MAX"),
    "numpy.isclose": lib_isclose_sym, "numpy.isfinite": lib_value_predicate("isfinite"), "numpy.isnan": lib_value_predicate("isnan"),
    "numpy.isinf": lib_value_predicate("isinf"), "numpy.where": lib_where3, "numpy.inner": lib_inner, "numpy.dot": lib_dot, "numpy.matmul": lib_dot,
    "numpy.searchsorted": lib_searchsorted,
    "ndarray.argmin": lambda ev, a, k, n, mod: sp.Function("ARGMIN")(as_sym(a[0])),
    "ndarray.argmax": lambda ev, a, k, n, mod: sp.Function("ARGMAX")(as_sym(a[0])),
    "ndarray.min": lib_opaque_reduce("MIN"), "ndarray.max": lib_opaque_reduce("MAX"), "ndarray.mean": lib_opaque_reduce("MEAN"),
})
lib_array.kw = {"dtype", "copy"}


def lib_zeros_like(ev, a, k, n, mod):
    x = a[0]
    if isinstance(x, ArrV):
        return ArrV(x.batch, x.shape, sp.Integer(0))
    return sp.Integer(0)


def lib_ones_like(ev, a, k, n, mod):
    x = a[0]
    if isinstance(x, ArrV):
        return ArrV(x.batch, x.shape, sp.Integer(1))
    return sp.Integer(1)


def lib_eye(ev, a, k, n, mod):
    nn = _const_int(a[0])
    out = ArrV(0, (nn, nn))
    for i in range(nn):
        out.cells[(i, i)] = sp.Integer(1)
    return out


def lib_clip(ev, a, k, n, mod):
    x = a[0]
    lo = a[1] if len(a) > 1 else k.get("a_min", k.get("min"))
    hi = a[2] if len(a) > 2 else k.get("a_max", k.get("max"))
    def one(v):
        v = as_sym(v)
        l_, h_ = (None if b is None else as_sym(b) for b in (lo, hi))
        if v.is_number and all(b is None or b.is_number for b in (l_, h_)):
            if l_ is not None and v < l_:
                v = l_
            if h_ is not None and v > h_:
                v = h_
            return v
        return sp.Function("CLIP")(v, l_ if l_ is not None else sp.Symbol("NONE"), h_ if h_ is not None else sp.Symbol("NONE"))
    if isinstance(x, Tup):
        return Tup([one(i) for i in x.items], x.kind)
    if isinstance(x, ArrV):
        out = ArrV(x.batch, x.shape, one(x.fill))
        out.cells = {kk: one(v) for kk, v in x.cells.items()}
        return out
    return one(x)


lib_clip.kw = {"a_min", "a_max", "min", "max"}


def lib_minmax2(name):
    def one(x, y):
        x, y = as_sym(x), as_sym(y)
        if x.is_number and y.is_number:
            return (sp.Max if name == "MAXIMUM" else sp.Min)(x, y)
        if x == y:
            return x
        return sp.Function(name)(x, y)

    def f(ev, a, k, n, mod):
        if isinstance(a[0], ArrV) or isinstance(a[1], ArrV):
            # elementwise, with numpy's broadcasting on the constant axes
            shp = lambda v: v.shape if isinstance(v, ArrV) else ()
            sa, sb = shp(a[0]), shp(a[1])
            nd = max(len(sa), len(sb))
            pa, pb = (1,) * (nd - len(sa)) + tuple(sa), (1,) * (nd - len(sb)) + tuple(sb)
            if any(x_ != y_ and 1 not in (x_, y_) for x_, y_ in zip(pa, pb)):
                raise RaisedV("ValueError", f"{mod.rel}:{getattr(n, 'lineno', 0)}" if mod else "")
            out = ArrV(max(v.batch if isinstance(v, ArrV) else 0 for v in a[:2]), [max(x_, y_) for x_, y_ in zip(pa, pb)])

            def get(v, pv, key):
                if not isinstance(v, ArrV):
                    return v
                return v.get(tuple(0 if d == 1 else i for d, i in zip(pv, key))[nd - len(v.shape):])
            for key in itertools.product(*[range(d) for d in out.shape]):
                out.cells[key] = one(get(a[0], pa, key), get(a[1], pb, key))
            return out
        return one(a[0], a[1])
    return f


def _as_arr(ev, v, n, mod):
    """nested constant-length sequences / scalars -> ArrV (batch 0)"""
    if isinstance(v, ArrV):
        return v
    if isinstance(v, Tup):
        subs = [_as_arr(ev, i, n, mod) for i in v.items]
        if all(not isinstance(x, ArrV) for x in subs):
            out = ArrV(0, (len(subs),))
            out.cells = {(i,): x for i, x in enumerate(subs)}
            return out
        if not all(isinstance(x, ArrV) for x in subs) or len({(x.shape, x.batch, x.batch_last) for x in subs}) != 1:
            raise ev.err("ragged or mixed nested sequence as an array", n, mod)
        out = ArrV(subs[0].batch, (len(subs),) + subs[0].shape, batch_last=subs[0].batch_last)
        for i, x in enumerate(subs):
            for key in itertools.product(*[range(d) for d in x.shape]):
                out.cells[(i,) + key] = x.get(key)
        return out
    return v


def lib_transpose(ev, a, k, n, mod):
    x = a[0]
    axes = a[1] if len(a) > 1 else k.get("axes")
    if len(a) > 2:                       # x.transpose(1, 2, 0)
        axes = Tup(list(a[1:]), "tuple")
    if isinstance(x, Tup):
        x = _as_arr(ev, x, n, mod)
    if not isinstance(x, ArrV):
        if axes is None:
            return ev.get_attr(x, "T", n, mod)
        raise ev.err("transpose with explicit axes of a value whose axes are not modelled", n, mod)
    nd = x.batch + len(x.shape)
    order = list(range(nd))[::-1] if axes is None else [_const_int(i) % nd for i in ev.iterate(axes, n, mod)]
    if sorted(order) != list(range(nd)):
        raise RaisedV("ValueError")
    grid = set(range(len(x.shape), nd)) if x.batch_last else set(range(x.batch))
    pos_grid = [i for i, o in enumerate(order) if o in grid]
    if x.batch and pos_grid != list(range(x.batch)) and pos_grid != list(range(nd - x.batch, nd)):
        raise ev.err("transpose that interleaves grid axes with constant axes", n, mod)
    if x.batch > 1 and [order[i] for i in pos_grid] != sorted(order[i] for i in pos_grid):
        raise ev.err("transpose that permutes the grid axes among themselves", n, mod)
    const_old = [o - (0 if x.batch_last else x.batch) for o in order if o not in grid]
    out = ArrV(x.batch, [x.shape[o] for o in const_old], x.fill, batch_last=bool(x.batch) and pos_grid == list(range(nd - x.batch, nd)))
    for key in itertools.product(*[range(d) for d in x.shape]):
        if tuple(key) in x.cells:
            out.cells[tuple(key[o] for o in const_old)] = x.cells[tuple(key)]
    return out


lib_transpose.kw = {"axes"}


def lib_stack(kind):
    def f(ev, a, k, n, mod):
        items = ev.iterate(a[0], n, mod)
        axis = k.get("axis", a[1] if len(a) > 1 and kind == "stack" else sp.Integer(0))
        axis = _const_int(axis)
        arrs = [_as_arr(ev, i, n, mod) for i in items]
        if all(not isinstance(x, ArrV) for x in arrs):            # a list of whole-array expressions
            if kind in ("stack", "column_stack") or True:
                # new constant axis over symbolic operands: last axis for column_stack / stack(axis=-1), first constant axis otherwise
                out = ArrV(1, (len(arrs),))
                out.cells = {(i,): as_sym(x) for i, x in enumerate(arrs)}
                if kind == "stack" and axis not in (-1, 1):
                    out.batch_last = True if axis == 0 else out.batch_last
                return out
        if not all(isinstance(x, ArrV) for x in arrs) or len({(x.shape, x.batch) for x in arrs}) != 1:
            raise ev.err(f"numpy.{kind} of operands with different shapes", n, mod)
        x0 = arrs[0]
        nd = len(x0.shape)
        if kind == "column_stack":
            if nd != 1:
                raise ev.err("column_stack of arrays that are not one-dimensional", n, mod)
            ax = 1
        elif kind == "vstack":
            ax = 0
            if nd == 1:
                out = ArrV(x0.batch, (len(arrs), x0.shape[0]))
                for i, x in enumerate(arrs):
                    for j in range(x0.shape[0]):
                        out.cells[(i, j)] = x.get((j,))
                return out
            return _concat(ev, arrs, 0, n, mod)
        elif kind == "hstack":
            return _concat(ev, arrs, 0 if nd == 1 else 1, n, mod)
        else:
            ax = axis if axis >= 0 else nd + 1 + axis
        shape = list(x0.shape)
        shape.insert(ax, len(arrs))
        out = ArrV(x0.batch, shape, batch_last=x0.batch_last)
        for i, x in enumerate(arrs):
            for key in itertools.product(*[range(d) for d in x0.shape]):
                kk = list(key)
                kk.insert(ax, i)
                out.cells[tuple(kk)] = x.get(key)
        return out
    f.kw = {"axis"}
    return f


def _concat(ev, arrs, axis, n, mod):
    x0 = arrs[0]
    if any(len(x.shape) != len(x0.shape) for x in arrs):
        raise ev.err("concatenate of arrays of different rank", n, mod)
    shape = list(x0.shape)
    shape[axis] = sum(x.shape[axis] for x in arrs)
    out = ArrV(max(x.batch for x in arrs), shape)
    off = 0
    for x in arrs:
        for key in itertools.product(*[range(d) for d in x.shape]):
            kk = list(key)
            kk[axis] += off
            out.cells[tuple(kk)] = x.get(key)
        off += x.shape[axis]
    return out


def lib_concatenate(ev, a, k, n, mod):
    parts = list(ev.iterate(a[0], n, mod))
    if len(parts) == 3 and all(is_sym(p_) for p_ in parts) and not set(k) - {"axis"}:
        # (x[:1], x, x[-1:]) along the grid axis of a symbolic vector: x with its end points repeated (== numpy.pad(x, 1, 'edge'))
        x = parts[1]
        one, m1 = sp.Integer(1), sp.Integer(-1)
        heads = [ev.subscript(x, SliceV(None, one, None), n, mod), ev.subscript(x, SliceV(sp.Integer(0), one, None), n, mod)]
        tails = [ev.subscript(x, SliceV(m1, None, None), n, mod)]
        if any(sp.simplify(parts[0] - h) == 0 for h in heads) and any(sp.simplify(parts[2] - t) == 0 for t in tails) \
                and _const_int(k.get("axis", a[1] if len(a) > 1 else sp.Integer(0))) in (0, -1):
            return edge_padded(x)
    arrs = [_as_arr(ev, i, n, mod) for i in parts]
    if not all(isinstance(x, ArrV) for x in arrs):
        raise ev.err("concatenate of values that are not small arrays", n, mod)
    axis = _const_int(k.get("axis", a[1] if len(a) > 1 else sp.Integer(0)))
    return _concat(ev, arrs, axis % len(arrs[0].shape), n, mod)


lib_concatenate.kw = {"axis"}


def lib_repeat(ev, a, k, n, mod):
    x = _as_arr(ev, a[0], n, mod)
    reps = _const_int(a[1] if len(a) > 1 else k.get("repeats"))
    axis = k.get("axis", a[2] if len(a) > 2 else None)
    if isinstance(x, ArrV) and axis is None and x.batch == 0 and len(x.shape) == 1:
        axis = sp.Integer(0)
    if not isinstance(x, ArrV) or axis is None:
        raise ev.err("numpy.repeat without an axis / of a value that is not a small array", n, mod)
    axis = _const_int(axis) % len(x.shape)
    shape = list(x.shape)
    shape[axis] *= reps
    out = ArrV(x.batch, shape)
    for key in itertools.product(*[range(d) for d in shape]):
        src_ = list(key)
        src_[axis] //= reps
        out.cells[tuple(key)] = x.get(tuple(src_))
    return out


lib_repeat.kw = {"axis", "repeats"}


def lib_reshape(ev, a, k, n, mod):
    """reshape (C order) of the constant axes of a small array; the grid axes must stay in front, unchanged"""
    x = a[0]
    shp = a[1:] if len(a) != 2 else (list(a[1].items) if isinstance(a[1], Tup) else [a[1]])
    if "newshape" in k or "shape" in k:
        t = k.get("newshape", k.get("shape"))
        shp = list(t.items) if isinstance(t, Tup) else [t]
    if not isinstance(x, ArrV) or x.batch_last:
        raise ev.err("reshape of a value that is not a small array with leading grid axes", n, mod)
    if str(k.get("order", "C")) not in ("C", "'C'"):
        raise ev.err("reshape in an order other than C", n, mod)
    shp = list(shp)
    lead, rest = shp[:x.batch], shp[x.batch:]
    want = [sp.Symbol(f"dim{i}", positive=True, integer=True) for i in range(x.batch)]
    if len(lead) != x.batch or any(as_sym(u) != w for u, w in zip(lead, want)):
        raise ev.err("reshape that changes the grid axes of a small array", n, mod)
    dims = [_const_int(d) for d in rest]
    total = 1
    for d in x.shape:
        total *= d
    if dims.count(-1) > 1:
        raise RaisedV("ValueError", f"{mod.rel}:{getattr(n, 'lineno', 0)}" if mod else "")
    if -1 in dims:
        known = 1
        for d in dims:
            if d != -1:
                known *= d
        if known == 0 or total % known:
            raise RaisedV("ValueError", f"{mod.rel}:{getattr(n, 'lineno', 0)}" if mod else "")
        dims[dims.index(-1)] = total // known
    prod = 1
    for d in dims:
        prod *= d
    if prod != total or any(d < 0 for d in dims):
        raise RaisedV("ValueError", f"{mod.rel}:{getattr(n, 'lineno', 0)}" if mod else "")
    out = ArrV(x.batch, tuple(dims), x.fill)
    src = list(itertools.product(*[range(d) for d in x.shape]))
    dst = list(itertools.product(*[range(d) for d in dims]))
    # numpy returns a view of a contiguous array: in-place products on the result change the original.  Of an array whose memory layout is not known to be
    # C-contiguous (a K-order copy or arithmetic result of arrays handed in from outside) it may return a COPY: reads are the same, stores are lost
    out.cells = _ViewCells(x, dict(zip(dst, src)))
    out.c_order = True
    if not getattr(x, "c_order", False) and x.batch + len(x.shape) != x.batch + len(dims):
        out.maybe_copy_of = x
    if hasattr(x, "is_cond"):
        out.is_cond = x.is_cond
    return out


lib_reshape.kw = {"newshape", "shape", "order"}


def lib_tile(ev, a, k, n, mod):
    """numpy.tile of a constant-length vector a constant number of times (the whole vector repeated end to end)"""
    x = a[0]
    reps = _const_int(a[1] if len(a) > 1 else k.get("reps"))
    if isinstance(x, Tup):
        items = list(x.items)
    elif isinstance(x, ArrV) and x.batch == 0 and len(x.shape) == 1:
        items = [x.get((j,)) for j in range(x.shape[0])]
    else:
        raise ev.err("numpy.tile of a value that is not a constant-length vector", n, mod)
    if reps < 0:
        raise RaisedV("ValueError", f"{mod.rel}:{getattr(n, 'lineno', 0)}" if mod else "")
    out = ArrV(0, (len(items) * reps,))
    for j in range(len(items) * reps):
        out.cells[(j,)] = items[j % len(items)]
    return out


lib_tile.kw = {"reps"}
def lib_arange(ev, a, k, n, mod):
    if not all(is_sym(x) and x.is_Integer for x in a):
        return sp.Function("ARANGE")(*[as_sym(x) for x in a])        # 0, 1, ..., n-1 for a symbolic count: an opaque index vector
    vals = [_const_int(x) for x in a]
    out = ArrV(0, (len(range(*vals)),))
    out.cells = {(i,): sp.Integer(v) for i, v in enumerate(range(*vals))}
    return out


lib_arange.kw = {"dtype"}
LIB.update({"numpy.arange": lib_arange, "numpy.array_split": lib_array_split})
LIB.setdefault("numpy.concatenate", lib_concatenate)
def lib_trace(ev, a, k, n, mod):
    x = a[0]
    if not isinstance(x, ArrV):
        raise ev.err("numpy.trace of a value that is not a small array", n, mod)
    nd = x.batch + len(x.shape)
    a1 = _const_int(k.get("axis1", a[2] if len(a) > 2 else sp.Integer(0))) % nd
    a2 = _const_int(k.get("axis2", a[3] if len(a) > 3 else sp.Integer(1))) % nd
    off = _const_int(k.get("offset", a[1] if len(a) > 1 else sp.Integer(0)))
    if x.batch_last or min(a1, a2) < x.batch or off != 0:
        raise ev.err("numpy.trace over a grid axis / with an offset", n, mod)
    c1, c2 = a1 - x.batch, a2 - x.batch
    if x.shape[c1] != x.shape[c2]:
        raise RaisedV("ValueError")
    rest = [d for i, d in enumerate(x.shape) if i not in (c1, c2)]
    out = ArrV(x.batch, rest)
    for key in itertools.product(*[range(d) for d in rest]):
        tot = sp.Integer(0)
        for j in range(x.shape[c1]):
            full = list(key)
            for pos, val in sorted([(c1, j), (c2, j)]):
                full.insert(pos, val)
            tot += as_sym(x.get(tuple(full)))
        out.cells[tuple(key)] = tot
    return out if rest else out.get(())


lib_trace.kw = {"axis1", "axis2", "offset"}
LIB.update({"numpy.trace": lib_trace})


def lib_diag(ev, a, k, n, mod):
    x = a[0]
    if k or len(a) != 1 or not isinstance(x, ArrV) or x.batch:
        raise ev.err("numpy.diag of something other than one small matrix or vector", n, mod)
    if len(x.shape) == 2:
        d = min(x.shape)
        return ArrV(0, (d,), cells={(i,): x.get((i, i)) for i in range(d)})
    if len(x.shape) == 1:
        return ArrV(0, (x.shape[0], x.shape[0]), cells={(i, i): x.get((i,)) for i in range(x.shape[0])})
    raise RaisedV("ValueError", f"{mod.rel}:{getattr(n, 'lineno', 0)}" if mod else "")


lib_diag.kw = set()


def lib_tri(lower):
    """numpy.tril / numpy.triu(m, k=0) on the last two (constant) axes: entries on the other side of the k-th diagonal become zero"""
    def f(ev, a, k, n, mod):
        x = a[0]
        kk = _const_int(k.get("k", a[1] if len(a) > 1 else sp.Integer(0)))
        if not isinstance(x, ArrV) or len(x.shape) < 2 or x.batch_last:
            raise ev.err("numpy.tril / triu of something other than a matrix with constant trailing axes", n, mod)
        out = ArrV(x.batch, x.shape, fill=x.fill)
        for key in itertools.product(*[range(d) for d in x.shape]):
            i, j = key[-2], key[-1]
            keep = (j - i <= kk) if lower else (j - i >= kk)
            out.cells[key] = x.get(key) if keep else sp.Integer(0)
        return out
    f.kw = {"k"}
    return f


def lib_einsum(ev, a, k, n, mod):
    """numpy.einsum with an explicit output on small arrays (no grid axes): the sum over the contracted constant axes"""
    spec = a[0].replace(" ", "") if isinstance(a[0], str) else None
    ops = list(a[1:])
    if spec is None or "->" not in spec or "." in spec or k or not all(isinstance(o, ArrV) and not o.batch_last for o in ops):
        raise ev.err("this numpy.einsum call is not modelled", n, mod)
    ins, out_ = spec.split("->")
    ins = ins.split(",")
    if len(ins) != len(ops) or any(len(i) != o.batch + len(o.shape) for i, o in zip(ins, ops)):
        raise RaisedV("ValueError", f"{mod.rel}:{getattr(n, 'lineno', 0)}" if mod else "")
    # grid axes (the leading letters of an operand with grid axes) are carried through: every cell is an expression over the grid,
    # the product is taken grid point by grid point; such a letter must survive into the output, in front of the constant axes
    grid = []
    for i, o in zip(ins, ops):
        for ch in i[:o.batch]:
            if ch not in grid:
                grid.append(ch)
    if any(ch in grid for i, o in zip(ins, ops) for ch in i[o.batch:]) or set(out_[:len(grid)]) != set(grid) or len(set(out_)) != len(out_):
        raise ev.err("numpy.einsum that contracts or re-orders a grid axis is not modelled", n, mod)
    out_batch = len(grid)
    ins = [i[o.batch:] for i, o in zip(ins, ops)]
    out_ = out_[out_batch:]
    size = {}
    for i, o in zip(ins, ops):
        for ch, d in zip(i, o.shape):
            if size.setdefault(ch, d) != d:
                raise RaisedV("ValueError", f"{mod.rel}:{getattr(n, 'lineno', 0)}" if mod else "")
    if any(ch not in size for ch in out_) or len(set(out_)) != len(out_):
        raise RaisedV("ValueError", f"{mod.rel}:{getattr(n, 'lineno', 0)}" if mod else "")
    summed = [ch for ch in size if ch not in out_]
    out = ArrV(out_batch, tuple(size[ch] for ch in out_))
    for okey in itertools.product(*[range(size[ch]) for ch in out_]):
        env_ = dict(zip(out_, okey))
        tot = sp.Integer(0)
        for skey in itertools.product(*[range(size[ch]) for ch in summed]):
            env_.update(zip(summed, skey))
            term = sp.Integer(1)
            for i, o in zip(ins, ops):
                term = term * as_sym(o.get(tuple(env_[ch] for ch in i)))
            tot += term
        out.cells[okey] = tot
    return out if out_ else out.get(())


lib_einsum.kw = set()
def lib_atleast_2d(ev, a, k, n, mod):
    x = a[0]
    if len(a) != 1 or not isinstance(x, ArrV):
        raise ev.err("numpy.atleast_2d of something other than one array", n, mod)
    if x.batch + len(x.shape) >= 2:
        return x
    if x.batch:
        raise ev.err("numpy.atleast_2d of a grid vector", n, mod)
    out = ArrV(0, (1,) + tuple(x.shape), x.fill)
    out.cells = _ViewCells(x, {(0,) + key: key for key in itertools.product(*[range(d) for d in x.shape])})
    return out


lib_atleast_2d.kw = set()


def lib_broadcast_to(ev, a, k, n, mod):
    x, shape = a[0], a[1] if len(a) > 1 else k.get("shape")
    dims = list(shape.items) if isinstance(shape, Tup) else [shape]
    const = [d for d in dims if is_sym(d) and d.is_Integer]
    grid = [d for d in dims if not (is_sym(d) and d.is_Integer)]
    if isinstance(x, ArrV):
        if [sp.Integer(d) for d in x.shape] == const and len(grid) == x.batch:
            return x
        raise ev.err("numpy.broadcast_to of a small array to another shape", n, mod)
    x = as_sym(x)
    if not grid:
        return ArrV(0, tuple(int(d) for d in const), x)
    if dims[:len(const)] == const:
        # a grid vector repeated along new leading constant axes
        return ArrV(len(grid), tuple(int(d) for d in const), x, batch_last=True)
    if dims[len(grid):] == const:
        return ArrV(len(grid), tuple(int(d) for d in const), x)
    raise ev.err("numpy.broadcast_to with interleaved grid and constant axes", n, mod)


lib_broadcast_to.kw = {"shape"}
LIB.setdefault("numpy.broadcast_to", lib_broadcast_to)
LIB.setdefault("numpy.atleast_2d", lib_atleast_2d)
def lib_const_method(ev, a, k, n, mod):
    """x.sum() / x.mean() of a constant-length list of expressions, already folded; an axis other than the only one raises as numpy does"""
    axis = k.get("axis", a[1] if len(a) > 1 else None)
    if axis is not None and _const_int(axis) not in (0, -1):
        raise RaisedV("ValueError", f"{mod.rel}:{getattr(n, 'lineno', 0)}" if mod else "")
    return a[0]


lib_const_method.kw = {"axis"}
LIB["const_method"] = lib_const_method
def lib_swapaxes(ev, a, k, n, mod):
    x = a[0]
    a1, a2 = _const_int(a[1] if len(a) > 1 else k.get("axis1")), _const_int(a[2] if len(a) > 2 else k.get("axis2"))
    if not isinstance(x, ArrV) or x.batch_last:
        raise ev.err("swapaxes of a value that is not a small array with leading grid axes", n, mod)
    nd = x.batch + len(x.shape)
    c1, c2 = a1 % nd - x.batch, a2 % nd - x.batch
    if c1 < 0 or c2 < 0:
        raise ev.err("swapaxes of a grid axis", n, mod)
    shape = list(x.shape)
    shape[c1], shape[c2] = shape[c2], shape[c1]
    out = ArrV(x.batch, shape, x.fill)
    for key, v_ in x.cells.items():
        kk = list(key)
        kk[c1], kk[c2] = kk[c2], kk[c1]
        out.cells[tuple(kk)] = v_
    return out


lib_swapaxes.kw = {"axis1", "axis2"}
LIB.setdefault("numpy.swapaxes", lib_swapaxes)
def lib_flatnonzero(ev, a, k, n, mod):
    """numpy.flatnonzero(condition on a grid vector): the positions where it holds - as a store index the same selection as numpy.where(condition)"""
    if len(a) == 1 and isinstance(a[0], CondV):
        return WhereV(a[0])
    x = a[0] if a else None
    if isinstance(x, ArrV) and not x.batch and all(isinstance(x.get(kk), bool) or (is_sym(x.get(kk)) and (sp.sympify(x.get(kk)).is_number or x.get(kk) in (sp.true, sp.false)))
                                                 for kk in itertools.product(*[range(d) for d in x.shape])):
        # a small array of numbers / decided booleans: the flat positions of the entries that are not zero
        keys = list(itertools.product(*[range(d) for d in x.shape]))
        nz = [i for i, kk in enumerate(keys) if not (x.get(kk) is False or x.get(kk) == sp.false or (is_sym(x.get(kk)) and sp.sympify(x.get(kk)) == 0))]
        return ArrV(0, (len(nz),), cells={(j,): sp.Integer(i) for j, i in enumerate(nz)})
    raise ev.err("numpy.flatnonzero of something that is not a condition on a grid vector", n, mod)


lib_flatnonzero.kw = set()
LIB.setdefault("numpy.flatnonzero", lib_flatnonzero)
def lib_dict_fromkeys(ev, a, k, n, mod):
    """dict.fromkeys(iterable[, value]): the keys in order of first appearance"""
    keys = ev.iterate(a[0], n, mod)
    val = a[1] if len(a) > 1 else None
    d = DictV()
    for kk in keys:
        if kk not in d.d:
            d.d[kk] = val
    return d


def _shallow(v):
    if isinstance(v, DictV):
        out = DictV(dict(v.d))
        out.default = v.default
        return out
    if isinstance(v, Tup):
        return Tup(list(v.items), v.kind)
    if isinstance(v, ArrV):
        return ArrV(v.batch, v.shape, v.fill, dict(v.cells), batch_last=v.batch_last)
    return v


def lib_copy_copy(ev, a, k, n, mod):
    """copy.copy: a new container holding the SAME element objects (nested dicts and lists are shared with the original)"""
    if len(a) != 1 or isinstance(a[0], Obj):
        raise ev.err("copy.copy of this value is not modelled", n, mod)
    return _shallow(a[0])


def lib_copy_deepcopy(ev, a, k, n, mod):
    """copy.deepcopy: containers copied recursively; element objects that occur twice stay one object in the copy (the memo)"""
    memo = {}

    def rec(v):
        if id(v) in memo:
            return memo[id(v)]
        if isinstance(v, DictV):
            out = DictV()
            memo[id(v)] = out
            out.d = {kk: rec(vv) for kk, vv in v.d.items()}
            out.default = v.default
            return out
        if isinstance(v, Tup):
            out = Tup([], v.kind)
            memo[id(v)] = out
            out.items = [rec(i) for i in v.items]
            return out
        if isinstance(v, ArrV):
            out = _shallow(v)
            memo[id(v)] = out
            return out
        if isinstance(v, Obj):
            raise ev.err("copy.deepcopy of an object is not modelled", n, mod)
        return v
    if len(a) != 1:
        raise ev.err("copy.deepcopy with a memo argument", n, mod)
    out_ = rec(a[0])
    if isinstance(out_, DictV) and any(is_sym(v_) and not isinstance(v_, bool) and sp.sympify(v_).free_symbols for v_ in out_.d.values()):
        # the values stand for arrays: two keys that held ONE array still hold one array in the copy (deepcopy's memo); symbols cannot show that,
        # so an in-place update of an element of this mapping is refused by the folder (see s_AugAssign) rather than folded as if the elements were private
        out_.deepcopy_of_array_mapping = True
    return out_


def lib_islice(ev, a, k, n, mod):
    """itertools.islice(iterable, stop) / (iterable, start, stop[, step]) with constant bounds: the items are taken now (a cursor is advanced by exactly
    the items consumed, as the lazy original does once it is exhausted by list())"""
    it = a[0]
    nums = [None if x is None else _const_int(x) for x in a[1:]]
    if len(nums) == 1:
        start, stop, step = 0, nums[0], 1
    elif len(nums) in (2, 3):
        start, stop, step = nums[0] or 0, nums[1], (nums[2] if len(nums) == 3 and nums[2] is not None else 1)
    else:
        raise ev.err("itertools.islice with these arguments", n, mod)
    if stop is None or start < 0 or stop < 0 or step < 1:
        raise ev.err("itertools.islice without a constant, non-negative stop", n, mod)
    out, pos = [], 0
    if hasattr(it, "sym_next"):
        while pos < stop:
            try:
                item = it.sym_next(ev)
            except RaisedV as e:
                if e.exc_name == "StopIteration":
                    break
                raise
            if pos >= start and (pos - start) % step == 0:
                out.append(item)
            pos += 1
        return Tup(out, "list")
    items = ev.iterate(it, n, mod)
    return Tup(list(items[start:stop:step]), "list")


lib_islice.kw = set()
LIB.setdefault("itertools.islice", lib_islice)
lib_copy_copy.kw = set()
lib_copy_deepcopy.kw = set()
LIB.setdefault("copy.copy", lib_copy_copy)
LIB.setdefault("copy.deepcopy", lib_copy_deepcopy)
lib_dict_fromkeys.kw = set()
LIB["builtins.dict.fromkeys"] = lib_dict_fromkeys
LIB["dict.fromkeys"] = lib_dict_fromkeys
LIB.setdefault("numpy.absolute", lib_abs)
LIB.setdefault("numpy.fabs", lib_abs)
LIB.setdefault("numpy.diag", lib_diag)
LIB.setdefault("numpy.einsum", lib_einsum)
LIB.setdefault("numpy.real", _elementwise(sp.re))
LIB.setdefault("numpy.imag", _elementwise(sp.im))
LIB.update({"numpy.transpose": lib_transpose, "ndarray.transpose": lib_transpose, "numpy.stack": lib_stack("stack"), "numpy.column_stack": lib_stack("column_stack"),
            "numpy.vstack": lib_stack("vstack"), "numpy.hstack": lib_stack("hstack"), "numpy.repeat": lib_repeat, "numpy.reshape": lib_reshape,
            "numpy.tile": lib_tile})
LIB.update({"numpy.clip": lib_clip, "ndarray.clip": lib_clip, "numpy.maximum": lib_minmax2("MAXIMUM"), "numpy.minimum": lib_minmax2("MINIMUM"),
            "numpy.fmax": lib_minmax2("MAXIMUM"), "numpy.fmin": lib_minmax2("MINIMUM")})
LIB.update({"numpy.tril": lib_tri(True), "numpy.triu": lib_tri(False)})
LIB.update({"numpy.zeros_like": lib_zeros_like, "numpy.ones_like": lib_ones_like, "numpy.empty_like": lib_empty_like, "numpy.eye": lib_eye,
            "numpy.identity": lib_eye, "numpy.empty": lib_empty})


def lib_dict_clear(ev, a, k, n, mod):
    a[0].d.m.clear()
    return None


def lib_dict_setdefault(ev, a, k, n, mod):
    d, key = a[0], a[1]
    if key not in d.d:
        d.d[key] = a[2] if len(a) > 2 else None
    return d.d[key]


LIB.update({"dict.clear": lib_dict_clear, "dict.setdefault": lib_dict_setdefault})


def _arr_reduce(fn, symbolic=None):
    def f(ev, a, k, n, mod):
        x = a[0]
        axis = k.get("axis", a[1] if len(a) > 1 else None)
        keep = k.get("keepdims", False)
        if not _float_dtype(k.get("dtype")):
            raise ev.err(f"reduction with dtype {k.get('dtype')!r} is not modelled", n, mod)
        if axis is not None and isinstance(axis, Tup) and isinstance(x, ArrV) and x.batch and not x.batch_last and fn in (max, min) \
                and sorted(_const_int(i_) % (x.batch + len(x.shape)) for i_ in axis.items) == list(range(x.batch)) and not keep:
            # the extreme over the whole grid of every cell: one opaque number per cell (NaN when any grid point is NaN)
            tag = sp.Function("GRIDMAX" if fn is max else "GRIDMIN")
            out = ArrV(0, x.shape)
            for key in itertools.product(*[range(d) for d in x.shape]):
                c = sp.sympify(x.get(key))
                out.cells[key] = c if c.is_number else tag(c)
            return out
        if axis is not None:
            if symbolic is None and not all(sp.sympify(x.get(key)).is_number for key in itertools.product(*[range(d) for d in x.shape])):
                raise ev.err("axis-wise reduction of a non-constant small array", n, mod)
            nd = x.batch + len(x.shape)
            ax = _const_int(axis) % nd
            if x.batch_last or ax < x.batch:
                raise ev.err("reduction over a grid axis of a small array", n, mod)
            ca = ax - x.batch
            shape = [d for i, d in enumerate(x.shape) if i != ca]
            out = ArrV(x.batch, [1 if i == ca else d for i, d in enumerate(x.shape)] if keep else shape)
            for key in itertools.product(*[range(d) for d in shape]):
                vals = [sp.sympify(x.get(key[:ca] + (j,) + key[ca:])) for j in range(x.shape[ca])]
                r = fn(vals) if all(v.is_number for v in vals) else symbolic(vals)
                out.cells[(key[:ca] + (0,) + key[ca:]) if keep else key] = r
            return out if out.shape else out.get(())
        vals = [sp.sympify(x.get(key)) for key in itertools.product(*[range(d) for d in x.shape])]
        if all(v.is_number for v in vals):
            return fn(vals)
        if symbolic is not None and not x.batch:
            return symbolic(vals)
        raise ev.err("reduction of a non-constant small array", n, mod)
    f.kw = {"axis", "keepdims", "dtype"}
    return f


def lib_arr_tolist(ev, a, k, n, mod):
    x = a[0]
    def rec(prefix, depth):
        if depth == len(x.shape):
            return x.get(prefix)
        return Tup([rec(prefix + (i,), depth + 1) for i in range(x.shape[depth])], "list")
    return rec((), 0)


def lib_arr_flatten(ev, a, k, n, mod):
    x = a[0]
    keys = list(itertools.product(*[range(d) for d in x.shape]))
    if x.batch:
        # (grid..., k) flattened: the k per-component grid vectors, each still one atom (the order inside a grid vector is the grid's)
        out = ArrV(x.batch, (len(keys),), x.fill, batch_last=x.batch_last)
        out.cells = {(i,): x.get(kk) for i, kk in enumerate(keys)}
        return out
    out = ArrV(0, (len(keys),), x.fill)
    out.cells = {(i,): x.get(kk) for i, kk in enumerate(keys)}
    return out


LIB.update({"arr.tolist": lib_arr_tolist, "arr.flatten": lib_arr_flatten, "arr.ravel": lib_arr_flatten})
# a whole-array atom (one symbol standing for a grid array): flatten / tolist / ravel keep it one atom
LIB.update({"ndarray.flatten": _ID, "ndarray.ravel": _ID, "ndarray.tolist": lambda ev, a, k, n, mod: Tup([a[0]], "list")})
LIB.update({f"set.{m_}": lib_set_method(m_) for m_ in ("union", "intersection", "difference", "symmetric_difference", "issubset", "issuperset", "isdisjoint",
                                                          "add", "discard", "remove", "update")})


def _opaque_extreme(tag):
    """min / max of a small array of expressions: one of its entries, which one depends on the data - an atom over the (sorted) entries, positive
    when they all are"""
    def f(vals):
        vals = sorted(vals, key=sp.default_sort_key)
        if len({sp.srepr(v) for v in vals}) == 1:
            return vals[0]
        pos = all(v.is_positive for v in vals)
        return sp.Function(tag, positive=True if pos else None)(*vals)
    return f


LIB.update({"arr.min": _arr_reduce(min, _opaque_extreme("MINOF")), "arr.max": _arr_reduce(max, _opaque_extreme("MAXOF")), "arr.sum": _arr_reduce(lambda v: sum(v, sp.Integer(0)), lambda v: sum(v, sp.Integer(0))),
            "arr.mean": _arr_reduce(lambda v: sum(v, sp.Integer(0)) / len(v), lambda v: sum(v, sp.Integer(0)) / len(v))})


for _k, _f in LIB_LATE.items():
    LIB.setdefault(_k, _f)
