"""Model of the two-dimensional result tables read back by `cij extract` / `cij extract-geotherm`.

A table of variable `var` has one *role* per axis ('T' = temperature labels, 'P' = pressure labels).  Whatever way the code
slices it (transpose + iloc, numpy.take on the values, boolean-free fancy indexing, helper functions), the folder ends with
values that still say which variable, which axis was fixed at which position, and which axis the result runs along:

  Grid2(var, r, c)                    the values, rows along role r, columns along role c
  Line1(var, fixed, pos, along)       one line of it: axis `fixed` at position `pos`, running along `along`
  Axis(role)                          the labels of one axis;   LABELS_<role> is their numeric vector
  SeriesV(line, index)                a pandas Series around a Line1

Positions are sympy expressions (e.g. ARGMIN(Abs(LABELS_T - TREQ))).
"""
from __future__ import annotations

import sympy as sp

from .report import AnalysisError
from .sym import BoundLib, RaisedV, SliceV, Tup, as_sym, is_sym, kw_accept

ARGMIN, ABS = sp.Function("ARGMIN"), sp.Function("ABSV")


def labels(role):
    return sp.Symbol(f"LABELS_{role}", real=True)


def role_of(x):
    """role of a label vector expression (LABELS_T / LABELS_P), else None"""
    x = sp.sympify(x) if is_sym(x) else x
    for r in ("T", "P"):
        if x == labels(r):
            return r
    return None


def canon_pos(e):
    """canonical form of a position expression: |d| and d**2 select the same arg-min; builtin abs == numpy.abs"""
    e = sp.sympify(e)
    e = e.replace(lambda t: isinstance(t, sp.Abs), lambda t: ABS(t.args[0]))
    changed = True
    while changed:
        changed = False
        for a in list(e.atoms(sp.Function)):
            if a.func == ARGMIN and len(a.args) == 1:
                inner = a.args[0]
                if isinstance(inner, sp.Pow) and inner.exp == 2:
                    e = e.xreplace({a: ARGMIN(ABS(inner.base))})
                    changed = True
                elif inner.func == ABS and isinstance(inner.args[0], sp.Mul) and inner.args[0].could_extract_minus_sign():
                    e = e.xreplace({a: ARGMIN(ABS(-inner.args[0]))})
                    changed = True
    return e


def qha_corner_label(writer="save_x_tp"):
    """the text qha's table writer puts in the corner of the header line (`df.columns.name = ...` in the installed qha.basic_io.out); read back by
    pandas.read_table(index_col=0) it is the NAME of the index"""
    import ast as _ast
    from .libsum import lib_func
    fd = lib_func("qha/basic_io/out.py", writer)
    for st in _ast.walk(fd):
        if isinstance(st, _ast.Assign) and len(st.targets) == 1 and isinstance(st.targets[0], _ast.Attribute) and st.targets[0].attr == "name" \
                and isinstance(st.targets[0].value, _ast.Attribute) and st.targets[0].value.attr == "columns" and isinstance(st.value, _ast.Constant) and isinstance(st.value.value, str):
            return st.value.value
    return None


class Axis:
    def __init__(self, role, parsed=False, name=None):
        self.role, self.parsed = role, parsed
        self.sym = labels(role)
        self.const_key = ("axis", role)
        self.name = name

    def sym_getattr(self, ev, name, node, mod):
        if name in ("to_numpy", "tolist", "to_list", "copy", "rename", "rename_axis", "set_names"):
            return BoundLib("tbl.axis." + ("values" if name.startswith("to") else "same"), self)
        if name == "values":
            return self.sym
        if name == "astype":
            return BoundLib("tbl.axis.astype", self)
        if name == "map":
            return BoundLib("tbl.axis.map", self)
        if name == "size":
            return sp.Symbol(f"N_{self.role}", positive=True, integer=True)
        if name in ("name", "names"):
            return self.name
        if name == "get_loc":
            return BoundLib("tbl.axis.get_loc", self)
        if name in ("max", "min"):
            return BoundLib("tbl.axis." + name, self)
        raise ev.err(f"axis attribute {name}", node, mod)

    def sym_iter(self, ev, n, mod):
        return [self.sym]       # elementwise: [float(x) for x in axis]

    def sym_subscript(self, ev, idx, n, mod):
        return sp.Function(f"LABEL_AT_{self.role}")(as_sym(idx))

    def sym_len(self):
        return sp.Symbol(f"N_{self.role}", positive=True, integer=True)

    def __repr__(self):
        return f"Axis({self.role})"


class Grid2:
    def __init__(self, var, r, c):
        self.var, self.r, self.c = var, r, c
        self.const_key = ("grid2", var, r, c)

    def sym_getattr(self, ev, name, node, mod):
        if name == "T":
            return Grid2(self.var, self.c, self.r)
        if name in ("transpose",):
            return BoundLib("tbl.grid.transpose", self)
        if name in ("copy", "to_numpy", "astype"):
            return BoundLib("tbl.same", self)
        if name == "shape":
            return Tup([sp.Symbol(f"N_{self.r}", positive=True, integer=True), sp.Symbol(f"N_{self.c}", positive=True, integer=True)], "tuple")
        if name == "take":
            return BoundLib("numpy.take", self)
        raise ev.err(f"attribute {name} of the table values", node, mod)

    def line(self, axis, pos):
        """axis = 0: row `pos`; axis = 1: column `pos`"""
        if axis == 0:
            return Line1(self.var, self.r, as_sym(pos), self.c)
        return Line1(self.var, self.c, as_sym(pos), self.r)

    def sym_subscript(self, ev, idx, n, mod):
        items = idx.items if isinstance(idx, Tup) and idx.kind != "list" else [idx]
        full = lambda i: isinstance(i, SliceV) and i.lo is None and i.hi is None and i.step is None or i is Ellipsis
        if len(items) == 1 and not full(items[0]):
            return self.line(0, items[0])
        if len(items) == 2 and full(items[1]) and not full(items[0]):
            return self.line(0, items[0])
        if len(items) == 2 and full(items[0]) and not full(items[1]):
            return self.line(1, items[1])
        if all(full(i) for i in items):
            return self
        if all(isinstance(i, SliceV) or full(i) for i in items) and len(items) <= 2:
            sub = Grid2(self.var, self.r, self.c)
            sub.window = tuple(items)         # a sub-block of the table: no longer the whole table
            sub.const_key = ("grid2", self.var, self.r, self.c, "window")
            return sub
        raise ev.err("index into the table values that is not one row or one column", n, mod)

    def __repr__(self):
        return f"Grid2({self.var}: {self.r} x {self.c})"


class Line1:
    def __init__(self, var, fixed, pos, along):
        self.var, self.fixed, self.pos, self.along = var, fixed, pos, along

    def sym_getattr(self, ev, name, node, mod):
        if name in ("copy", "to_numpy", "astype", "flatten", "ravel", "squeeze", "tolist"):
            return BoundLib("tbl.same", self)
        if name in ("T",):
            return self
        raise ev.err(f"attribute {name} of a table line", node, mod)

    def key(self):
        return (self.var, self.fixed, str(canon_pos(self.pos)), self.along)

    def __repr__(self):
        return f"{self.var}[{self.fixed} at {self.pos}; along {self.along}]"


class SeriesV:
    def __init__(self, line, index, name=None):
        self.line, self.index, self.name = line, index, name

    def sym_getattr(self, ev, name, node, mod):
        if name == "index":
            return self.index
        if name in ("to_numpy", "copy", "astype", "rename"):
            return BoundLib("tbl.series." + ("values" if name == "to_numpy" else "same"), self)
        if name == "values":
            return self.line
        if name == "name":
            return self.name
        raise ev.err(f"series attribute {name}", node, mod)

    def __repr__(self):
        return f"Series({self.line!r}, index={self.index!r})"


PART_ROLES = {}        # role of a part of an axis ("T[a:b]") -> (role of the axis it is a part of, the slice)


class ILoc:
    def __init__(self, t):
        self.t = t

    def sym_subscript(self, ev, idx, n, mod):
        from .sym import SliceV
        items = list(idx.items) if isinstance(idx, Tup) else [idx]
        full = lambda i: isinstance(i, SliceV) and i.lo is None and i.hi is None and i.step is None
        if items and all(isinstance(i, SliceV) for i in items) and len(items) <= 2 and not all(full(i) for i in items):
            # df.iloc[a:b, c:d]: a part of the table - its axes are PARTS of the table's axes (other label vectors)
            rows = items[0]
            cols = items[1] if len(items) > 1 else SliceV(None, None, None)
            t = self.t
            ri = t.index if full(rows) else f"{t.index}[{rows!r}]"
            ci = t.columns if full(cols) else f"{t.columns}[{cols!r}]"
            if not full(rows):
                PART_ROLES[ri] = (t.index, rows)
            if not full(cols):
                PART_ROLES[ci] = (t.columns, cols)
            return Table(t.var, ri, ci, dict(t.parsed))
        ln = self.t.values().sym_subscript(ev, idx, n, mod)
        if isinstance(ln, Line1):
            return SeriesV(ln, Axis(ln.along, True), None)
        return ln


class Table:
    def __init__(self, var, index="T", columns="P", parsed=None):
        self.var, self.index, self.columns = var, index, columns
        self.parsed = parsed or {"index": False, "columns": False}

    def values(self):
        return Grid2(self.var, self.index, self.columns)

    def sym_getattr(self, ev, name, node, mod):
        if name == "T":
            t_ = Table(self.var, self.columns, self.index, {"index": self.parsed["columns"], "columns": self.parsed["index"]})
            t_.index_name, t_.columns_name = getattr(self, "columns_name", None), getattr(self, "index_name", None)
            return t_
        if name == "transpose":
            return BoundLib("tbl.table.transpose", self)
        if name == "columns":
            return Axis(self.columns, self.parsed["columns"], getattr(self, "columns_name", None))
        if name == "index":
            return Axis(self.index, self.parsed["index"], getattr(self, "index_name", None))
        if name == "iloc":
            return ILoc(self)
        if name == "to_numpy":
            return BoundLib("tbl.table.values", self)
        if name == "values":
            return self.values()
        if name == "shape":
            return self.values().sym_getattr(ev, "shape", node, mod)
        if name in ("copy", "astype", "sort_index", "rename_axis"):
            return BoundLib("tbl.same", self)
        if name == "set_axis":
            return BoundLib("tbl.table.set_axis", self)
        raise ev.err(f"table attribute {name}", node, mod)

    def sym_subscript(self, ev, idx, n, mod):
        """df[key]: the COLUMN whose label equals key (a look-up by label, never by position)"""
        if is_sym(idx) and not isinstance(idx, bool):
            ln = Line1(self.var, self.columns, sp.Function("POSITION_OF_LABEL")(labels(self.columns), as_sym(idx)), self.index)
            return SeriesV(ln, Axis(self.index, self.parsed["index"]), None)
        raise ev.err("subscript of the table that is not one column label", n, mod)

    def with_axis(self, ev, which, v, node=None, mod=None):
        """the table with its `which` ('index' / 'columns') labels replaced (a new table, as DataFrame.set_axis returns)"""
        t = Table(self.var, self.index, self.columns, dict(self.parsed))
        t.sym_setattr(ev, which, v, node, mod)
        return t

    def sym_setattr(self, ev, name, v, node, mod):
        if name in ("columns", "index"):
            role = self.columns if name == "columns" else self.index
            ok = (isinstance(v, Tup) and len(v.items) == 1 and v.items[0] == labels(role)) or (isinstance(v, Axis) and v.role == role and v.parsed) \
                or (is_sym(v) and sp.sympify(v) == labels(role))
            if not ok:
                e = ev.err(f"{name} replaced by something that is not float(label) of the same axis", node, mod)
                e.label_mismatch = (name, v)
                raise e
            self.parsed[name] = True
            return
        raise ev.err(f"store to table attribute {name}", node, mod)

    def __repr__(self):
        return f"Table({self.var}: {self.index} x {self.columns})"


class OutTable:
    """pandas.DataFrame(columns=..., index=...) filled column by column"""

    def __init__(self, columns, index, data=None):
        self.columns, self.index, self.cols = columns, index, {}
        if data is not None:
            for k_, v in data.items():
                self.cols[k_] = v

    def sym_store(self, ev, idx, v, t, mod):
        self.cols[idx] = v

    def sym_getattr(self, ev, name, node, mod):
        if name == "to_string":
            return BoundLib("outtable.to_string", self)
        if name == "index":
            return self.index
        if name == "columns":
            return self.columns
        raise ev.err(f"attribute {name} of the output table", node, mod)


def intrinsics(out=None):
    """transfer functions for numpy / pandas calls on these values"""
    out = out if out is not None else {}

    def same(ev, a, k):
        k.all()
        return a[0]

    def axis_values(ev, a, k):
        k.all()
        return a[0].sym

    def axis_astype(ev, a, k):
        dt = a[1] if len(a) > 1 else k.get("dtype")
        nm = dt if isinstance(dt, str) else getattr(dt, "name", "")
        if (nm or "").replace("builtins.", "").replace("numpy.", "") not in ("float", "float64", "double"):
            raise AnalysisError(f"axis labels converted to {dt!r}")
        return Axis(a[0].role, True)

    def axis_map(ev, a, k):
        fn = a[1]
        if getattr(fn, "name", "") in ("builtins.float", "numpy.float64"):
            return Axis(a[0].role, True)
        raise AnalysisError("axis labels mapped through something other than float")

    def take(ev, a, k):
        x = a[0]
        idx = a[1] if len(a) > 1 else k.get("indices")
        axis = k.get("axis", a[2] if len(a) > 2 else None)
        if isinstance(x, Table):
            x = x.values()
        if not isinstance(x, Grid2) or axis is None:
            raise AnalysisError("numpy.take of something that is not the table values / without an axis")
        ax = int(as_sym(axis))
        return x.line(ax % 2, idx)

    def argmin(ev, a, k):
        k.get("axis")
        return ARGMIN(as_sym(a[0]))

    def absf(ev, a, k):
        return ABS(as_sym(a[0]))

    def series(ev, a, k):
        data = a[0] if a else k.get("data")
        index = k.get("index", a[1] if len(a) > 1 else None)
        k.get("name"), k.get("dtype"), k.get("copy")
        if isinstance(data, SeriesV):
            data = data.line
        if not isinstance(data, Line1):
            raise AnalysisError("pandas.Series of something that is not one line of a table")
        if index is not None and not (isinstance(index, Axis) and index.role == data.along) and not (is_sym(index) and role_of(index) == data.along):
            raise RaisedV("ValueError")          # labelled by the wrong axis: recorded as such
        ax = index if isinstance(index, Axis) else Axis(data.along, True)
        return SeriesV(data, ax, k.get("name"))

    def dataframe(ev, a, k):
        data = a[0] if a else k.get("data")
        cols, index = k.get("columns"), k.get("index")
        k.get("dtype"), k.get("copy")
        if data is None:
            return OutTable(cols, index)
        from .sym import DictV
        if isinstance(data, DictV):
            t = OutTable(cols if cols is not None else Tup(list(data.d.keys()), "list"), index, dict(data.d.items()))
            if index is None:
                first = next(iter(data.d.values()), None)
                t.index = first.index if isinstance(first, SeriesV) else None
            return t
        raise AnalysisError("pandas.DataFrame(data) of this shape is not modelled")

    def to_string(ev, a, k):
        out.update(table=a[0], opts=k.all())
        return "TEXT"

    def grid_transpose(ev, a, k):
        return Grid2(a[0].var, a[0].c, a[0].r)

    def table_transpose(ev, a, k):
        return a[0].sym_getattr(ev, "T", None, None)

    def table_set_axis(ev, a, k):
        axis = k.get("axis", a[2] if len(a) > 2 else 0)
        which = {"0": "index", "index": "index", "rows": "index", "1": "columns", "columns": "columns"}.get(str(axis))
        if which is None or k.get("inplace"):
            raise AnalysisError("DataFrame.set_axis with this axis / inplace is not modelled")
        k.get("copy")
        return a[0].with_axis(ev, which, a[1] if len(a) > 1 else k.get("labels"))

    return {
        "tbl.axis.max": lambda ev, a, k: sp.Function("MAX")(a[0].sym), "tbl.axis.min": lambda ev, a, k: sp.Function("MIN")(a[0].sym),
        "numpy.ptp": lambda ev, a, k: sp.Function("MAX")(as_sym(a[0])) - sp.Function("MIN")(as_sym(a[0])),
        "numpy.max": lambda ev, a, k: sp.Function("MAX")(as_sym(a[0])), "numpy.min": lambda ev, a, k: sp.Function("MIN")(as_sym(a[0])),
        "numpy.amax": lambda ev, a, k: sp.Function("MAX")(as_sym(a[0])), "numpy.amin": lambda ev, a, k: sp.Function("MIN")(as_sym(a[0])),
        "tbl.same": same, "tbl.axis.values": axis_values, "tbl.axis.same": same, "tbl.axis.astype": axis_astype, "tbl.axis.map": axis_map,
        "tbl.series.values": lambda ev, a, k: a[0].line, "tbl.series.same": same, "tbl.table.values": lambda ev, a, k: (k.all(), a[0].values())[1],
        "tbl.grid.transpose": grid_transpose, "tbl.table.transpose": table_transpose, "tbl.table.set_axis": table_set_axis,
        "numpy.take": take, "numpy.argmin": argmin, "ndarray.argmin": argmin, "numpy.nanargmin": argmin,
        "numpy.abs": absf, "numpy.absolute": absf, "numpy.fabs": absf, "builtins.abs": absf,
        "pandas.Series": series, "pandas.DataFrame": dataframe, "outtable.to_string": to_string,
        "identity": lambda ev, a, k: a[0],
    }
