NS = "cij/core/phonon_contribution/nonshear.py"
VARIANTS = [
    dict(id="prefactor-1/5->1/15-long", file=NS, old="""            1 / 5 / numpy.prod(self.e, axis=0),
            (1 / 3 / self.e[0], 1 / 3 / self.e[1]),
            1 / 5 / numpy.prod(self.e, axis=0)""", new="""            1 / 5 / numpy.prod(self.e, axis=0),
            (1 / 3 / self.e[0], 1 / 3 / self.e[1]),
            1 / 15 / numpy.prod(self.e, axis=0)"""),
    dict(id="drop-3na-zp-offd", file=NS, old="""                - self.mode_gamma[0] * self.freq_array
            ) * 3 * self.na""", new="""                - self.mode_gamma[0] * self.freq_array
            ) * self.na"""),
    dict(id="sign-flip-thermal", file=NS, old="""                - self.Q2 * \\
                    self.mode_gamma[2][nax,:,:,:] \\
                + self.Q1 * (
                    + self.mode_gamma[2][nax,:,:,:]
                    - self.mode_gamma[0][nax,:,:,:]
                    + self.mode_gamma[1][0][nax,:,:,:]""", new="""                + self.Q2 * \\
                    self.mode_gamma[2][nax,:,:,:] \\
                + self.Q1 * (
                    + self.mode_gamma[2][nax,:,:,:]
                    - self.mode_gamma[0][nax,:,:,:]
                    + self.mode_gamma[1][0][nax,:,:,:]"""),
    dict(id="mode_gamma-reordered-producer", file="cij/core/calculator.py", old="self.mode_gamma = [vdr_dv, gamma_i, gamma_i**2]",
         new="self.mode_gamma = [gamma_i, vdr_dv, gamma_i**2]"),
    dict(id="unpack-swapped", file="cij/core/calculator.py", old="interp_freq, gamma_i, vdr_dv = interpolate_modes(",
         new="interp_freq, vdr_dv, gamma_i = interpolate_modes("),
    dict(id="inner-axis-dims-2", file=NS, old="numpy.average(_amount, axis=dims - 1)", new="numpy.average(_amount, axis=dims - 2)"),
    dict(id="gamma-mask-0:2", file=NS, old="[0, slice(0, 3)]", new="[0, slice(0, 2)]"),
    dict(id="copy-removed", file=NS, old="_amount = amount.copy()", new="_amount = amount"),
    dict(id="to-eV", file=NS, old="h = units.Quantity(_h, units.J * units.m).to(units.rydberg * units.cm).magnitude\n        return h / 2 / self.v_array \\\n            * self.average_over_modes(\n                + self.mode_gamma[2] * self.freq_array\n                - self.mode_gamma[0] * self.freq_array\n                + self.mode_gamma[1][0]",
         new="h = units.Quantity(_h, units.J * units.m).to(units.eV * units.cm).magnitude\n        return h / 2 / self.v_array \\\n            * self.average_over_modes(\n                + self.mode_gamma[2] * self.freq_array\n                - self.mode_gamma[0] * self.freq_array\n                + self.mode_gamma[1][0]"),
    dict(id="t-v-swapped", file=NS, old="""        ret = k * self.t_array[:, nax] / self.v_array[nax, :] \\
            * self.average_over_modes(
                - self.Q2 * \\
                    self.mode_gamma[2][nax,:,:,:] \\
                + self.Q1 * (
                    + self.mode_gamma[2][nax,:,:,:]
                    - self.mode_gamma[0][nax,:,:,:]
                )""", new="""        ret = k * self.v_array[nax, :] / self.t_array[:, nax] \\
            * self.average_over_modes(
                - self.Q2 * \\
                    self.mode_gamma[2][nax,:,:,:] \\
                + self.Q1 * (
                    + self.mode_gamma[2][nax,:,:,:]
                    - self.mode_gamma[0][nax,:,:,:]
                )"""),
    dict(id="t0-mask-dropped-offd", file=NS, old="""        ret[numpy.where(self.t_array == 0),:] = 0
        
        return ret

    @LazyProperty
    def value_isothermal(self):
        return self.zero_point""", new="""        return ret

    @LazyProperty
    def value_isothermal(self):
        return self.zero_point"""),
    dict(id="pstat-sign", file=NS, old="- self.calculator.static_p_array[nax, :]", new="+ self.calculator.static_p_array[nax, :]"),
    dict(id="hdivk-units", file=NS, old="units.J * units.m / units.eV * units.K).to(units.cm * units.K)", new="units.J * units.m / units.eV * units.K).to(units.m * units.K)"),
    dict(id="Q1-plus", file=NS, old="return self.Q / (numpy.exp(self.Q) - 1)", new="return self.Q / (numpy.exp(self.Q) + 1)"),
    dict(id="e0-e1-swapped-in-P-term-offd-noop", expect="silent", file=NS, old="""            1 / 15 / numpy.prod(self.e, axis=0),
            (1 / 3 / self.e[0], 1 / 3 / self.e[1]),
            1 / 15 / numpy.prod(self.e, axis=0)""", new="""            1 / (15 * self.e[0] * self.e[1]),
            (1 / 3 / self.e[0], 1 / 3 / self.e[1]),
            1 / 15 / self.e[1] / self.e[0]"""),
    dict(id="equiv-Q2-old-form", expect="silent", file=NS, old="return self.Q ** 2 * numpy.exp(-self.Q) / numpy.expm1(-self.Q) ** 2",
         new="return self.Q ** 2 * numpy.exp(self.Q) / (numpy.exp(self.Q) - 1) ** 2"),
    dict(id="equiv-factor-out-freq", expect="silent", file=NS, old="""                + self.mode_gamma[2] * self.freq_array
                - self.mode_gamma[0] * self.freq_array
                + self.mode_gamma[1][0] * self.freq_array
            ) * 3 * self.na""", new="""                (self.mode_gamma[2] - self.mode_gamma[0] + self.mode_gamma[1][0]) * self.freq_array
            ) * self.na * 3"""),
    dict(id="equiv-axis-minus1", expect="silent", file=NS, old="numpy.average(_amount, axis=dims - 1)", new="numpy.average(_amount, axis=-1)"),
    dict(id="equiv-split-average", expect="silent", file=NS, old="""            * self.average_over_modes(
                + self.mode_gamma[2] * self.freq_array
                - self.mode_gamma[0] * self.freq_array
            ) * 3 * self.na""", new="""            * (self.average_over_modes(self.mode_gamma[2] * self.freq_array)
                - self.average_over_modes(self.mode_gamma[0] * self.freq_array)
            ) * 3 * self.na"""),
]
