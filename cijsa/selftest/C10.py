F = "cij/util/voigt.py"
VARIANTS = [
    dict(id="table-4-6-swapped", file=F, old="    4: (2, 3),\n    5: (1, 3),\n    6: (1, 2)", new="    4: (1, 2),\n    5: (1, 3),\n    6: (2, 3)"),
    dict(id="strain-sort-removed", file=F, old="        i, j = sorted((i, j))\n", new=""),
    dict(id="modulus-sort-key-removed-voigt", file=F, old="""        return cls(
            *sorted((
                StrainRepresentation.from_voigt(i),
                StrainRepresentation.from_voigt(j)
            ), key=lambda e: e.voigt)
        )""", new="""        return cls(
            StrainRepresentation.from_voigt(i),
            StrainRepresentation.from_voigt(j)
        )"""),
    dict(id="multiplicity-term-dropped", file=F, old="            << (self.i.i != self.i.j) \\\n", new=""),
    dict(id="is_shear-and", file=F, old="return self.i.voigt in {4, 5, 6} or self.j.voigt in {4, 5, 6}", new="return self.i.voigt in {4, 5, 6} and self.j.voigt in {4, 5, 6}"),
    dict(id="bounds-check-removed", file=F, old="""        if (i, j) not in VOIGT_TO_STANDARD.values():
            raise RuntimeError(f"Invalid standard index {i}{j}")
""", new=""),
    dict(id="int-threshold", file=F, old="            if i < 10:\n                return cls.from_voigt(i)", new="            if i < 6:\n                return cls.from_voigt(i)"),
    dict(id="standard-view-swapped", file=F, old="        return (*self.i, *self.j)", new="        return (*self.j, *self.i)"),
    dict(id="calc-type-swapped", file=F, old="""        if self.is_longitudinal:
            return ElasticModulusCalculationType.LONGITUDINAL
        if self.is_off_diagonal:
            return ElasticModulusCalculationType.OFF_DIAGONAL""", new="""        if self.is_longitudinal:
            return ElasticModulusCalculationType.OFF_DIAGONAL
        if self.is_off_diagonal:
            return ElasticModulusCalculationType.LONGITUDINAL"""),
    dict(id="sort-key-standard", file=F, old="""                StrainRepresentation.from_standard(i, j),
                StrainRepresentation.from_standard(k, l),
            ), key=lambda e: e.voigt)""", new="""                StrainRepresentation.from_standard(i, j),
                StrainRepresentation.from_standard(k, l),
            ), key=lambda e: e.standard)"""),
    dict(id="eq-override", file=F, old="""    @property
    def is_longitudinal(self) -> bool:""", new="""    def __eq__(self, other):
        return self.voigt[0] == other.voigt[0]

    @property
    def is_longitudinal(self) -> bool:"""),
    dict(id="equiv-multiplicity-pow", expect="silent", file=F, old="""        return 1 \\
            << (self.i != self.j) \\
            << (self.i.i != self.i.j) \\
            << (self.j.i != self.j.j)""", new="""        return 2 ** ((self.i != self.j) + (self.i.i != self.i.j) + (self.j.i != self.j.j))"""),
    dict(id="equiv-minmax", expect="silent", file=F, old="        i, j = sorted((i, j))\n", new="        i, j = min(i, j), max(i, j)\n"),
    dict(id="equiv-inverse-literal", expect="silent", file=F, old="STANDARD_TO_VOIGT = dict((v, k) for k, v in VOIGT_TO_STANDARD.items())", new="STANDARD_TO_VOIGT = {v: k for k, v in VOIGT_TO_STANDARD.items()}"),
]
