import sys
from . import run
props = sys.argv[1:] or [f"C{i:02d}" for i in range(1, 21)]
tot = fail = 0
for p in props:
    n, b = run(p)
    tot += n
    fail += b
print(f"selftest: {tot} variants, {fail} wrong")
sys.exit(2 if fail else 0)
