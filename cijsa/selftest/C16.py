F = "cij/io/config/config.py"
S = "cij/data/schema/config.schema.json"
VARIANTS = [
    dict(id="default-wins", file=F, old="""        else:
            output_dict[k] = input_dict[k]
    return output_dict""", new="""        else:
            output_dict[k] = default_dict[k]
    return output_dict"""),
    dict(id="nested-not-merged", file=F, old="output_dict[k] = update_config(input_dict[k], default_dict[k])", new="output_dict[k] = input_dict[k]"),
    dict(id="nested-args-swapped", file=F, old="output_dict[k] = update_config(input_dict[k], default_dict[k])", new="output_dict[k] = update_config(default_dict[k], input_dict[k])"),
    dict(id="only-input-keys", file=F, old="for k in set([*input_dict.keys(), *default_dict.keys()]):", new="for k in set([*input_dict.keys()]):"),
    dict(id="mutates-default", file=F, old="    output_dict = {}\n    for k in set(", new="    output_dict = default_dict\n    for k in set("),
    dict(id="apply-args-swapped", file=F, old="return update_config(input_dict, default_dict)", new="return update_config(default_dict, input_dict)"),
    dict(id="json-by-yaml-suffix", file=F, old='        elif suffix in {".json"}:', new='        elif suffix in {".json", ".txt"}:'),
    dict(id="validation-skipped-for-json", file=F, old="    if validate:\n        validate_config(config)", new="    if validate and suffix != '.json':\n        validate_config(config)"),
    dict(id="schema-NT-min", file=S, old='"title": "Number of temperatures on the grid",\n                    "minimum": 1', new='"title": "Number of temperatures on the grid",\n                    "minimum": 0'),
    dict(id="schema-enum-typo", file=S, old='"enum": ["lsq_poly", "lagrange", "spline", "krogh", "pchip", "hermite", "akima"]', new='"enum": ["lsq_poly", "lagrange", "splines", "krogh", "pchip", "hermite", "akima"]'),
    dict(id="schema-required-dropped", file=S, old='"required": ["qha", "elast"],', new='"required": ["qha"],'),
    dict(id="schema-additional-symmetry", file=S, old="""                        }
                    },
                    "additionalProperties": false
                }
            },
            "additionalProperties": false,""", new="""                        }
                    }
                }
            },
            "additionalProperties": false,"""),
    dict(id="default-file-invalid", file="cij/data/default/settings.yaml", old="      interpolator: lsq_poly", new="      interpolator: lsq"),
    dict(id="validate-other-schema", file="cij/io/config/validate.py", old="    jsonschema.validate(instance=config, schema=schema)", new="    jsonschema.validate(instance=schema, schema=schema)"),
    dict(id="equiv-merge-dictunion", expect="silent", file=F, old="for k in set([*input_dict.keys(), *default_dict.keys()]):", new="for k in [*input_dict.keys(), *[d for d in default_dict.keys() if d not in input_dict]]:"),
]
