F = "cij/util/fill.py"
C = "cij/cli/fill.py"
VARIANTS = [
    dict(id="rank-le", file=F, old="if rank < nsym and not ignore_rank:", new="if rank <= nsym and not ignore_rank:"),
    dict(id="flags-swapped", edits=[(F, "if rank < nsym and not ignore_rank:", "if rank < nsym and not ignore_residuals:"), (F, "if numpy.any(residuals > residual_atol) and not ignore_residuals:", "if numpy.any(residuals > residual_atol) and not ignore_rank:")]),
    dict(id="residual-ge", file=F, old="numpy.any(residuals > residual_atol)", new="numpy.any(residuals >= residual_atol)"),
    dict(id="residual-guard-removed", file=F, old="    if numpy.any(residuals > residual_atol) and not ignore_residuals:\n", new="    if False:\n"),
    dict(id="guard-after-writeback", edits=[(F, """    if rank < nsym and not ignore_rank:
        raise Warning(f"Rank of constraints {rank} is smaller than input {nsym}!")
    
""", ""), (F, """    # drop empty columns
""", """    if rank < nsym and not ignore_rank:
        raise Warning(f"Rank of constraints {rank} is smaller than input {nsym}!")

    # drop empty columns
""")]),
    dict(id="lower-removed-collect", file=F, old='        sym = sym.lower()   # Warning: user may use upper case "Cij" instead of "cij"!\n', new=""),
    dict(id="lower-removed-writeback", file=F, old="if key.lower() == index), index)", new="if key == index), index)"),
    dict(id="probe-exists", file=F, old="    if Path(system).is_file():", new="    if Path(system).exists():"),
    dict(id="unbound-constraints", file=F, old="""    if Path(system).is_file():
        constraints = system # path of a user-written constraints file
    else:
        constraints = Path("constraints") / system
        constraints = get_data_fname(str(constraints))""", new="""    if not Path(system).exists():
        constraints = Path("constraints") / system
        constraints = get_data_fname(str(constraints))"""),
    dict(id="user-file-ignored", file=F, old="        constraints = system # path of a user-written constraints file\n", new='        constraints = get_data_fname(str(Path("constraints") / Path(system).name))\n'),
    dict(id="loc-writeback", file=F, old="        elast[key] = col\n", new="        elast.loc[:, key] = col\n"),
    dict(id="drop-any-column", file=F, old='        if not re.search(r"c(\\d)(\\d)", index.lower()): continue\n', new=""),
    dict(id="cli-option-renamed", file=C, old='@click.option("--ignore-rank", is_flag=True,', new='@click.option("--ignore-ranks", is_flag=True,'),
    dict(id="cli-drop-atol-default", file=C, old='@click.option("--drop-atol", type=click.FLOAT, default=1e-8,', new='@click.option("--drop-atol", type=click.FLOAT, default=1e-3,'),
    dict(id="equiv-guard-nested", expect="silent", file=F, old="""    if rank < nsym and not ignore_rank:
        raise Warning(f"Rank of constraints {rank} is smaller than input {nsym}!")""", new="""    if not ignore_rank:
        if not rank >= nsym:
            raise Warning(f"Rank of constraints {rank} is smaller than input {nsym}!")"""),
    dict(id="equiv-packaged-first", expect="silent", file=F, old="""    if Path(system).is_file():
        constraints = system # path of a user-written constraints file
    else:
        constraints = Path("constraints") / system
        constraints = get_data_fname(str(constraints))""", new="""    constraints = system
    if not Path(system).is_file():
        constraints = get_data_fname(str(Path("constraints") / system))"""),
]
