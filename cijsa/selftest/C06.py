F = "cij/core/calculator.py"
A = "cij/core/qha_adapter.py"
VARIANTS = [
    dict(id="v2p-target-gpa", file=A, old="    def p_array(self):\n        return self.calculator.desired_pressures\n", new="    def p_array(self):\n        return self.calculator.desired_pressures_gpa\n"),
    dict(id="v2p-args-swapped", file=F, old="return v2p(func_of_t_v, self.calculator.qha_calculator.volume_base.pressures, self.p_array)", new="return v2p(self.calculator.qha_calculator.volume_base.pressures, func_of_t_v, self.p_array)"),
    dict(id="pbase-voigt-forwards-reuss", file=F, old="return self.v2p(self.calculator.volume_base.bulk_modulus_voigt)", new="return self.v2p(self.calculator.volume_base.bulk_modulus_reuss)"),
    dict(id="range-check-removed", file=A, old="        calculator.desired_pressure_status()\n", new=""),
    dict(id="range-check-before-refine", edits=[(A, "        calculator.desired_pressure_status()\n", ""), (A, "        calculator.refine_grid()\n", "        calculator.desired_pressure_status()\n        calculator.refine_grid()\n")]),
    dict(id="raise-demoted", file=A, old="""            raise ValueError(
                "DESIRED PRESSURE is too high (NTV is too large), qha results might not be right!")""", new="""            logger.error(
                "DESIRED PRESSURE is too high (NTV is too large), qha results might not be right!")"""),
    dict(id="guard-flag", file=A, old="if self.p_tv_gpa[:, -1].min() < self.desired_pressures_gpa.max():", new="if self.p_tv_gpa[:, -1].min() < self.desired_pressures_gpa.max() and self.settings.get('strict', False):"),
    dict(id="guard-first-volume", file=A, old="if self.p_tv_gpa[:, -1].min() < self.desired_pressures_gpa.max():", new="if self.p_tv_gpa[:, 0].min() < self.desired_pressures_gpa.max():"),
    dict(id="caught-in-load", file=F, old="""        self.qha_calculator = QHACalculatorAdapter(
            self.config["qha"]["settings"],
            self.qha_input
        )""", new="""        try:
            self.qha_calculator = QHACalculatorAdapter(
                self.config["qha"]["settings"],
                self.qha_input
            )
        except ValueError:
            logger.warning("pressure range")"""),
    dict(id="iso-view-adiabatic", file=F, old="""        return CijPressureBaseModulusInterface(
            self.calculator.modulus_isothermal,
            self.v2p
        )""", new="""        return CijPressureBaseModulusInterface(
            self.calculator.modulus_adiabatic,
            self.v2p
        )"""),
    dict(id="volumes-tv", file=A, old="        return self.calculator.v_tp_bohr3", new="        return self.calculator.finer_volumes_bohr3"),
    dict(id="pressures-gpa", file=A, old="        return self.calculator.p_tv_au", new="        return self.calculator.p_tv_gpa"),
    dict(id="equiv-v2p-keywords", expect="silent", file=F, old="return v2p(func_of_t_v, self.calculator.qha_calculator.volume_base.pressures, self.p_array)", new="return v2p(func_of_t_v, desired_pressures=self.p_array, p_of_t_v=self.calculator.qha_calculator.volume_base.pressures)"),
    dict(id="equiv-guard-gt", expect="silent", file=A, old="if self.p_tv_gpa[:, -1].min() < self.desired_pressures_gpa.max():", new="if self.desired_pressures_gpa.max() > self.p_tv_gpa[:, -1].min():"),
]
