D = "cij/data/constraints/"
F = "cij/util/fill.py"
E = "cij/io/traditional/elast_dat.py"
VARIANTS = [
    dict(id="hex-c66-factor", file=D + "hexagonal", old="c66 = (c11 - c12) / 2", new="c66 = (c11 - c12)"),
    dict(id="trig7-sign", file=D + "trigonal7", old="c15 = -c25 = -c46", new="c15 = -c25 = c46"),
    dict(id="trig6-c14-sign", file=D + "trigonal6", old="c14 = -c24 = c56", new="c14 = c24 = c56"),
    dict(id="tetra7-c16", file=D + "tetragonal7", old="c16 = -c26\n", new="c16 = c26\n"),
    dict(id="cubic-missing-relation", file=D + "cubic", old="c44 = c55 = c66\n", new="c44 = c55\n"),
    dict(id="mono-extra-relation", file=D + "monoclinic", old="c45 = c56 = 0", new="c45 = c56 = c15 = 0"),
    dict(id="ortho-missing-zero", file=D + "orthorhombic", old="c45 = c46 = c56 = 0", new="c45 = c46 = 0"),
    dict(id="parse-chain-to-previous", file=F, old="            for part in parts[1:]:\n                eqns.append(parts[0] - part)", new="            for part in parts[2:]:\n                eqns.append(parts[0] - part)"),
    dict(id="parse-sum", file=F, old="eqns.append(parts[0] - part)", new="eqns.append(parts[0] + part)"),
    dict(id="writeback-order", file=F, old="    for index, col in zip(symbols, x):", new="    for index, col in zip(sorted(symbols, reverse=True), x):"),
    dict(id="symbols-lower-triangle", file=F, old="        if i <= j\n    ])", new="        if i <= j or (i, j) == (2, 1)\n    ])"),
    dict(id="apply-key-slice", file=E, old="(c_(key[1:]), val)", new="(c_(key[:2][-1] + key[1]), val)"),
    dict(id="apply-row-shift", file=E, old="for key, val in df.iloc[i, :].items()", new="for key, val in df.iloc[0, :].items()"),
    dict(id="apply-result-dropped", file=E, old="    df = fill_cij(df, **symmetry)", new="    fill_cij(df, **symmetry)"),
    dict(id="equiv-relation-reordered", expect="silent", file=D + "cubic", old="c11 = c22 = c33", new="c33 = c11 = c22"),
    dict(id="equiv-hex-form", expect="silent", file=D + "hexagonal", old="c66 = (c11 - c12) / 2", new="2 * c66 = c11 - c12"),
    dict(id="equiv-parse-loop", expect="silent", file=F, old="            for part in parts[1:]:\n                eqns.append(parts[0] - part)", new="            first = parts[0]\n            for part in parts[1:]:\n                eqns.append(part - first)"),
]
