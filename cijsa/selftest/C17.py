Q = "cij/io/traditional/qha_input.py"
E = "cij/io/traditional/elast_dat.py"
F = "cij/cli/fill.py"
VARIANTS = [
    dict(id="write-V-E-swapped", file=Q, old='lines.append(f"P= {p:12.6f} V= {v:12.6f} E= {e:12.6f}")', new='lines.append(f"P= {p:12.6f} V= {e:12.6f} E= {v:12.6f}")'),
    dict(id="read-groups-order", file=Q, old="            yield VolumeData(P, V, E, list(_yield_q_point_data()))", new="            yield VolumeData(P, E, V, list(_yield_q_point_data()))"),
    dict(id="header-order", file=Q, old="""        input_data.nv,
        input_data.nq,
        input_data.np,""", new="""        input_data.nv,
        input_data.np,
        input_data.nq,"""),
    dict(id="weight-sentinel", file=Q, old='    lines.append("weight")', new='    lines.append("q-weights")'),
    dict(id="weight-field", file=Q, old="yield QPointWeight(tuple(map(float, words[0:3])), float(words[3]))", new="yield QPointWeight(tuple(map(float, words[0:3])), float(words[2]))"),
    dict(id="modes-count-nq", file=Q, old="        for _ in range(np):\n            yield float(next(lines))", new="        for _ in range(nq):\n            yield float(next(lines))"),
    dict(id="precision-lost", file=Q, old='                lines.append(f"{cm_1:12.6f}")', new='                lines.append(f"{cm_1:12.1f}")'),
    dict(id="elast-volume-column", file=E, old="ret.volumes.append(ElastVolumeData(fields[0], dict(zip(keys[1:], fields[1:]))))", new="ret.volumes.append(ElastVolumeData(fields[1], dict(zip(keys[1:], fields[1:]))))"),
    dict(id="elast-key-shift", file=E, old="ret.volumes.append(ElastVolumeData(fields[0], dict(zip(keys[1:], fields[1:]))))", new="ret.volumes.append(ElastVolumeData(fields[0], dict(zip(keys[1:], fields[2:]))))"),
    dict(id="elast-header-fields", file=E, old="        vref = float(fields[0])\n        nv = int(fields[1])\n        cellmass = float(fields[2])", new="        vref = float(fields[2])\n        nv = int(fields[1])\n        cellmass = float(fields[0])"),
    dict(id="elast-lattice-skips-row", file=E, old="            if line.strip() != \"\":\n                for _ in range(nv):", new="            if line.strip() != \"\":\n                fp.readline()\n                for _ in range(nv - 1):"),
    dict(id="fill-rows-N", file=F, old="        for i in range(N + 1):", new="        for i in range(N):"),
    dict(id="fill-index-printed", file=F, old='elast.to_string(index=False) + "\\n"', new='elast.to_string() + "\\n"'),
    dict(id="fill-header-once", file=F, old="        line = fp.readline()\n        N = int(line.strip().split()[1])\n        sys.stdout.write(line)", new="        line = fp.readline()\n        N = int(line.strip().split()[1])"),
    dict(id="fill-N-field", file=F, old="N = int(line.strip().split()[1])", new="N = int(float(line.strip().split()[0]))"),
    dict(id="equiv-write-format", expect="silent", file=Q, old='lines.append(f"P= {p:12.6f} V= {v:12.6f} E= {e:12.6f}")', new='lines.append("P= %12.6f V= %12.6f E= %12.6f" % (p, v, e))'),
]
