S = "cij/misc/evec_sort.py"
D = "cij/misc/evec_disp2eig.py"
L = "cij/misc/evec_load.py"
VARIANTS = [
    dict(id="no-conj", file=S, old="m = numpy.conj(numpy.array(base_evecs)) @ numpy.array(target_evecs).T", new="m = numpy.array(base_evecs) @ numpy.array(target_evecs).T"),
    dict(id="rows-target", file=S, old="m = numpy.conj(numpy.array(base_evecs)) @ numpy.array(target_evecs).T", new="m = numpy.conj(numpy.array(target_evecs)) @ numpy.array(base_evecs).T"),
    dict(id="row-only-elimination", file=S, old="        m[:, idx[1]] = 0\n", new=""),
    dict(id="place-inverse", file=S, old="sorted_arr[idx[0]] = target_arr[idx[1]]", new="sorted_arr[idx[1]] = target_arr[idx[0]]"),
    dict(id="argmax-no-abs", file=S, old="idx = numpy.unravel_index(numpy.argmax(numpy.abs(m)), m.shape)", new="idx = numpy.unravel_index(numpy.argmax(m), m.shape)"),
    dict(id="guard-weakened", file=S, old="    if len(s) != 1 or ndim not in s:", new="    if len(s) != 1 and ndim not in s:"),
    dict(id="mass-no-sqrt", file=D, old="        a *= numpy.sqrt(m[nax, :])", new="        a *= m[nax, :]"),
    dict(id="norm-no-sqrt", file=D, old="        a /= numpy.sqrt(norm)[:, nax]", new="        a /= norm[:, nax]"),
    dict(id="copy-removed", file=D, old="    a = numpy.copy(a)\n", new=""),
    dict(id="repeat-2", file=D, old="m = numpy.repeat(mass, 3)", new="m = numpy.repeat(mass, 2)"),
    dict(id="shape-guard-axis", file=D, old="    if a.shape[1] == 3*N:", new="    if a.shape[1] >= N:"),
    dict(id="regex-groups-swapped", file=L, old="zip((int, float, float), res.groups())", new="zip((int, float, float), (res.group(1), res.group(3), res.group(2)))"),
    dict(id="vec-lines-count", file=L, old="    for m in range(np // 3):", new="    for m in range(np // 3 + 1):"),
    dict(id="imag-sign", file=L, old="float(line[26:36]) + float(line[37:47]) * 1j,", new="float(line[26:36]) - float(line[37:47]) * 1j,"),
    dict(id="skip-lines", file=L, old="        for _ in range(2): next(fp)", new="        for _ in range(1): next(fp)"),
    dict(id="equiv-conj-other-side", expect="silent", file=S, old="m = numpy.conj(numpy.array(base_evecs)) @ numpy.array(target_evecs).T", new="m = numpy.array(base_evecs) @ numpy.conj(numpy.array(target_evecs)).T"),
]
