F = "cij/core/full_modulus.py"
C = "cij/core/calculator.py"
VARIANTS = [
    dict(id="to_gpa-for-from_gpa", file=F, old="static_moduli = _from_gpa(static_moduli)", new="static_moduli = _to_gpa(static_moduli)"),
    dict(id="fit-c-not-Vc", file=F, old="p = numpy.polyfit(strains, self.volumes * moduli, deg = order + 1)", new="p = numpy.polyfit(strains, moduli, deg = order + 1)"),
    dict(id="deg-order", file=F, old="p = numpy.polyfit(strains, self.volumes * moduli, deg = order + 1)", new="p = numpy.polyfit(strains, self.volumes * moduli, deg = order)"),
    dict(id="divide-by-volumes", file=F, old="modulus_array = numpy.polyval(p, strain_array) / self.v_array", new="modulus_array = numpy.polyval(p, strain_array) / self.volumes"),
    dict(id="different-reference", file=F, old="strain_array = calculate_eulerian_strain(self.volumes[0], self.v_array)", new="strain_array = calculate_eulerian_strain(self.v_array[0], self.v_array)"),
    dict(id="lattice-column-shift", file=F, old="params = self.fit_modulus(lattice_params[:, i])", new="params = self.fit_modulus(lattice_params[:, (i + 1) % 3])"),
    dict(id="adiabatic-static-plus-isothermal-phonon", file=F, old="results[key] = self.get_static_modulus(key)[nax,:] + self._adiabatic_phonon_contribution[key]", new="results[key] = self.get_static_modulus(key)[nax,:] + self._isothermal_phonon_contribution[key]"),
    dict(id="pstatic-sign", file=C, old="self.static_p_array = - numpy.gradient(static_energy_array) / numpy.gradient(self.v_array)", new="self.static_p_array = numpy.gradient(static_energy_array) / numpy.gradient(self.v_array)"),
    dict(id="pstatic-reference", file=C, old="strain_array = calculate_eulerian_strain(volumes[0], self.v_array)", new="strain_array = calculate_eulerian_strain(volumes[-1], self.v_array)"),
    dict(id="getters-swapped", file=F, old="self._adiabatic_phonon_contribution = self._phonon_contribution_task_list.get_adiabatic_results()", new="self._adiabatic_phonon_contribution = self._phonon_contribution_task_list.get_isothermal_results()"),
    dict(id="calculate-skipped", file=F, old="        self._phonon_contribution_task_list.calculate()\n", new=""),
    dict(id="diff-over-diff", file=F, old="strains[:,i] = (tmp[2:] - tmp[:-2]) / (tmp[2:] + tmp[:-2])", new="strains[:,i] = (tmp[2:] - tmp[:-2]) / (tmp[2:] - tmp[:-2] + 1)"),
    dict(id="normalisation-dropped", file=F, old="        strains = strains / numpy.sum(strains, axis=1, keepdims=True)\n", new=""),
    dict(id="init-order-pressure-after-cij", edits=[(C, "        self._calculate_pressure_static()\n        self._process_cij()\n", "        self._process_cij()\n        self._calculate_pressure_static()\n")]),
    dict(id="init-symmetry-late", edits=[(C, "        self._apply_elastic_constants_symmetry()\n        self._interpolate_modes()\n", "        self._interpolate_modes()\n"), (C, "        self._calculate_compliances()\n        # self._calc_velocities()", "        self._apply_elastic_constants_symmetry()\n        self._calculate_compliances()\n        # self._calc_velocities()")]),
    dict(id="keys-wrong", file=F, old="self._phonon_contribution_task_list.resolve(axial_strains, self.modulus_keys)", new="self._phonon_contribution_task_list.resolve(axial_strains, self.modulus_keys[:3])"),
    dict(id="equiv-polyfit-args", expect="silent", file=F, old="p = numpy.polyfit(strains, self.volumes * moduli, deg = order + 1)", new="p = numpy.polyfit(strains, moduli * self.volumes, 1 + order)"),
    dict(id="equiv-static-sum-order", expect="silent", file=F, old="results[key] = self.get_static_modulus(key)[nax,:] + self._isothermal_phonon_contribution[key]", new="results[key] = self._isothermal_phonon_contribution[key] + self.get_static_modulus(key)[nax,:]"),
]
