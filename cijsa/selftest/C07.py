F = "cij/core/calculator.py"
VARIANTS = [
    dict(id="GR-4to3", file=F, old="+ 4 * (self.s11 + self.s22 + self.s33) \\", new="+ 3 * (self.s11 + self.s22 + self.s33) \\"),
    dict(id="KV-9to15", file=F, old="+ 2 * (self.c12 + self.c23 + self.c13)) / 9", new="+ 2 * (self.c12 + self.c23 + self.c13)) / 15"),
    dict(id="GV-c13-c23-dup", file=F, old="            - (self.c12 + self.c23 + self.c13)\n", new="            - (self.c12 + self.c23 + self.c23)\n"),
    dict(id="one-sided-fill", file=F, old="for i, j in set(itertools.permutations(key.voigt, 2)):", new="for i, j in [key.voigt]:"),
    dict(id="isothermal-source", file=F, old="elastic_moduli[:, :, i-1, j-1] = self.modulus_adiabatic[key]", new="elastic_moduli[:, :, i-1, j-1] = self.modulus_isothermal[key]"),
    dict(id="vp-4/3-dropped", file=F, old="(self.bulk_modulus_voigt_reuss_hill + 4 / 3 * self.shear_modulus_voigt_reuss_hill) * self.v_array", new="(self.bulk_modulus_voigt_reuss_hill + self.shear_modulus_voigt_reuss_hill) * self.v_array"),
    dict(id="mass-1e-3-dropped", file=F, old="return m * 1e-3 / N", new="return m / N"),
    dict(id="vs-volume-dropped", file=F, old="e = units.Quantity(self.shear_modulus_voigt_reuss_hill * self.v_array, units.rydberg)", new="e = units.Quantity(self.shear_modulus_voigt_reuss_hill, units.rydberg)"),
    dict(id="getattr-t-adiabatic", file=F, old="                if res.group(3) == 't':\n                    return self.calculator.modulus_isothermal[key]", new="                if res.group(3) == 's':\n                    return self.calculator.modulus_isothermal[key]"),
    dict(id="store-transposed-key", file=F, old="            if i > j: continue\n", new="            if i < j: continue\n", expect="silent"),
    dict(id="compliance-wrong-key", file=F, old="self._compliances[c_(i+1, j+1)] = compliances[:, :, i, j]", new="self._compliances[c_(i+1, j+1)] = compliances[:, :, i, i]"),
    dict(id="hill-reuss-only", file=F, old="return (self.shear_modulus_reuss + self.shear_modulus_voigt) / 2", new="return (self.shear_modulus_reuss + self.shear_modulus_reuss) / 2"),
    dict(id="equiv-c31", expect="silent", file=F, old="+ 2 * (self.c12 + self.c23 + self.c13)) / 9", new="+ 2 * (self.c12 + self.c23 + self.c31)) / 9"),
    dict(id="equiv-reorder", expect="silent", file=F, old="return (self.bulk_modulus_reuss + self.bulk_modulus_voigt) / 2", new="return 0.5 * (self.bulk_modulus_voigt + self.bulk_modulus_reuss)"),
]
