T = "cij/core/tasks.py"
VARIANTS = [
    dict(id="edge-flipped", file=T, old="                graph.add_edge(curr, dep)", new="                graph.add_edge(dep, curr)"),
    dict(id="adiabatic-store-skipped-for-shear", file=T, old="            self.modulus_adiabatic_values[task.task_params] = task.get_modulus_adiabatic()", new="            if task.calc_type != ElasticModulusCalculationType.SHEAR:\n                self.modulus_adiabatic_values[task.task_params] = task.get_modulus_adiabatic()"),
    dict(id="strain-column-off-by-one", file=T, old="                strain[:, i-1] / numpy.sum(strain, axis=1),", new="                strain[:, i % 3] / numpy.sum(strain, axis=1),"),
    dict(id="normalisation-dropped", file=T, old="                strain[:, k-1] / numpy.sum(strain, axis=1)", new="                strain[:, k-1]"),
    dict(id="rotated-deps-with-original-strain", file=T, old="""            )) + list(itertools.product(
                [self.calculator.strain_rotated],""", new="""            )) + list(itertools.product(
                [self.calculator.strain],"""),
    dict(id="results-by-position", file=T, old="        return next(v for p, v in self.data.items() if p == params)", new="        return next(v for p, v in self.data.items() if p.calc_type == params.calc_type)"),
    dict(id="eq-ignores-strain", file=T, old="            if not numpy.allclose(self.params, other.params): return False\n            return True", new="            return True"),
    dict(id="second-index-j", file=T, old="            i, j, k, l = key.s\n", new="            i, k, j, l = key.s\n"),
    dict(id="rotated-results-from-unrotated-strain", file=T, old="""                task.modulus_results_rotated = self.modulus_isothermal_values.get_results_by_strain_keys(
                    task.calculator.strain_rotated,""", new="""                task.modulus_results_rotated = self.modulus_isothermal_values.get_results_by_strain_keys(
                    task.calculator.strain,"""),
    dict(id="offd-prefactor-asymmetric", file="cij/core/phonon_contribution/nonshear.py", old="""            1 / 15 / numpy.prod(self.e, axis=0),
            (1 / 3 / self.e[0], 1 / 3 / self.e[1]),
            1 / 15 / numpy.prod(self.e, axis=0)""", new="""            1 / 15 / self.e[0] ** 2,
            (1 / 3 / self.e[0], 1 / 3 / self.e[1]),
            1 / 15 / numpy.prod(self.e, axis=0)"""),
    dict(id="equiv-offd-identity-factors", expect="silent", file="cij/core/phonon_contribution/nonshear.py", old="""    @LazyProperty
    def value_isothermal(self):
        return self.zero_point_contribution + self.thermal_contribution + (""", new="""    @LazyProperty
    def value_isothermal(self):
        return self.zero_point_contribution * (1 + self.e[0] - self.e[0]) + self.thermal_contribution / self.e[0] * self.e[0] + ("""),
    dict(id="equiv-queue-fifo", expect="silent", file=T, old="            strain, key, dep = q.pop()", new="            strain, key, dep = q.pop(0)"),
]
