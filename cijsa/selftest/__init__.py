"""Self-validation of the checkers: registered mutants of the *current* tree must be reported
(exit 1, VIOLATION naming the property) and registered behaviour-preserving rewrites must stay
silent (exit 0).  Variants are exact-text edits applied to a scratch copy of /repo/cij under
mktemp, judged by running the check with CIJ_REPO pointing at the copy, and removed at once."""
from __future__ import annotations

import importlib
import os
import shutil
import subprocess
import sys
import tempfile
from concurrent.futures import ThreadPoolExecutor
from pathlib import Path

from ..report import REPO, VERIF


def load(prop):
    try:
        own = list(importlib.import_module(f"cijsa.selftest.{prop}").VARIANTS)
    except ModuleNotFoundError:
        own = []
    from .generic import GENERIC
    import json
    seeded = []
    for meta in sorted((VERIF / "seeded").glob("*/meta.json")):
        m = json.loads(meta.read_text())
        if prop in m.get("detected_by", []):
            seeded.append(dict(id=f"seeded-{m['id']}", patch=str(meta.parent / "patch.diff")))
    # behaviour-preserving rewrites written by independent sub-agents: every check that consults the rewritten files must stay silent
    equiv = []
    for meta in sorted((VERIF / "seeded_equiv").glob("*/meta.json")):
        m = json.loads(meta.read_text())
        if prop in m.get("props_checked", []):
            equiv.append(dict(id=f"equiv-{m['id']}", patch=str(meta.parent / "patch.diff"), expect="silent"))
    return own + [dict(v, id=f"generic-{v['id']}") for v in GENERIC if prop in v["props"]] + seeded + equiv


def run_variant(prop, var):
    tmp = Path(tempfile.mkdtemp(prefix=f"cijsa-{prop}-"))
    try:
        shutil.copytree(REPO / "cij", tmp / "cij", ignore=shutil.ignore_patterns("__pycache__"))
        for extra in ("examples",):
            if (REPO / extra).is_dir():
                os.symlink(REPO / extra, tmp / extra)
        if "patch" in var:
            r0 = subprocess.run(["git", "init", "-q", "."], cwd=tmp, capture_output=True, text=True)
            r1 = subprocess.run(["git", "apply", var["patch"]], cwd=tmp, capture_output=True, text=True)
            if r1.returncode != 0:
                return var, "stale", f"seeded patch does not apply: {r1.stderr[:200]}"
        for file, old, new in var.get("replace_all", []):
            pth = tmp / file
            txt = pth.read_text()
            if old not in txt:
                return var, "stale", f"pattern does not occur in {file}"
            pth.write_text(txt.replace(old, new))
        edits = var["edits"] if "edits" in var else ([(var["file"], var["old"], var["new"])] if "file" in var else [])
        for file, old, new in edits:
            p = tmp / file
            s = p.read_text()
            if s.count(old) != 1:
                return var, "stale", f"pattern occurs {s.count(old)} times in {file}"
            p.write_text(s.replace(old, new))
        env = dict(os.environ, CIJ_REPO=str(tmp), CIJSA_EVIDENCE_DIR=str(tmp / "evidence"), CIJSA_NO_SELFTEST="1")
        r = subprocess.run([sys.executable, "-B", "-m", "cijsa", prop, "--tier", "quick"], cwd=VERIF, env=env,
                           capture_output=True, text=True, timeout=2400)
        out = r.stdout + r.stderr
        want = var.get("expect", "violation")
        if want == "violation":
            ok = r.returncode == 1 and f"VIOLATION property={prop}" in out
            if ok and var.get("rule") and var["rule"] not in out:
                ok = False
        else:
            ok = r.returncode == 0
        detail = "\n".join(l for l in out.splitlines() if l.startswith(("VIOLATION", "ANALYSIS-ERROR", "   cij")))[:600]
        return var, "ok" if ok else f"WRONG(rc={r.returncode})", detail
    finally:
        shutil.rmtree(tmp, ignore_errors=True)


def run(prop, jobs=16, verbose=True, collect=False):
    variants = load(prop)
    bad = 0
    details = []
    with ThreadPoolExecutor(jobs) as ex:
        for var, status, detail in ex.map(lambda v: run_variant(prop, v), variants):
            if status != "ok":
                bad += 1
            details.append((var["id"], var.get("expect", "violation"), status))
            if verbose or status != "ok":
                print(f"  [{status}] {prop} {var['id']} expect={var.get('expect', 'violation')}"
                      + (f"\n      {detail}" if status != "ok" else ""))
    if collect:
        return len(variants), bad, details
    return len(variants), bad


if __name__ == "__main__":
    props = sys.argv[1:] or [f"C{i:02d}" for i in range(1, 21)]
    tot = fail = 0
    for p in props:
        n, b = run(p)
        tot += n
        fail += b
    print(f"selftest: {tot} variants, {fail} wrong")
    sys.exit(2 if fail else 0)
