Y = "cij/data/output/writer_rules.yml"
W = "cij/io/output/results_writer.py"
C = "cij/core/calculator.py"
VARIANTS = [
    dict(id="yaml-isothermal-prop-adiabatic", file=Y, old="  prop: modulus_isothermal", new="  prop: modulus_adiabatic"),
    dict(id="yaml-unit-internal-wrong", file=Y, old="""  fname_pattern: v_{base}_ang3.txt
  var_type: value
  unit_internal: "bohr^3\"""", new="""  fname_pattern: v_{base}_ang3.txt
  var_type: value
  unit_internal: "angstrom^3\""""),
    dict(id="yaml-velocity-unit-internal", file=Y, old="""  fname_pattern: v_s_{base}_km_s.txt
  var_type: value
  unit_internal: "km/s\"""", new="""  fname_pattern: v_s_{base}_km_s.txt
  var_type: value
  unit_internal: "m/s\""""),
    dict(id="yaml-duplicate-keyword", file=Y, old="  - G_R\n  - shear_modulus_reuss", new="  - G_V\n  - shear_modulus_reuss"),
    dict(id="yaml-GR-prop", file=Y, old="  prop: shear_modulus_reuss", new="  prop: shear_modulus_voigt"),
    dict(id="yaml-pattern-suffix", file=Y, old="fname_pattern: 'bm_R_{base}_gpa.txt'", new="fname_pattern: 'bm_R_{base}_ang3.txt'"),
    dict(id="labels-not-gpa", file=C, old="        p_array = _to_gpa(self.p_array)\n        save_x_tp(value, self.t_array, p_array, p_array, fname)", new="        p_array = self.p_array\n        save_x_tp(value, self.t_array, p_array, p_array, fname)"),
    dict(id="tv-labels-bohr", file=C, old="        v_array = _to_ang3(self.v_array)\n", new="        v_array = self.v_array\n"),
    dict(id="save-args-swapped", file=C, old="save_x_tv(value, self.t_array, v_array, self.t_array, fname)", new="save_x_tv(value, v_array, self.t_array, self.t_array, fname)"),
    dict(id="fname-override-ignored", file=W, old="""        if "fname" in _config:
            fname = config["fname"]
        else:
            fname = self.fname_pattern.format(base=base._base_name)""", new="""        fname = self.fname_pattern.format(base=base._base_name)"""),
    dict(id="unit-override-ignored", file=W, old="""        convert = convert_unit(_config["unit_internal"], _config["unit"])

        variable = getattr(base, self.prop)

        if "fname" in _config:""", new="""        convert = convert_unit(self.unit_internal, self.unit)

        variable = getattr(base, self.prop)

        if "fname" in _config:"""),
    dict(id="ij-format-standard", file=W, old='        return "%d%d" % key.v', new='        return "%d%d" % key.s[:2]'),
    dict(id="convert-direction", file=W, old="""        convert = convert_unit(_config["unit_internal"], _config["unit"])

        variable = getattr(base, self.prop)

        for k, v""", new="""        convert = convert_unit(_config["unit"], _config["unit_internal"])

        variable = getattr(base, self.prop)

        for k, v"""),
    dict(id="write-output-crossed", file=C, old='            self.pressure_base.write_variables(output_config["pressure_base"])', new='            self.volume_base.write_variables(output_config["pressure_base"])'),
    dict(id="base-name-swapped", file=C, old='    _base_name = "tp"', new='    _base_name = "tv"'),
    dict(id="equiv-yaml-reordered", expect="silent", file=Y, old="  - B_V\n  - Bm_V", new="  - Bm_V\n  - B_V"),
]
