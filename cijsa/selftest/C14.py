NS = "cij/core/phonon_contribution/nonshear.py"
T = "cij/core/tasks.py"
VARIANTS = [
    dict(id="typestate-adiabatic-reads-first", rule="R14.7", file=T, old="""            self.calculator.modulus = self.modulus_results
            self.calculator.modulus_rotated = self.modulus_results_rotated
        return self.calculator.value_adiabatic""", new="""            value = self.calculator.value_adiabatic
            self.calculator.modulus = self.modulus_results
            self.calculator.modulus_rotated = self.modulus_results_rotated
            return value
        return self.calculator.value_adiabatic"""),
    dict(id="typestate-frames-crossed", rule="R14.7", file=T, old="""            self.calculator.modulus = self.modulus_results
            self.calculator.modulus_rotated = self.modulus_results_rotated
        return self.calculator.value_isothermal""", new="""            self.calculator.modulus_rotated = self.modulus_results
            self.calculator.modulus = self.modulus_results_rotated
        return self.calculator.value_isothermal"""),
    dict(id="equiv-typestate-helper", expect="silent", file=T, edits=[(T, """        if self.calc_type == ElasticModulusCalculationType.SHEAR:
            self.calculator.modulus = self.modulus_results
            self.calculator.modulus_rotated = self.modulus_results_rotated
        return self.calculator.value_isothermal""", """        self._attach()
        return self.calculator.value_isothermal

    def _attach(self):
        if not self.key.is_shear:
            return
        self.calculator.modulus_rotated = self.modulus_results_rotated
        self.calculator.modulus = self.modulus_results""")]),
    dict(id="module-cache", file="cij/core/mode_gamma.py", old="def interpolate_mode_spline(mode_volumes, mode_freqs, v_array, order=5):\n", new="_SPLINE_CACHE = {}\n\ndef interpolate_mode_spline(mode_volumes, mode_freqs, v_array, order=5):\n    _SPLINE_CACHE[order] = v_array\n"),
    dict(id="default-settings-not-copied", file="cij/core/qha_adapter.py", old="user_settings = copy.copy(DEFAULT_SETTINGS)", new="user_settings = DEFAULT_SETTINGS"),
    dict(id="writer-registry-class-level", file="cij/io/output/results_writer.py", old="""class ResultsWriter:

    def __init__(self, base, rules: Optional[dict] = None):
        self.registry = {} # type: Dict[str, ResultsWriterRule]""", new="""class ResultsWriter:

    registry = {} # type: Dict[str, ResultsWriterRule]

    def __init__(self, base, rules: Optional[dict] = None):"""),
    dict(id="copy-removed-shared-mutation", file=NS, old="    _amount = amount.copy()\n    clear_gamma_point(_amount)", new="    _amount = amount\n    clear_gamma_point(_amount)"),
    dict(id="set-accumulation", file="cij/io/config/config.py", old="""    output_dict = {}
    for k in set([*input_dict.keys(), *default_dict.keys()]):""", new="""    output_dict = {}
    order = []
    for k in set([*input_dict.keys(), *default_dict.keys()]):
        order.append(k)"""),
    dict(id="time-stamp", file="cij/io/output/results_writer.py", old='        logger.info(f"Writing output <{fname}>.")\n        base.write_table(fname, convert(variable))', new='        import time\n        logger.info(f"Writing output <{fname}> at {time.time()}.")\n        base.write_table(fname, convert(variable))'),
    dict(id="environ", file="cij/core/calculator.py", old="        work_dir = config_fname.parent\n", new="        import os\n        work_dir = Path(os.environ.get('CIJ_WORKDIR', config_fname.parent))\n"),
    dict(id="append-mode", file="cij/io/traditional/qha_input.py", old='    with open(fname, "w", encoding="utf8") as fp:\n        fp.writelines', new='    with open(fname, "a", encoding="utf8") as fp:\n        fp.writelines'),
    dict(id="cached-value-mutated", file=NS, old="        return self.value_isothermal + self.isothermal_to_adiabatic", new="        self.value_isothermal[0, :] = 0\n        return self.value_isothermal + self.isothermal_to_adiabatic"),
    dict(id="schema-from-cwd", file="cij/io/config/validate.py", old='    with open(cij.data.get_data_fname("schema/config.schema.json")) as fp:', new='    with open("schema/config.schema.json") as fp:'),
    dict(id="cwd-probe-exists", file="cij/util/fill.py", old="    if Path(system).is_file():", new="    if Path(system).exists():"),
    dict(id="shear-inputs-after-read", file="cij/core/tasks.py", old="""        if self.calc_type == ElasticModulusCalculationType.SHEAR:
            self.calculator.modulus = self.modulus_results
            self.calculator.modulus_rotated = self.modulus_results_rotated
        return self.calculator.value_adiabatic""", new="""        value = self.calculator.value_adiabatic
        if self.calc_type == ElasticModulusCalculationType.SHEAR:
            self.calculator.modulus = self.modulus_results
            self.calculator.modulus_rotated = self.modulus_results_rotated
        return value"""),
    dict(id="equiv-deepcopy", expect="silent", file="cij/core/qha_adapter.py", old="user_settings = copy.copy(DEFAULT_SETTINGS)", new="user_settings = copy.deepcopy(DEFAULT_SETTINGS)"),
    dict(id="equiv-sorted-set", expect="silent", file="cij/io/config/config.py", old="    for k in set([*input_dict.keys(), *default_dict.keys()]):", new="    for k in sorted(set([*input_dict.keys(), *default_dict.keys()])):"),
]
