NS = "cij/core/phonon_contribution/nonshear.py"
A = "cij/core/qha_adapter.py"
VARIANTS = [
    dict(id="monotonic-check-dropped", file=A, old="""        if not qha.tools.is_monotonic_decreasing(self._volumes):
            raise RuntimeError("Check the input file to make sure the volume decreases!")
""", new=""),
    dict(id="monotonic-check-on-energies", file=A, old="if not qha.tools.is_monotonic_decreasing(self._volumes):", new="if not qha.tools.is_monotonic_decreasing(self._static_energies):"),
    dict(id="weights-unnormalised-sum", file=NS, old="""    return numpy.average(
        numpy.average(_amount, axis=dims - 1),
        weights=q_weights,
        axis=dims - 2
    )""", new="""    return numpy.sum(
        numpy.average(_amount, axis=dims - 1) * q_weights,
        axis=dims - 2
    )"""),
    dict(id="first-qpoint-only", file=NS, old="+ self.mode_gamma[1][0] * self.freq_array\n            ) * 3 * self.na", new="+ self.mode_gamma[1][0] * self.freq_array[:, 0:1, :]\n            ) * 3 * self.na"),
    dict(id="freq-outside-average", file=NS, old="""            * self.average_over_modes(
                + self.mode_gamma[2] * self.freq_array
                - self.mode_gamma[0] * self.freq_array
            ) * 3 * self.na""", new="""            * self.average_over_modes(
                + self.mode_gamma[2]
                - self.mode_gamma[0]
            ) * self.freq_array[:, 1, 3] * 3 * self.na"""),
    dict(id="key-regex-case", file="cij/io/traditional/elast_dat.py", old='REGEX_MODULUS = r"^\\D*(\\d+)$"', new='REGEX_MODULUS = r"^c(\\d+)$"'),
    dict(id="loop-carried", file="cij/core/mode_gamma.py", old="""            mode_freqs = numpy.array([
                volume.q_points[j].modes[k]
                for volume in qha_input.volumes
            ])
""", new="""            if k % 2 == 0:
                mode_freqs = numpy.array([
                    volume.q_points[j].modes[k]
                    for volume in qha_input.volumes
                ])
"""),
    dict(id="weights-by-coord", file=NS, old="return numpy.array([ weight for coord, weight in self.calculator.qha_input.weights ])", new="return numpy.array([ coord[0] for coord, weight in self.calculator.qha_input.weights ])"),
    dict(id="equiv-monotonic-local", expect="silent", file=A, old="""        if not qha.tools.is_monotonic_decreasing(self._volumes):
            raise RuntimeError("Check the input file to make sure the volume decreases!")
""", new="""        if qha.tools.is_monotonic_decreasing(self._volumes):
            return
        raise RuntimeError("Check the input file to make sure the volume decreases!")
"""),
]
