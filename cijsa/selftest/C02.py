NS = "cij/core/phonon_contribution/nonshear.py"
VARIANTS = [
    dict(id="gap-one-strain-squared", file=NS, old="* self.average_over_modes(self.Q2 * self.mode_gamma[1][1]) \\", new="* self.average_over_modes(self.Q2 * self.mode_gamma[1][0]) \\"),
    dict(id="gap-Q1-for-Q2", file=NS, old="* self.average_over_modes(self.Q2 * self.mode_gamma[1][0]) \\", new="* self.average_over_modes(self.Q1 * self.mode_gamma[1][0]) \\"),
    dict(id="gap-missing-square", file=NS, old="* (3 * k * self.na) ** 2", new="* (3 * k * self.na)"),
    dict(id="cv_tp", file="cij/core/qha_adapter.py", old="        return self.calculator.cv_tv_au", new="        return self.calculator.cv_tp_au"),
    dict(id="shear-fed-from-adiabatic", file="cij/core/tasks.py", old="task.modulus_results_rotated = self.modulus_isothermal_values.get_results_by_strain_keys(", new="task.modulus_results_rotated = self.modulus_adiabatic_values.get_results_by_strain_keys("),
    dict(id="gap-mask-dropped", file=NS, old="        ret[numpy.where(self.t_array == 0), :] = 0\n", new=""),
    dict(id="adiabatic-minus", file=NS, old="return self.value_isothermal + self.isothermal_to_adiabatic", new="return self.value_isothermal - self.isothermal_to_adiabatic"),
    dict(id="gap-times-v", file=NS, old="ret = self.t_array[:, nax] / self.v_array[nax, :] \\\n            / self.qha_calculator", new="ret = self.t_array[:, nax] * self.v_array[nax, :] \\\n            / self.qha_calculator"),
    dict(id="equiv-gap-reorder", expect="silent", file=NS, old="* (3 * k * self.na) ** 2", new="* 9 * k ** 2 * self.na ** 2"),
    dict(id="equiv-mask-bool-index", expect="silent", file=NS, old="        ret[numpy.where(self.t_array == 0), :] = 0\n", new="        ret[self.t_array == 0, :] = 0\n"),
]
