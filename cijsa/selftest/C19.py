E = "cij/cli/extract.py"
G = "cij/cli/geotherm.py"
VARIANTS = [
    dict(id="transpose-on-T", file=E, old="""        if temperature != None:
            y = temperature
        elif pressure != None:
            y = pressure
            df = df.T""", new="""        if temperature != None:
            y = temperature
            df = df.T
        elif pressure != None:
            y = pressure"""),
    dict(id="no-transpose", file=E, old="            y = pressure\n            df = df.T\n", new="            y = pressure\n"),
    dict(id="argmin-on-columns", file=E, old="y_index = numpy.argmin(numpy.abs(df.index.to_numpy() - y))", new="y_index = numpy.argmin(numpy.abs(df.columns.to_numpy() - y))"),
    dict(id="argmin-no-abs", file=E, old="y_index = numpy.argmin(numpy.abs(df.index.to_numpy() - y))", new="y_index = numpy.argmin(df.index.to_numpy() - y)"),
    dict(id="labels-index", file=E, old="        x_array = df.columns\n", new="        x_array = df.index\n"),
    dict(id="pattern-tv", file=E, old='glob(f"{var}_tp_*")[0]', new='glob(f"{var}_tv_*")[0]'),
    dict(id="pattern-prefix", file=G, old='glob(f"{var}_tp_*")[0]', new='glob(f"{var}*_tp_*")[0]'),
    dict(id="index-col", file=E, old='sep="\\s+", index_col=0)', new='sep="\\s+", index_col=None)'),
    dict(id="geo-args-swapped", file=G, old="table[var] = fit_data(df)(table[p_col], table[t_col], grid=False)", new="table[var] = fit_data(df)(table[t_col], table[p_col], grid=False)"),
    dict(id="geo-grid-true", file=G, old="table[var] = fit_data(df)(table[p_col], table[t_col], grid=False)", new="table[var] = fit_data(df)(table[p_col], table[t_col])"),
    dict(id="geo-spline-axes", file=G, old="    return RectBivariateSpline(x, y, z)", new="    return RectBivariateSpline(y, x, z.T)"),
    dict(id="geo-default-swapped", file=G, old='default="P", show_default=True)\n@click.option("--p-col", help="The name of geotherm temperature column", default="T"', new='default="T", show_default=True)\n@click.option("--p-col", help="The name of geotherm temperature column", default="P"'),
    dict(id="geo-overwrites-T", file=G, old="        table[var] = fit_data(df)(", new="        table[t_col] = table[t_col]\n        table[var] = fit_data(df)("),
    dict(id="equiv-extract-is-not-none", expect="silent", file=E, old="        if temperature != None:", new="        if temperature is not None:"),
]
