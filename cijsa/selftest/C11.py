F = "cij/core/mode_gamma.py"
P = "cij/plot/modes.py"
VARIANTS = [
    dict(id="spline-nu1-twice", file=F, old="        - interp(ln_v_array, nu=2)\n    )", new="        - interp(ln_v_array, nu=1)\n    )"),
    dict(id="lagrange-sign-dropped", file=F, old="        - interp_gamma_lnv(ln_v_array),", new="        interp_gamma_lnv(ln_v_array),"),
    dict(id="krogh-flip-removed", file=F, old="""    krogh = scipy.interpolate.KroghInterpolator(
        numpy.flip(numpy.log(mode_volumes), axis=0),""", new="""    krogh = scipy.interpolate.KroghInterpolator(
        numpy.log(mode_volumes),"""),
    dict(id="lsq-derivative-of-other-fit", file=F, old="    p = numpy.poly1d(a)\n    r_array", new="    p = numpy.poly1d(numpy.polyfit(numpy.log(mode_volumes), numpy.log(mode_freqs), order + 1))\n    r_array"),
    dict(id="write-index-swapped", file=F, old="""                (   interp_freq[:, j, k],
                    gamma_i[:, j, k],
                    vdr_dv[:, j, k],
                ) = interpolate_mode_krogh(""", new="""                (   interp_freq[:, j, k],
                    gamma_i[:, k, j],
                    vdr_dv[:, j, k],
                ) = interpolate_mode_krogh("""),
    dict(id="method-removed-from-dispatch", file=F, old='            elif method in ["pchip", "hermite", "akima"]:', new='            elif method in ["pchip", "hermite"]:'),
    dict(id="return-order-swapped", file=F, old="    return interp_freq, gamma_i, vdr_dv", new="    return interp_freq, vdr_dv, gamma_i"),
    dict(id="skip-k-lt-2", file=F, old="if j == 0 and k in range(3): continue", new="if j == 0 and k in range(2): continue"),
    dict(id="akima-no-extrapolate", file=F, old="    interp.extrapolate = True\n", new=""),
    dict(id="no-exp", file=F, old="        numpy.exp(krogh(ln_v_array)),", new="        krogh(ln_v_array),"),
    dict(id="log-missing-on-freqs", file=F, old="""    interp = scipy.interpolate.UnivariateSpline(
        numpy.flip(numpy.log(mode_volumes), axis=0),
        numpy.flip(numpy.log(mode_freqs), axis=0),""", new="""    interp = scipy.interpolate.UnivariateSpline(
        numpy.flip(numpy.log(mode_volumes), axis=0),
        numpy.flip(mode_freqs, axis=0),"""),
    dict(id="eval-at-v-not-logv", file=F, old="        - krogh.derivative(ln_v_array, der=1),", new="        - krogh.derivative(v_array, der=1),"),
    dict(id="subsample-only-x", file=F, old="""    mode_volumes = mode_volumes[::interval]
    mode_freqs = mode_freqs[::interval]

    krogh""", new="""    mode_volumes = mode_volumes[::interval]

    krogh"""),
    dict(id="plot-swapped", file=P, old="""            w_arrays = self.calculator.mode_gamma[1][:, iq, :]
        elif n == 2:
            w_arrays = self.calculator.mode_gamma[0][:, iq, :]""", new="""            w_arrays = self.calculator.mode_gamma[0][:, iq, :]
        elif n == 2:
            w_arrays = self.calculator.mode_gamma[1][:, iq, :]"""),
    dict(id="plot-no-gamma-skip", file=P, old="""        for k in range(self.calculator.np):
            if iq == 0 and k < 3: continue
            w_array = w_arrays[:, k]""", new="""        for k in range(self.calculator.np):
            w_array = w_arrays[:, k]"""),
    dict(id="vander-increasing", file=F, old="xx = numpy.vander(xs, order)", new="xx = numpy.vander(xs, order, increasing=True)", expect="violation"),
    dict(id="equiv-spline-keywords", expect="silent", file=F, old="        - interp(ln_v_array, nu=1),\n        - interp(ln_v_array, nu=2)\n    )", new="        - interp(ln_v_array, 1),\n        -1 * interp(ln_v_array, nu=2)\n    )"),
    dict(id="equiv-akima-ctor-kw", expect="silent", edits=[(F, "    interp.extrapolate = True\n", ""), (F, """    interp = Interpolator(
        numpy.flip(numpy.log(mode_volumes), axis=0),
        numpy.flip(numpy.log(mode_freqs), axis=0),
    )""", """    interp = Interpolator(
        numpy.flip(numpy.log(mode_volumes), axis=0),
        numpy.flip(numpy.log(mode_freqs), axis=0),
        extrapolate=True,
    )""")]),
    dict(id="equiv-skip-lt3", expect="silent", file=F, old="if j == 0 and k in range(3): continue", new="if j == 0 and k < 3: continue"),
]
