NS = "cij/core/phonon_contribution/nonshear.py"
SH = "cij/core/phonon_contribution/shear.py"
VARIANTS = [
    dict(id="Q2-overflow-form", file=NS, old="return self.Q ** 2 * numpy.exp(-self.Q) / numpy.expm1(-self.Q) ** 2", new="return self.Q ** 2 * numpy.exp(self.Q) / (numpy.exp(self.Q) - 1) ** 2"),
    dict(id="Q1-times-exp", file=NS, old="return self.Q / (numpy.exp(self.Q) - 1)", new="return self.Q * numpy.exp(-self.Q) / (1 - numpy.exp(-self.Q)) * numpy.exp(self.Q) / numpy.exp(self.Q)"),
    dict(id="eig-back", file=SH, old="return numpy.linalg.eigh(self.fictitious_strain)[1]", new="return numpy.linalg.eig(self.fictitious_strain)[1]"),
    dict(id="eigvals", file=SH, old="return numpy.diag(numpy.linalg.eigh(self.fictitious_strain)[0])", new="return numpy.diag(numpy.linalg.eigvals(self.fictitious_strain))"),
    dict(id="unpack-two-calculator", file="cij/core/calculator.py", old="        static_energy_array = polynomial_least_square_fitting(", new="        _, static_energy_array = polynomial_least_square_fitting("),
    dict(id="akima-no-extrapolate", file="cij/core/mode_gamma.py", old="    interp.extrapolate = True\n", new=""),
    dict(id="t0-mask-dropped", file=NS, old="        ret[numpy.where(self.t_array == 0), :] = 0\n", new=""),
    dict(id="unbound-local", file="cij/core/full_modulus.py", old="        lattice_params = numpy.array(self.elast_data.lattice_parmeters)\n        strains = numpy.zeros((ntv, 3))", new="        if ntv > 3:\n            lattice_params = numpy.array(self.elast_data.lattice_parmeters)\n        strains = numpy.zeros((ntv, 3))"),
    dict(id="undefined-name", file="cij/core/tasks.py", old="        orders = nx.topological_sort(graph)", new="        orders = networkx.topological_sort(graph)"),
    dict(id="dispatch-missing", file="cij/core/mode_gamma.py", old='            elif method == "lsq_poly":', new='            elif method == "lsq":'),
    dict(id="equiv-Q2-expm1-pos", expect="silent", file=NS, old="return self.Q ** 2 * numpy.exp(-self.Q) / numpy.expm1(-self.Q) ** 2", new="return self.Q ** 2 * numpy.exp(-self.Q) / (1 - numpy.exp(-self.Q)) ** 2"),
    dict(id="equiv-eigvalsh", expect="silent", file=SH, old="return numpy.diag(numpy.linalg.eigh(self.fictitious_strain)[0])", new="return numpy.diag(numpy.linalg.eigvalsh(self.fictitious_strain))"),
]
