S = "cij/core/phonon_contribution/shear.py"
V = "cij/util/voigt.py"
VARIANTS = [
    dict(id="factor-2-dropped", file=S, old="        return 2 * strain_energy_difference / (", new="        return strain_energy_difference / ("),
    dict(id="energy-half-dropped", file=S, old="        _energy += _moduli * fictitious_strain[i,j] * fictitious_strain[k,l] / 2", new="        _energy += _moduli * fictitious_strain[i,j] * fictitious_strain[k,l]"),
    dict(id="multiplicity-mixed-only", file=V, old="            << (self.i != self.j) \\\n", new=""),
    dict(id="T-transposed", file=S, old="strain_rotated = self.transformation_matrix.T @ strain @ self.transformation_matrix", new="strain_rotated = self.transformation_matrix @ strain @ self.transformation_matrix.T"),
    dict(id="skip-removed-in-keys-only", file=S, old="""        key = c_(i+1, j+1, k+1, l+1)

        if target and key == target: continue

        _keys.append(key)""", new="""        key = c_(i+1, j+1, k+1, l+1)

        _keys.append(key)"""),
    dict(id="target-passed-to-rotated-harmless", expect="silent", file=S, old="            lambda _key: self.get_elastic_modulus_rotated(_key)\n        )", new="            lambda _key: self.get_elastic_modulus_rotated(_key),\n            self.key\n        )"),
    dict(id="modulus-swapped", file=S, old="        return self.modulus_rotated[key]", new="        return self.modulus[key]"),
    dict(id="strain-asymmetric", file=S, old="        e[self.key.j[1] - 1, self.key.j[0] - 1] = 1\n", new=""),
    dict(id="eigvals-of-other-matrix", file=S, old="        return numpy.diag(numpy.linalg.eigh(self.fictitious_strain)[0])", new="        return numpy.diag(numpy.linalg.eigh(self.fictitious_strain + numpy.diag(numpy.ones(3)))[0])"),
    dict(id="strain-product-index", file=S, old="            self.fictitious_strain[i-1,j-1] * self.fictitious_strain[k-1,l-1]", new="            self.fictitious_strain[i-1,i-1] * self.fictitious_strain[k-1,l-1] + 1"),
    dict(id="equiv-energy-form", expect="silent", file=S, old="        _energy += _moduli * fictitious_strain[i,j] * fictitious_strain[k,l] / 2", new="        _energy = _energy + 0.5 * fictitious_strain[k,l] * fictitious_strain[i,j] * _moduli"),
    dict(id="equiv-eigenvectors-negated", expect="silent", file=S, old="        return numpy.linalg.eigh(self.fictitious_strain)[1]", new="        return -1 * numpy.linalg.eigh(self.fictitious_strain)[1]"),
]
