"""E1 — program model: parses every module of /repo/cij afresh, indexes classes/functions,
resolves imports/aliases, repo-internal MRO, property kinds.  Nothing is imported."""
from __future__ import annotations

import ast
import warnings
from pathlib import Path

warnings.filterwarnings("ignore", category=SyntaxWarning)

from .report import REPO, AnalysisError, Where

DEAD_MODULES = {"cij.core.modulus_worker": "import commented out in calculator.py; never imported",
                "cij.util.compliance": "never imported"}


class Mod:
    CANONICALISE = True

    def __init__(self, name: str, path: Path):
        self.name, self.path = name, path
        self.rel = str(path.relative_to(REPO))
        self.src = path.read_text()
        self.tree = ast.parse(self.src, filename=str(path))
        self.imports = {}     # local name -> dotted target
        self.funcs = {}       # qualname -> FunctionDef  ("f", "Cls.f", "f.inner")
        self.classes = {}     # name -> ClassDef
        self.globals = {}     # name -> value node (module-level Assign)
        self.star_imports = []
        self._index()
        self.exported_names = set(self.imports) | set(self.globals) | set(self.classes) | {q for q in self.funcs if "." not in q}
        if Mod.CANONICALISE:
            self._canonicalise_external_names()

    def _canonicalise_external_names(self):
        """rewrite every use of an alias of an EXTERNAL import to the canonical dotted path (`np.exp` -> `numpy.exp`,
        `from glob import glob; glob(p)` -> `glob.glob(p)`, `nax` -> `numpy.newaxis`) and the import statements to plain
        `import <module>`, so that rules and transfer functions see one spelling whatever the import style.  Imports made
        inside a function apply to that function; names a function binds itself (parameters, assignment targets) are left alone."""
        self.exported_names = set(self.imports) | set(self.globals) | set(self.classes) | {q for q in self.funcs if "." not in q}

        def aliases_of(stmts_owner, top_level):
            """alias -> canonical for the import statements directly in this scope (not in nested functions)"""
            out = {}
            todo = list(stmts_owner)
            while todo:
                n = todo.pop(0)
                if isinstance(n, (ast.FunctionDef, ast.AsyncFunctionDef, ast.ClassDef, ast.Lambda)):
                    if isinstance(n, ast.ClassDef) and top_level:
                        todo.extend(n.body)
                    continue
                if isinstance(n, ast.Import):
                    for a in n.names:
                        if a.name.split(".")[0] == "cij":
                            continue
                        if a.asname and a.asname != a.name:
                            out[a.asname] = a.name
                elif isinstance(n, ast.ImportFrom):
                    base = n.module or ""
                    if n.level or not base or base == "cij" or base.startswith("cij."):
                        continue
                    for a in n.names:
                        if a.name != "*":
                            out[a.asname or a.name] = f"{base}.{a.name}"
                else:
                    todo.extend(c for c in ast.iter_child_nodes(n) if isinstance(c, ast.stmt) or isinstance(c, (ast.ExceptHandler,)))
            return {k: v for k, v in out.items() if k != v}

        top = aliases_of(self.tree.body, True)
        if not top and not any(isinstance(n, (ast.Import, ast.ImportFrom)) for f in ast.walk(self.tree) if isinstance(f, ast.FunctionDef) for n in ast.walk(f)):
            return

        def attr_chain(dotted, ctx_node):
            parts = dotted.split(".")
            node = ast.Name(id=parts[0], ctx=ast.Load())
            for p in parts[1:]:
                node = ast.Attribute(value=node, attr=p, ctx=ast.Load())
            return ast.copy_location(node, ctx_node)

        def bound_in(fn):
            names = {a.arg for a in fn.args.posonlyargs + fn.args.args + fn.args.kwonlyargs}
            if fn.args.vararg:
                names.add(fn.args.vararg.arg)
            if fn.args.kwarg:
                names.add(fn.args.kwarg.arg)
            for n in ast.walk(fn):
                if isinstance(n, ast.Name) and isinstance(n.ctx, ast.Store):
                    names.add(n.id)
            return names

        class T(ast.NodeTransformer):
            def __init__(self):
                self.alias = [dict(top)]

            def visit_FunctionDef(self, node):
                cur = dict(self.alias[-1])
                local = aliases_of(node.body, False)
                # a plain `import x` inside the function re-binds x to the module: drops an outer alias of that name
                for n in ast.walk(node):
                    if isinstance(n, ast.Import):
                        for a in n.names:
                            if a.asname is None:
                                cur.pop(a.name.split(".")[0], None)
                cur.update(local)
                for b in bound_in(node):
                    cur.pop(b, None)
                node.decorator_list = [self.visit(d) for d in node.decorator_list]
                self.alias.append(cur)
                node.args = self.generic_visit(node.args)
                node.body = [self.visit(b) for b in node.body]
                if node.returns is not None:
                    node.returns = self.visit(node.returns)
                self.alias.pop()
                return node

            visit_AsyncFunctionDef = visit_FunctionDef

            def visit_Lambda(self, node):
                cur = {k: v for k, v in self.alias[-1].items() if k not in {a.arg for a in node.args.args}}
                self.alias.append(cur)
                node.body = self.visit(node.body)
                self.alias.pop()
                return node

            def visit_Name(self, node):
                if isinstance(node.ctx, ast.Load) and node.id in self.alias[-1]:
                    return attr_chain(self.alias[-1][node.id], node)
                return node

            def visit_Import(self, node):
                node.names = [a if a.name.split(".")[0] == "cij" else ast.alias(name=a.name, asname=None) for a in node.names]
                return node

            def visit_ImportFrom(self, node):
                base = node.module or ""
                if node.level or not base or base == "cij" or base.startswith("cij.") or any(a.name == "*" for a in node.names):
                    return node
                return ast.copy_location(ast.Import(names=[ast.alias(name=base, asname=None)]), node)

        self.tree = ast.fix_missing_locations(T().visit(self.tree))
        self.imports, self.funcs, self.classes, self.globals, self.star_imports = {}, {}, {}, {}, []
        self._index()
        self.reexports = dict(top)      # names other modules may import from this one: local name -> canonical external path

    def _index(self):
        pkg = self.name.rsplit(".", 1)[0] if not self.path.name == "__init__.py" else self.name

        def imp(node):
            if isinstance(node, ast.Import):
                for a in node.names:
                    if a.asname:
                        self.imports[a.asname] = ("mod", a.name)
                    else:
                        self.imports[a.name.split(".")[0]] = ("mod", a.name.split(".")[0])
            elif isinstance(node, ast.ImportFrom):
                base = node.module or ""
                if node.level:
                    parts = pkg.split(".")
                    parts = parts[: len(parts) - (node.level - 1)]
                    base = ".".join(parts + ([node.module] if node.module else []))
                for a in node.names:
                    if a.name == "*":
                        self.star_imports.append(base)
                        continue
                    self.imports[a.asname or a.name] = ("from", base, a.name)

        for node in ast.walk(self.tree):
            if isinstance(node, (ast.Import, ast.ImportFrom)):
                imp(node)

        def walk(body, prefix):
            for n in body:
                if isinstance(n, (ast.FunctionDef, ast.AsyncFunctionDef)):
                    q = prefix + n.name
                    # property setters share a name; keep the first (getter) unless decorated setter
                    if q not in self.funcs or not any(
                            isinstance(d, ast.Attribute) and d.attr in ("setter", "deleter") for d in n.decorator_list):
                        if q not in self.funcs:
                            self.funcs[q] = n
                    walk(n.body, q + ".")
                elif isinstance(n, ast.ClassDef):
                    self.classes[prefix + n.name] = n
                    walk(n.body, prefix + n.name + ".")
                elif isinstance(n, (ast.If, ast.With, ast.Try, ast.For, ast.While)):
                    for fld in ("body", "orelse", "finalbody"):
                        walk(getattr(n, fld, []) or [], prefix)
                    for h in getattr(n, "handlers", []) or []:
                        walk(h.body, prefix)

        walk(self.tree.body, "")
        for n in self.tree.body:
            if isinstance(n, ast.Assign) and len(n.targets) == 1 and isinstance(n.targets[0], ast.Name):
                self.globals[n.targets[0].id] = n.value
            elif isinstance(n, ast.AnnAssign) and isinstance(n.target, ast.Name) and n.value is not None:
                self.globals[n.target.id] = n.value


class Model:
    @staticmethod
    def raw(repo: Path = REPO):
        """the model over the source exactly as written (no canonicalisation of import aliases): used by name-binding rules"""
        old = Mod.CANONICALISE
        Mod.CANONICALISE = False
        try:
            return Model(repo)
        finally:
            Mod.CANONICALISE = old

    def __init__(self, repo: Path = REPO):
        self.repo = repo
        self.mods: dict[str, Mod] = {}
        root = repo / "cij"
        if not root.is_dir():
            raise AnalysisError(f"{root} is not a directory")
        for p in sorted(root.rglob("*.py")):
            rel = p.relative_to(repo).with_suffix("")
            parts = list(rel.parts)
            if parts[-1] == "__init__":
                parts = parts[:-1]
            name = ".".join(parts)
            try:
                self.mods[name] = Mod(name, p)
            except SyntaxError as e:
                raise AnalysisError(f"cannot parse {p}: {e}")

    # -- lookups ---------------------------------------------------------
    def mod(self, name: str) -> Mod:
        if name not in self.mods:
            raise AnalysisError(f"anchor vanished: module {name}")
        return self.mods[name]

    def func(self, ref: str) -> ast.FunctionDef:
        """ref = 'cij.core.tasks:PhononContributionTaskList.calculate'"""
        m, q = ref.split(":")
        mod = self.mod(m)
        if q not in mod.funcs:
            raise AnalysisError(f"anchor vanished: function {ref}")
        return mod.funcs[q]

    def has_func(self, ref: str) -> bool:
        m, q = ref.split(":")
        return m in self.mods and q in self.mods[m].funcs

    def cls(self, ref: str) -> ast.ClassDef:
        m, q = ref.split(":")
        mod = self.mod(m)
        if q not in mod.classes:
            raise AnalysisError(f"anchor vanished: class {ref}")
        return mod.classes[q]

    def where(self, ref: str, node: ast.AST | None = None) -> Where:
        m, q = ref.split(":")
        mod = self.mod(m)
        line = getattr(node, "lineno", 0) if node is not None else getattr(mod.funcs.get(q) or mod.classes.get(q), "lineno", 0)
        return Where(mod.rel, q, line)

    def glob(self, ref: str) -> ast.AST:
        m, q = ref.split(":")
        mod = self.mod(m)
        if q not in mod.globals:
            raise AnalysisError(f"anchor vanished: module-level binding {ref}")
        return mod.globals[q]

    # -- classes -----------------------------------------------------------
    def resolve_name(self, mod: Mod, name: str):
        """Resolve a (possibly dotted) local name to ('class'|'func'|'module'|'global'|'ext', ref)."""
        parts = name.split(".")
        head = parts[0]
        if head in mod.classes and len(parts) == 1:
            return "class", f"{mod.name}:{head}"
        if head in mod.funcs and len(parts) == 1:
            return "func", f"{mod.name}:{head}"
        if head in mod.imports:
            kind, ref = self.resolve_import(mod.imports[head])
            for p in parts[1:]:
                kind, ref = self.member_of(kind, ref, p)
            return kind, ref
        if head in mod.globals and len(parts) == 1:
            return "global", f"{mod.name}:{head}"
        return "ext", name

    def resolve_import(self, entry, _depth=0):
        if entry[0] == "mod":
            return ("module", entry[1]) if entry[1] in self.mods else ("ext", entry[1])
        _, base, name = entry
        return self.resolve_from(base, name, _depth)

    def resolve_from(self, base: str, name: str, _depth=0):
        """`from base import name`: attribute of the package first, then submodule (Python's order)."""
        if _depth > 10:
            return "ext", f"{base}.{name}"
        if base in self.mods:
            m = self.mods[base]
            if name in m.classes:
                return "class", f"{base}:{name}"
            if name in m.funcs:
                return "func", f"{base}:{name}"
            if name in m.imports:
                if m.imports[name] == ("from", base, name):        # `from . import sub` inside the package's __init__
                    if f"{base}.{name}" in self.mods:
                        return "module", f"{base}.{name}"
                    return "ext", f"{base}.{name}"
                return self.resolve_import(m.imports[name], _depth + 1)
            if name in getattr(m, "reexports", {}):
                return "ext", m.reexports[name]
            if name in m.globals:
                return "global", f"{base}:{name}"
            if f"{base}.{name}" in self.mods:
                return "module", f"{base}.{name}"
            return "ext", f"{base}.{name}"
        return "ext", f"{base}.{name}"

    def member_of(self, kind, ref, name):
        if kind == "module":
            return self.resolve_from(ref, name)
        if kind == "ext":
            return "ext", f"{ref}.{name}"
        if kind == "class":
            return "classmember", f"{ref}.{name}"
        return "ext", f"{ref}.{name}"

    def resolve_dotted(self, dotted: str, _depth=0):
        """absolute dotted name -> resolution (module import semantics, then attribute walk)"""
        parts = dotted.split(".")
        if parts[0] not in self.mods:
            return "ext", dotted
        kind, ref = "module", parts[0]
        for p in parts[1:]:
            if kind == "module" and f"{ref}.{p}" in self.mods and p not in self.mods[ref].imports \
                    and p not in self.mods[ref].globals:
                kind, ref = "module", f"{ref}.{p}"
            else:
                kind, ref = self.member_of(kind, ref, p)
        return kind, ref

    def bases(self, cref: str) -> list[str]:
        m = self.mods[cref.split(":")[0]]
        out = []
        for b in self.cls(cref).bases:
            name = dotted_name(b)
            if name is None:
                continue
            kind, ref = self.resolve_name(m, name)
            if kind == "class":
                out.append(ref)
            else:
                out.append("ext:" + (ref if kind == "ext" else name))
        return out

    def mro(self, cref: str) -> list[str]:
        out, todo = [], [cref]
        while todo:
            c = todo.pop(0)
            if c in out or c.startswith("ext:"):
                if c.startswith("ext:") and c not in out:
                    out.append(c)
                continue
            out.append(c)
            todo = self.bases(c) + todo if False else todo + self.bases(c)
        return out

    def find_member(self, cref: str, name: str):
        """Return (owner class ref, FunctionDef|Assign value, kind) through the repo-internal MRO."""
        for c in self.mro(cref):
            if c.startswith("ext:"):
                continue
            m, q = c.split(":")
            mod = self.mods[m]
            fq = f"{q}.{name}"
            if fq in mod.funcs:
                f = mod.funcs[fq]
                return c, f, member_kind(f)
            for n in self.cls(c).body:
                if isinstance(n, ast.Assign) and any(isinstance(t, ast.Name) and t.id == name for t in n.targets):
                    return c, n.value, "classattr"
                if isinstance(n, ast.AnnAssign) and isinstance(n.target, ast.Name) and n.target.id == name and n.value is not None \
                        and not any(b.endswith("NamedTuple") for b in self.bases(c)):
                    return c, n.value, "classattr"
        return None, None, None


def member_kind(f: ast.FunctionDef) -> str:
    for d in f.decorator_list:
        n = dotted_name(d)
        if n in ("property", "LazyProperty", "lazy_property.LazyProperty", "cached_property", "functools.cached_property"):
            return "lazy" if n != "property" else "property"
        if n == "classmethod":
            return "classmethod"
        if n == "staticmethod":
            return "staticmethod"
    return "method"


def dotted_name(node) -> str | None:
    if isinstance(node, ast.Name):
        return node.id
    if isinstance(node, ast.Attribute):
        b = dotted_name(node.value)
        return None if b is None else f"{b}.{node.attr}"
    return None


def src(node) -> str:
    try:
        return ast.unparse(node)
    except Exception:
        return "<?>"


def body_wo_doc(f) -> list:
    b = list(f.body)
    if b and isinstance(b[0], ast.Expr) and isinstance(b[0].value, ast.Constant) and isinstance(b[0].value.value, str):
        b = b[1:]
    return b


def is_logging_stmt(n) -> bool:
    """logger.debug(...), logging.info(...), print(...), pass — statements with no effect on values."""
    if isinstance(n, ast.Pass):
        return True
    if isinstance(n, ast.Expr) and isinstance(n.value, ast.Constant):
        return True
    if isinstance(n, ast.Expr) and isinstance(n.value, ast.Call):
        name = dotted_name(n.value.func) or ""
        head = name.split(".")[0]
        if name == "print" or (head in ("logger", "logging", "log", "warnings") and "." in name):
            return True
    return False
