"""Model of the interpolant constructs of cij/core/mode_gamma.py for the folder: an
interpolant object is identified by a symbol; evaluating its k-th derivative at x is the
atom EVAL(id, k, x).  Constructor arity, derivative-order idioms and default extrapolation
come from the installed scipy sources (E8)."""
from __future__ import annotations

import sympy as sp

from .libsum import lib_class, positional_params, ppoly_default_extrapolate
from .report import AnalysisError
from .sym import Tup, BoundLib, RaisedV, as_sym, is_sym, _const_int

EVAL = sp.Function("EVAL")
FLIP = sp.Function("FLIP")
CEIL = sp.Function("CEIL")


class Registry:
    def __init__(self):
        self.interps = []
        self.evals = []     # (interp, order, x, effective extrapolation)

    def new(self, **kw):
        it = InterpV(self, len(self.interps), **kw)
        self.interps.append(it)
        return it


class InterpV:
    def __init__(self, reg, n, kind, x, y, cls=None, opts=None, extrapolate=None, call_style="nu"):
        self.reg, self.n, self.kind, self.x, self.y = reg, n, kind, x, y
        self.cls, self.opts, self.extrapolate, self.call_style = cls, opts or {}, extrapolate, call_style
        self.sym = sp.Symbol(f"F{n}")

    def effective_extrapolation(self, call_kw=None):
        if call_kw is not None:
            return bool(call_kw)
        if self.extrapolate is not None:
            return bool(self.extrapolate)
        if self.kind == "ppoly":
            d = ppoly_default_extrapolate(self.cls)
            if d is None:
                raise AnalysisError(f"default extrapolation of scipy {self.cls} not recognised in the installed source")
            return d
        if self.kind == "spline":
            ext = self.opts.get("ext", sp.Integer(0))
            return ext == 0 or ext == "extrapolate"
        return True     # global polynomials (lagrange, krogh, least squares) are defined everywhere

    def ev(self, order, x, call_kw=None):
        self.reg.evals.append((self, int(order), x, self.effective_extrapolation(call_kw)))
        return EVAL(self.sym, sp.Integer(int(order)), as_sym(x))

    def sym_call(self, ev, args, kwargs, n, mod):
        if self.call_style == "poly":          # numpy.poly1d: p(x)
            if len(args) != 1 or kwargs:
                raise ev.err("poly1d called with unexpected arguments", n, mod)
            return self.ev(0, args[0])
        if self.call_style == "krogh":
            if len(args) != 1 or kwargs:
                raise ev.err("KroghInterpolator called with unexpected arguments", n, mod)
            return self.ev(0, args[0])
        names = ["x", "nu", "ext" if self.kind == "spline" else "extrapolate"]
        b = dict(zip(names, args))
        for k, v in kwargs.items():
            if k not in names or k in b:
                raise RaisedV("TypeError")
            b[k] = v
        nu = _const_int(b.get("nu", sp.Integer(0)))
        ck = None
        if "extrapolate" in b and b["extrapolate"] is not None:
            ck = b["extrapolate"]
        if "ext" in b and b["ext"] is not None:
            ck = (b["ext"] == 0 or b["ext"] == "extrapolate")
        return self.ev(nu, b["x"], ck)

    def sym_getattr(self, ev, name, node, mod):
        if name == "derivative" and self.call_style in ("krogh",):
            return BoundLib("interp.derivative_at", self)
        if name == "derivative" and self.kind == "ppoly":
            return BoundLib("ppoly.derivative", self)
        if name == "derivative" and self.kind == "spline":
            return BoundLib("spline.derivative", self)
        if name == "extrapolate":
            return self.extrapolate
        if name == "deriv" and self.call_style == "poly":
            return BoundLib("poly.deriv", self)
        if name == "derivatives" and self.call_style == "krogh":
            return BoundLib("interp.derivatives", self)
        raise ev.err(f"interpolant attribute {name}", node, mod)

    def sym_setattr(self, ev, name, v, node, mod):
        if name == "extrapolate" and self.kind == "ppoly":
            if not isinstance(v, bool):
                raise ev.err("extrapolate set to a non-constant", node, mod)
            self.extrapolate = v
            return
        raise ev.err(f"store to interpolant attribute {name}", node, mod)


class DerivV:
    def __init__(self, interp, order):
        self.interp, self.order = interp, order

    def sym_getattr(self, ev, name, node, mod):
        if name == "deriv":
            return BoundLib("poly.deriv", self)
        raise ev.err(f"derivative polynomial attribute {name}", node, mod)

    def sym_call(self, ev, args, kwargs, n, mod):
        if len(args) != 1 or kwargs:
            raise ev.err("derivative polynomial called with unexpected arguments", n, mod)
        return self.interp.ev(self.order, args[0])


class DerivPP:
    """PPoly.derivative(nu): a new piecewise polynomial that copies the extrapolate flag AT CREATION (scipy PPoly.derivative)"""

    def __init__(self, interp, order, extrapolate):
        self.interp, self.order, self.extrapolate = interp, order, extrapolate

    def sym_call(self, ev, args, kwargs, n, mod):
        b = dict(zip(["x", "nu", "extrapolate"], args))
        b.update(kwargs)
        nu = _const_int(b.get("nu", sp.Integer(0)))
        ck = b.get("extrapolate")
        return self.interp.ev(self.order + nu, b["x"], self.extrapolate if ck is None else bool(ck))

    def sym_setattr(self, ev, name, v, node, mod):
        if name == "extrapolate" and isinstance(v, bool):
            self.extrapolate = v
            return
        raise ev.err(f"store to attribute {name} of a derivative polynomial", node, mod)

    def sym_getattr(self, ev, name, node, mod):
        if name == "derivative":
            return BoundLib("ppoly.derivative2", self)
        raise ev.err(f"attribute {name} of a derivative polynomial", node, mod)


class CoefV:
    def __init__(self, interp, decreasing=True):
        self.interp, self.decreasing = interp, decreasing


NROWS = sp.Symbol("NVOL_FIT", positive=True, integer=True)       # rows of the design matrix: the number of sampled volumes


LENF = sp.Function("NODES")


def length_of(v):
    """the number of entries of a data vector, as an atom that is the same for the vector and for what is made of it entry by entry
    (flipped, logarithm, a multiple): NODES(<core vector>)"""
    e = sp.sympify(as_sym(v))
    changed = True
    while changed:
        changed = False
        if getattr(e, "func", None) is not None and getattr(e.func, "__name__", "") in ("FLIP",) and e.args:
            e, changed = e.args[0], True
        elif isinstance(e, (sp.log, sp.exp)):
            e, changed = e.args[0], True
        elif isinstance(e, sp.Mul):
            rest = [a_ for a_ in e.args if not a_.is_number]
            if len(rest) == 1 and len(rest) != len(e.args):
                e, changed = rest[0], True
    return LENF(e)


class VanderV:
    def __init__(self, x, ncols, increasing=False):
        self.x, self.ncols, self.increasing = x, ncols, increasing

    def sym_getattr(self, ev, name, node, mod):
        from .sym import LibV, Tup
        if name == "dtype":
            return LibV("numpy.float64")
        if name == "shape":
            return Tup([length_of(self.x), as_sym(self.ncols)], "tuple")
        raise ev.err(f"attribute {name} of a Vandermonde matrix", node, mod)


def default_or_smaller_cutoff(rc, ncols, rows=None) -> bool:
    """numpy.linalg.lstsq(a, b, rcond): None (and -1) mean machine precision times max(M, N); a cut-off is harmless when it is at most that for every admissible
    shape (M >= N >= 2 rows / columns): a number <= 2 eps, or c * max(M, N) / c * M / c * N ... with c <= eps.  Anything larger drops singular directions the
    default solve keeps (the ln V Vandermonde matrix is nearly singular at orders 4-5)."""
    if rc is None:
        return True
    EPS = sp.Rational(1, 2 ** 52)
    r = as_sym(rc)
    if r.is_number:
        return bool(r <= 2 * EPS)
    rows = NROWS if rows is None else rows
    big = sp.Max(rows, as_sym(ncols))
    for ref in (big, rows):
        q = sp.simplify(r / ref)
        if q.is_number:
            return bool(q <= EPS)
    return False


class LstsqResiduals:
    """the residuals numpy.linalg.lstsq hands back: ONE number for an over-determined full-rank system, an EMPTY array when the system is square,
    under-determined or rank deficient (installed docstring).  The number of volumes and the configured order decide which - both occur for valid inputs
    (order + 1 >= number of volumes; a nearly singular ln V Vandermonde matrix at high order) - so an element cannot be taken from it unconditionally"""

    def sym_subscript(self, ev, idx, n, mod):
        from .sym import RaisedV
        raise RaisedV("EmptySelection", f"{mod.rel}:{getattr(n, 'lineno', 0)}" if mod else "")

    def sym_getattr(self, ev, name, node, mod):
        from .sym import BoundLib
        if name in ("sum", "size", "any", "all"):
            return BoundLib("lstsqres." + name, self)
        raise ev.err(f"attribute {name} of the residuals of lstsq", node, mod)

    def sym_len(self):
        return sp.Symbol("N_LSTSQ_RESIDUALS", nonnegative=True, integer=True)


def intrinsics(reg: Registry):
    def ctor_args(cls_file, cls, a, k):
        names, required = positional_params(next(n for n in lib_class(cls_file, cls).body
                                                 if getattr(n, "name", None) == "__init__"), drop_self=True)
        init = next(n for n in lib_class(cls_file, cls).body if getattr(n, "name", None) == "__init__")
        kwonly = [x.arg for x in init.args.kwonlyargs]
        if len(a) > len(names):
            raise RaisedV("TypeError")
        b = dict(zip(names, a))
        for kk, v in k.items():
            if (kk not in names and kk not in kwonly) or kk in b:
                raise RaisedV("TypeError")
            b[kk] = v
        missing = [r for r in required if r not in b]
        return b, missing

    def spline(ev, a, k):
        b, missing = ctor_args("scipy/interpolate/_fitpack2.py", "UnivariateSpline", a, k)
        if missing:
            raise RaisedV("TypeError")
        return reg.new(kind="spline", x=as_sym(b["x"]), y=as_sym(b["y"]), cls="UnivariateSpline",
                       opts={kk: v for kk, v in b.items() if kk not in ("x", "y")})

    def ppoly(cls):
        def f(ev, a, k):
            b, missing = ctor_args("scipy/interpolate/_cubic.py", cls, a, k)
            if missing:
                e = RaisedV("TypeError")
                e.missing = missing
                e.cls = cls
                raise e
            ex = b.get("extrapolate")
            return reg.new(kind="ppoly", x=as_sym(b["x"]), y=as_sym(b["y"]), cls=cls, extrapolate=ex if isinstance(ex, bool) else None,
                           opts={kk: v for kk, v in b.items() if kk not in ("x", "y", "extrapolate")})
        return f

    def lagrange(ev, a, k):
        if len(a) != 2 or k:
            raise RaisedV("TypeError")
        return reg.new(kind="lagrange", x=as_sym(a[0]), y=as_sym(a[1]), call_style="poly")

    def krogh(ev, a, k):
        if len(a) < 2 or set(k) - {"axis"}:
            raise RaisedV("TypeError")
        return reg.new(kind="krogh", x=as_sym(a[0]), y=as_sym(a[1]), call_style="krogh")

    def krogh_derivative(ev, a, k):
        it = a[0]
        b = dict(zip(["x", "der"], a[1:]))
        b.update(k)
        return it.ev(_const_int(b.get("der", sp.Integer(1))), b["x"])

    def polyder(ev, a, k):
        p = a[0]
        m = _const_int(k.get("m", a[1] if len(a) > 1 else sp.Integer(1)))
        if isinstance(p, InterpV) and p.call_style == "poly":
            return DerivV(p, m)
        if isinstance(p, DerivV):
            return DerivV(p.interp, p.order + m)
        raise AnalysisError("numpy.polyder of something that is not a polynomial object")

    def polyval(ev, a, k):
        p, x = a[0], a[1]
        if isinstance(p, InterpV) and p.call_style == "poly":
            return p.ev(0, x)
        if isinstance(p, DerivV):
            return p.interp.ev(p.order, x)
        if isinstance(p, CoefV):
            if not p.decreasing:
                raise AnalysisError("coefficient-order-mismatch")
            return p.interp.ev(0, x)
        raise AnalysisError("numpy.polyval of something that is not a polynomial object")

    def poly1d(ev, a, k):
        c = a[0]
        if isinstance(c, CoefV):
            if not c.decreasing:
                raise AnalysisError("coefficient-order-mismatch")
            return c.interp
        raise AnalysisError("numpy.poly1d of something that is not a coefficient vector")

    def vander(ev, a, k):
        inc = k.get("increasing", False)
        return VanderV(as_sym(a[0]), as_sym(a[1]) if len(a) > 1 else k.get("N"), bool(inc))

    def lstsq(ev, a, k):
        A, y = a[0], a[1]
        if not isinstance(A, VanderV):
            raise AnalysisError("lstsq on a matrix that is not a Vandermonde matrix")
        bad = set(k) - {"rcond"}
        if bad:
            raise AnalysisError(f"numpy.linalg.lstsq with keyword(s) {sorted(bad)} the transfer function does not model")
        it = reg.new(kind="lsq", x=A.x, y=as_sym(y), call_style="poly", opts={"ncols": A.ncols, "rcond": k.get("rcond")})
        return Tup([CoefV(it, decreasing=not A.increasing), LstsqResiduals(), sp.Symbol("RANK"), sp.Symbol("SV")])

    def polyfit(ev, a, k):
        deg = k.get("deg", a[2] if len(a) > 2 else None)
        bad = set(k) - {"deg", "rcond"}
        if bad or len(a) > 3:
            raise AnalysisError(f"numpy.polyfit with argument(s) {sorted(bad) or 'beyond deg'} the transfer function does not model (weights, covariance, full output)")
        it = reg.new(kind="lsq", x=as_sym(a[0]), y=as_sym(a[1]), call_style="poly", opts={"ncols": as_sym(deg) + 1, "rcond": k.get("rcond")})
        return CoefV(it)

    def make_lsq_spline(ev, a, k):
        """scipy.interpolate.make_lsq_spline(x, y, t, k): the least-squares B-spline on the knot vector t.  It has len(t) - k - 1 coefficients and refuses
        (ValueError) when there are more coefficients than data points.  The knot vector is read as a concatenation of repeated end knots and slices of x."""
        import re as _re
        from .sym import ConcatV, RepeatV, RaisedV as _R
        names = ["x", "y", "t", "k", "w", "axis", "check_finite"]
        b = dict(zip(names, a))
        for kk, v in k.items():
            if kk not in names or kk in b:
                raise _R("TypeError")
            b[kk] = v
        if b.get("w") is not None:
            raise AnalysisError("make_lsq_spline with weights")
        t, kk = b.get("t"), as_sym(b.get("k", sp.Integer(3)))
        if not isinstance(t, ConcatV):
            raise AnalysisError("make_lsq_spline with a knot vector that is not a concatenation the analysis can read")
        length = sp.Integer(0)
        interior = False
        for part in t.parts:
            if isinstance(part, RepeatV):
                length += as_sym(part.count)
            elif is_sym(part):
                m_ = [s_ for s_ in sp.sympify(part).atoms(sp.Symbol) if s_.name.startswith("idx[")]
                if not m_:
                    length += 1
                    continue
                mm = _re.fullmatch(r"idx\[(-?\d*):(-?\d*)\]", m_[0].name)
                if not mm:
                    raise AnalysisError(f"knot vector part {part} is not a plain slice of the data")
                lo = int(mm.group(1)) if mm.group(1) else 0
                hi = int(mm.group(2)) if mm.group(2) else 0
                length += (NROWS + hi if hi <= 0 else hi) - (NROWS + lo if lo < 0 else lo)
                interior = True
            else:
                raise AnalysisError("knot vector part of an unsupported kind")
        ncoef = sp.expand(length - kk - 1)
        # admissible: spline orders 2..5, each below the number of sampled volumes
        order_syms = sorted(ncoef.free_symbols - {NROWS}, key=str)
        if len(order_syms) > 1:
            raise AnalysisError("number of spline coefficients depends on more than the order and the number of volumes")
        bad = []
        for o_ in range(2, 6):
            for nv in range(o_ + 1, o_ + 14):
                env = {NROWS: nv}
                if order_syms:
                    env[order_syms[0]] = o_
                if int(ncoef.subs(env)) > nv:
                    bad.append((o_, nv, int(ncoef.subs(env))))
                    break
        if bad:
            e = _R("InputAssumption", ev.here(None, None))
            e.expected = "the interpolant can be built for every admissible order (spline: 2 to 5, below the number of sampled volumes)"
            e.detail = ("make_lsq_spline is given a knot vector with more coefficients than data points for admissible orders: "
                        + "; ".join(f"order {o_}, {nv} volumes -> {nc} coefficients" for o_, nv, nc in bad[:3]) + ": ValueError, the calculation cannot complete")
            raise e
        return reg.new(kind="spline", x=as_sym(b["x"]), y=as_sym(b["y"]), cls="make_lsq_spline", opts={"k": kk, "interior_knots": interior})

    def finfo(ev, a, k):
        from .sym import Obj, LibV
        t = a[0] if a else None
        if not (isinstance(t, LibV) and t.name in ("numpy.float64", "builtins.float", "numpy.double", "numpy.float_")):
            raise AnalysisError(f"numpy.finfo of {t!r}")
        return Obj("ext:numpy.finfo", {"eps": sp.Rational(1, 2 ** 52), "tiny": sp.Rational(1, 2 ** 1022), "resolution": sp.Rational(1, 10 ** 15),
                                       "smallest_normal": sp.Rational(1, 2 ** 1022), "epsneg": sp.Rational(1, 2 ** 53)})

    def max_(ev, a, k):
        from .sym import Tup
        from .sym import LIB
        try:
            items = ev.iterate(a[0], None, None) if len(a) == 1 else list(a)
            vals = [as_sym(i) for i in items]
        except AnalysisError:
            return LIB["max"](ev, a, k, None, None)
        if k:
            return LIB["max"](ev, a, k, None, None)
        if all(v.is_number for v in vals):
            return max(vals)
        return sp.Max(*vals)

    def flip(ev, a, k):
        ax = k.get("axis", a[1] if len(a) > 1 else None)
        return FLIP(as_sym(a[0]))

    def sort_(ev, a, k):
        # a vector sorted by ITS OWN values: a data-dependent reordering that another vector does not share
        k.all() if hasattr(k, "all") else None
        return sp.Function("SORT")(as_sym(a[0]))

    def argsort_(ev, a, k):
        k.all() if hasattr(k, "all") else None
        return sp.Function("ARGSORT")(as_sym(a[0]))

    def ceil(ev, a, k):
        return sp.ceiling(as_sym(a[0]))

    def floor(ev, a, k):
        return sp.floor(as_sym(a[0]))

    def int_(ev, a, k):
        v = a[0]
        if isinstance(v, str):
            return sp.Integer(int(v))
        v = as_sym(v)
        if v.is_Rational:
            return sp.Integer(int(v))
        return v if v.is_integer else sp.floor(v)

    def ppoly_derivative(ev, a, k):
        it = a[0]
        nu = _const_int(k.get("nu", a[1] if len(a) > 1 else sp.Integer(1)))
        return DerivPP(it, nu, it.effective_extrapolation())

    def ppoly_derivative2(ev, a, k):
        d = a[0]
        nu = _const_int(k.get("nu", a[1] if len(a) > 1 else sp.Integer(1)))
        return DerivPP(d.interp, d.order + nu, d.extrapolate)

    def spline_derivative(ev, a, k):
        it = a[0]
        nu = _const_int(k.get("n", a[1] if len(a) > 1 else sp.Integer(1)))
        return DerivPP(it, nu, it.effective_extrapolation())

    def krogh_derivatives(ev, a, k):
        # KroghInterpolator.derivatives(x, der=None): the derivatives of orders 0 .. der-1 stacked along a new leading axis
        it, x = a[0], a[1]
        der = k.get("der", a[2] if len(a) > 2 else None)
        if der is None:
            raise AnalysisError("KroghInterpolator.derivatives without der (all derivatives)")
        return Tup([it.ev(i, x) for i in range(_const_int(der))], "list")

    return {
        "interp.derivatives": krogh_derivatives, "poly.deriv": polyder,
        "ppoly.derivative": ppoly_derivative, "ppoly.derivative2": ppoly_derivative2, "spline.derivative": spline_derivative,
        "scipy.interpolate.UnivariateSpline": spline, "scipy.interpolate.make_lsq_spline": make_lsq_spline,
        "scipy.interpolate.InterpolatedUnivariateSpline": spline,
        "scipy.interpolate.PchipInterpolator": ppoly("PchipInterpolator"),
        "scipy.interpolate.Akima1DInterpolator": ppoly("Akima1DInterpolator"),
        "scipy.interpolate.CubicHermiteSpline": ppoly("CubicHermiteSpline"),
        "scipy.interpolate.CubicSpline": ppoly("CubicSpline"),
        "scipy.interpolate.lagrange": lagrange, "scipy.interpolate.KroghInterpolator": krogh,
        "interp.derivative_at": krogh_derivative, "numpy.polyder": polyder, "numpy.polyval": polyval,
        "numpy.poly1d": poly1d, "numpy.vander": vander, "numpy.linalg.lstsq": lstsq, "numpy.polyfit": polyfit, "numpy.finfo": finfo, "builtins.max": max_,
        "lstsqres.sum": lambda ev, a, k: sp.Symbol("LSTSQ_MISFIT", nonnegative=True), "lstsqres.size": lambda ev, a, k: a[0].sym_len(),
        "numpy.union1d": lambda ev, a, k: sp.Function("UNION1D")(as_sym(a[0]), as_sym(a[1])),      # a sorted index vector decided by the data counts: one atom, the same for every vector it selects from
        "numpy.flip": flip, "numpy.sort": sort_, "numpy.argsort": argsort_, "numpy.ceil": ceil, "numpy.floor": floor, "math.ceil": ceil, "math.floor": floor, "builtins.int": int_,
    }
