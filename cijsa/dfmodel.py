"""Model of the pandas/numpy constructs cli/static.py uses: a DataFrame is a map column -> value
(one sympy expression per column, elementwise over rows); symbolic-length sequences are
elementwise maps.  Transfer functions for linspace/min/max/spline as opaque atoms."""
from __future__ import annotations

import itertools

import sympy as sp

from . import units as U
from .opaque import linear, homogeneous, F, scalar_part
from .report import AnalysisError
from .sym import (RaisedV, LIB, Tup, DictV, SliceV, RangeV, BoundLib, LibV, as_sym, is_sym, Obj, _const_int, ArrV)


class LoopIdx:
    """the index variable of an elementwise loop over all rows"""

    def __init__(self, owner):
        self.owner = owner

    def __repr__(self):
        return "<all rows>"


class IndexV:
    def __init__(self, n):
        self.n = n          # number of rows (sympy)

    def sym_iter(self, ev, n, mod):
        return [LoopIdx(self)]

    def sym_getattr(self, ev, name, node, mod):
        if name == "to_numpy":
            return BoundLib("identity", F("ROWINDEX")(self.n))
        raise ev.err(f"index attribute {name}", node, mod)


class SeqV:
    """a sequence of symbolic length whose element is described by one object with vector-atom
    fields (elementwise view)"""

    elementwise_seq = True

    def __init__(self, elem, length=None, label="seq"):
        self.elem, self.length, self.label = elem, length, label

    def sym_subscript(self, ev, idx, n, mod):
        if isinstance(idx, LoopIdx):
            return self.elem
        if is_sym(idx) and idx.is_Integer:
            return FirstOf(self, int(idx))
        raise ev.err("index into a symbolic sequence", n, mod)

    def sym_iter(self, ev, n, mod):
        return [EachOf(self)]

    def sym_store(self, ev, idx, v, t, mod):
        if isinstance(idx, LoopIdx):
            self.elem = v       # every element is replaced by the same elementwise expression
            self.rewritten = getattr(self, "rewritten", 0) + 1
            return
        raise ev.err("store into a symbolic sequence at a non-loop index", t, mod)

    def sym_len(self):
        return sp.Symbol("NSEQ", positive=True, integer=True)

    def sym_enumerate(self, ev, n, mod):
        return Tup([Tup([LoopIdx(self), EachOf(self)])], "list")


class EachOf:
    """marker: iteration variable ranging over all elements of a SeqV (comprehension / loop)"""

    def __init__(self, seq):
        self.seq = seq

    def sym_getattr(self, ev, name, node, mod):
        v = ev.get_attr(self.seq.elem, name, node, mod)
        return PerElemDict(v, "each") if isinstance(v, DictV) else v

    def sym_iter(self, ev, n, mod):
        return ev.iterate(self.seq.elem, n, mod)

    def sym_subscript(self, ev, idx, n, mod):
        return ev.subscript(self.seq.elem, idx, n, mod)       # record[k] of every element: field k, elementwise


class FirstOf:
    """seq[k] for constant k: fields are Indexed(field vector, k)"""

    def __init__(self, seq, k):
        self.seq, self.k = seq, k

    def sym_getattr(self, ev, name, node, mod):
        v = ev.get_attr(self.seq.elem, name, node, mod)
        if is_sym(v):
            return linear("AT", [v, sp.Integer(self.k)], 0)
        if isinstance(v, DictV):
            return PerElemDict(v, ("element", self.k))
        return v        # dict of per-key vectors etc.: same key set for every element


class PerElemDict:
    """the dictionary held by ONE element of a summarised sequence (`volume.static_elastic_modulus` inside a loop over the volumes, or of volumes[k]).
    The elements share their key SET (that is what the summary says), not necessarily the ORDER in which each dictionary was filled: what is read by key
    is the same for every element, what is read by position (.values(), .keys(), .items(), iteration) comes in that element's own order"""

    def __init__(self, d, who):
        self.d, self.who = d, who

    def _tag(self, t):
        t.own_order = self.who
        return t

    def sym_getattr(self, ev, name, node, mod):
        if name in ("values", "keys", "items", "get", "copy", "pop", "update", "setdefault"):
            return BoundLib(f"pelem.{name}", self)
        raise ev.err(f"attribute {name} of a per-element dictionary", node, mod)

    def sym_subscript(self, ev, idx, n, mod):
        return ev.subscript(self.d, idx, n, mod)

    def sym_store(self, ev, idx, v, t, mod):
        self.d.d[idx] = v

    def sym_iter(self, ev, n, mod):
        return list(self.d.d.keys())

    def sym_contains(self, ev, item, n, mod):
        return item in self.d.d

    def sym_len(self):
        return sp.Integer(len(self.d.d))


def _pelem(name):
    def f(ev, a, k, n=None, mod=None):
        pd = a[0]
        if name == "values":
            return pd._tag(Tup(list(pd.d.d.values()), "list"))
        if name == "keys":
            t = pd._tag(Tup(list(pd.d.d.keys()), "list"))
            t.keys_view = True
            return t
        if name == "items":
            return pd._tag(Tup([Tup([kk, vv]) for kk, vv in pd.d.d.items()], "list"))
        if name == "get":
            if pd.d.d.membership(a[1]) is None:
                raise AnalysisError("per-element dict.get with an undecided key")
            return pd.d.d.get(a[1], a[2] if len(a) > 2 else None)
        if name == "copy":
            out = DictV()
            out.d.update(pd.d.d)
            return PerElemDict(out, pd.who)
        raise AnalysisError(f"per-element dictionary method {name} is not modelled")
    return f


class DFV:
    def __init__(self, nrows, cols=None, index=None):
        self.nrows = nrows
        self.cols = dict(cols or {})
        self.index_desc = index

    def sym_len(self):
        return self.nrows

    def copy(self):
        out = DFV(self.nrows, self.cols, self.index_desc)
        if getattr(self, "row_perm", None):
            out.row_perm = list(self.row_perm)
        return out

    def sym_getattr(self, ev, name, node, mod):
        if name == "loc":
            return LocV(self)
        if name == "iloc":
            return ILocV(self)
        if name == "index":
            return getattr(self, "index_value", None) or IndexV(self.nrows)
        if name == "columns":
            return Tup(list(self.cols.keys()), "list")
        if name == "shape":
            return Tup([self.nrows, sp.Integer(len(self.cols))])
        if name in ("to_string", "items", "drop", "copy"):
            return BoundLib(f"DataFrame.{name}", self)
        if name == "iterrows":
            return BoundLib("DataFrame.iterrows", self)
        raise ev.err(f"DataFrame attribute {name}", node, mod)

    def sym_subscript(self, ev, idx, n, mod):
        if isinstance(idx, str):
            if idx not in self.cols:
                raise ev.err(f"column {idx!r} does not exist", n, mod)
            return self.cols[idx]
        if isinstance(idx, Tup) and all(isinstance(i, str) for i in idx.items) and hasattr(self, "sym_subscript_multi"):
            for i in idx.items:
                if i not in self.cols:
                    raise ev.err(f"column {i!r} does not exist", n, mod)
            return self.sym_subscript_multi(idx.items)
        raise ev.err("DataFrame subscript", n, mod)

    def sym_store(self, ev, idx, v, t, mod):
        if isinstance(idx, str):
            if hasattr(v, "index_kind"):
                # a labelled column is aligned on the row labels: values labelled 0..n-1 by a constructor land in the rows that
                # carry those labels (none, or other rows, unless the table happens to be labelled 0..n-1 in order)
                v = v.value if v.index_kind == "table" else sp.Function("ALIGNED_ON_FRESH_ROW_LABELS")(as_sym(v.value))
            self.cols[idx] = as_sym(v)
            return
        if isinstance(idx, Tup) and idx.items and all(isinstance(i, str) for i in idx.items) and hasattr(v, "cols") and hasattr(v, "index_kind"):
            # table[list of names] = frame: column by column, aligned on the row labels like a single labelled column
            if [str(c) for c in v.cols] != list(idx.items):
                raise ev.err("block assignment of a frame whose columns are not the addressed ones, in order", t, mod)
            for name in idx.items:
                val = as_sym(v.cols[name])
                self.cols[name] = val if v.index_kind == "table" else sp.Function("ALIGNED_ON_FRESH_ROW_LABELS")(val)
            return
        raise ev.err("DataFrame store", t, mod)


class LocV:
    def __init__(self, df):
        self.df = df

    def _col(self, ev, idx, n, mod):
        if not (isinstance(idx, Tup) and len(idx.items) == 2 and isinstance(idx.items[1], str)):
            raise ev.err("unsupported .loc index", n, mod)
        return idx.items[0], idx.items[1]

    def sym_subscript(self, ev, idx, n, mod):
        if isinstance(idx, Tup) and len(idx.items) == 2 and isinstance(idx.items[0], SliceV) and idx.items[0].lo is None and idx.items[0].hi is None \
                and isinstance(idx.items[1], Tup) and idx.items[1].items and all(isinstance(b_, bool) for b_ in idx.items[1].items):
            # table.loc[:, [True, False, ...]]: the columns where the mask is true, in their order
            mask = idx.items[1].items
            if len(mask) != len(self.df.cols):
                raise RaisedV("IndexError", f"{mod.rel}:{getattr(n, 'lineno', 0)}" if mod else "")
            out = self.df.copy()
            out.cols = {k_: v_ for (k_, v_), keep in zip(self.df.cols.items(), mask) if keep}
            return out
        rows, col = self._col(ev, idx, n, mod)
        if not (isinstance(rows, SliceV) and rows.lo is None and rows.hi is None):
            raise ev.err("unsupported row selection in .loc read", n, mod)
        if col not in self.df.cols:
            raise ev.err(f"column {col!r} does not exist", n, mod)
        return self.df.cols[col]

    def sym_store(self, ev, idx, v, t, mod):
        rows, col = self._col(ev, idx, t, mod)
        if isinstance(rows, LoopIdx) or (isinstance(rows, SliceV) and rows.lo is None and rows.hi is None):
            if getattr(v, "name", None) in ("numpy.nan", "math.nan", "numpy.NaN"):
                v = sp.Symbol("NOT_A_NUMBER")           # a column of placeholders: whatever reads it before it is overwritten gets NaN
            self.df.cols[col] = as_sym(v)
            return
        raise ev.err("unsupported row selection in .loc store", t, mod)


class ILocV:
    def __init__(self, df):
        self.df = df

    def sym_subscript(self, ev, idx, n, mod):
        items = idx.items if isinstance(idx, Tup) else [idx]
        rows = items[0]
        if isinstance(rows, LoopIdx) and all(isinstance(i, SliceV) and i.lo is None and i.hi is None and i.step is None for i in items[1:]):
            return RowV(self.df)
        if is_sym(rows) and rows.is_Integer and all(isinstance(i, SliceV) and i.lo is None and i.hi is None and i.step is None for i in items[1:]):
            return RowV(self.df, int(rows))
        if isinstance(rows, SliceV) and rows.lo is None and rows.hi is None:
            out = self.df.copy()
            out.sampled = rows.step
            return out
        if isinstance(rows, PermV) and all(isinstance(i, SliceV) and i.lo is None and i.hi is None and i.step is None for i in items[1:]):
            out = self.df.copy()
            out.row_perm = compose_rows(getattr(self.df, "row_perm", []), rows)
            return out
        raise ev.err("unsupported .iloc index", n, mod)


def lib_dataframe(ev, a, k, n, mod):
    index = k.get("index")
    if a:
        data = a[0]
        if isinstance(data, Tup) and getattr(data, "elementwise", False) and len(data.items) == 1 and isinstance(data.items[0], DictV):
            d = data.items[0]
            cols = {}
            for kk, vv in d.d.items():
                if not isinstance(kk, str):
                    raise ev.err("DataFrame column name is not a constant string", n, mod)
                cols[kk] = as_sym(vv)
            return DFV(sp.Symbol("NSEQ", positive=True, integer=True), cols)
        if isinstance(data, DictV) and data.d and all(isinstance(kk, str) for kk in data.d) and \
                all(isinstance(vv, Tup) and getattr(vv, "elementwise", False) and len(vv.items) == 1 for vv in data.d.values()):
            # {"col": [f(row) for row in rows], ...}: one elementwise column each
            nrows = sp.Symbol("NSEQ", positive=True, integer=True)
            if isinstance(index, RangeV):
                nrows = sp.Integer(index.hi - index.lo)
            elif isinstance(index, SymRange):
                nrows = index.n
            return DFV(nrows, {kk: as_sym(vv.items[0]) for kk, vv in data.d.items()}, index)
        def _col(vv):
            # a whole-column expression, or a one-element sequence standing for "one value per row" of a summarised sequence
            if isinstance(vv, Tup) and len(vv.items) == 1 and is_sym(vv.items[0]) and not isinstance(vv.items[0], bool):
                return vv.items[0]
            return vv
        if isinstance(data, DictV) and data.d and all(isinstance(kk, str) for kk in data.d) and all(is_sym(_col(vv)) and not isinstance(_col(vv), bool) for vv in data.d.values()):
            data = DictV({kk: _col(vv) for kk, vv in data.d.items()})
            # {"col": <column vector>, ...}: one whole-column expression each
            nrows = sp.Symbol("NSEQ", positive=True, integer=True)
            if isinstance(index, RangeV):
                nrows = sp.Integer(index.hi - index.lo)
            elif isinstance(index, SymRange):
                nrows = index.n
            return DFV(nrows, {kk: as_sym(vv) for kk, vv in data.d.items()}, index)
        if isinstance(data, Tup) and not getattr(data, "elementwise", False) and len(data.items) == 1 and isinstance(data.items[0], DictV) \
                and all(isinstance(kk, str) for kk in data.items[0].d):
            # a list holding ONE record: a table with a single row (not one row per element of a sequence)
            return DFV(sp.Integer(1), {kk: as_sym(vv) for kk, vv in data.items[0].d.items()})
        if isinstance(data, Tup) and getattr(data, "elementwise", False) and len(data.items) == 1 and isinstance(data.items[0], Tup) and isinstance(k.get("columns"), Tup) \
                and all(isinstance(c_, str) for c_ in k.get("columns").items):
            # one positional row per element + one list of labels for all of them
            row, labels_ = data.items[0], list(k.get("columns").items)
            if getattr(row, "own_order", None) == "each":
                e = RaisedV("InputAssumption", ev.here(n, mod))
                e.expected = "values placed under a label by looking them up with the key the label is made from"
                e.detail = ("every element's values are taken in the order of that element's own dictionary (.values() / iteration) and placed under ONE list of labels: an element whose "
                            "dictionary was filled in another order gets its values under the wrong names (dictionaries with the same keys in different orders are equal, and every other "
                            "reader looks the components up by key)")
                raise e
            if len(row.items) != len(labels_):
                raise RaisedV("ValueError")
            return DFV(sp.Symbol("NSEQ", positive=True, integer=True), {c_: as_sym(v_) for c_, v_ in zip(labels_, row.items)})
        raise ev.err("DataFrame(data) of this shape is not modelled", n, mod)
    if isinstance(index, RangeV):
        nrows = sp.Integer(index.hi - index.lo)
    elif isinstance(index, SymRange):
        nrows = index.n
    else:
        raise ev.err("DataFrame(index=...) with an unsupported index", n, mod)
    return DFV(nrows, {}, index)


class SymRange:
    def __init__(self, n):
        self.n = n

    def sym_iter(self, ev, n, mod):
        return [LoopIdx(self)]


class PermV:
    """numpy.argsort(x): the permutation that sorts the data vector x (whatever it is); argsort of it is its inverse"""

    def __init__(self, key, inverse=False):
        self.key, self.inverse = key, inverse


def compose_rows(word, perm):
    """row order of table.iloc[perm] for a table whose rows are already permuted by `word`: a word over permutations and their inverses,
    with p followed by its inverse (or the other way round) cancelled; [] is the original row order"""
    word = list(word)
    if word and word[-1][0] == perm.key and word[-1][1] != perm.inverse:
        return word[:-1]
    return word + [(perm.key, perm.inverse)]


def lib_argsort(ev, a, k, n, mod):
    x = a[0]
    if isinstance(x, PermV):
        return PermV(x.key, not x.inverse)
    if isinstance(x, Tup) and len(x.items) == 1 and is_sym(x.items[0]):
        x = x.items[0]                     # a comprehension over the summarised sequence: the vector of that expression
    if is_sym(x) and as_sym(x).free_symbols:
        return PermV(sp.srepr(as_sym(x)))
    raise ev.err("numpy.argsort of this operand is not modelled in a table fold", n, mod)


lib_argsort.kw = {"kind", "axis", "stable"}


class RowV:
    """df.iloc[i, :] for the loop index i: the row as (name, elementwise value) pairs"""

    def __init__(self, df, const_row=None):
        self.df = df
        if getattr(df, "row_perm", None):
            # the rows of this table are in another order than the sequence the loop index runs over: row i belongs to another element
            self.df = DFV(df.nrows, {k: sp.Function("ROW_OF_ANOTHER_ELEMENT")(as_sym(v)) for k, v in df.cols.items()})
        if const_row is not None:
            self.df = DFV(df.nrows, {k: linear("AT", [v, sp.Integer(const_row)], 0) for k, v in df.cols.items()})

    def sym_getattr(self, ev, name, node, mod):
        if name == "items":
            return BoundLib("row.items", self)
        raise ev.err(f"row attribute {name}", node, mod)

    def sym_subscript(self, ev, idx, n, mod):
        if isinstance(idx, str) and idx in self.df.cols:
            return self.df.cols[idx]
        raise ev.err("row subscript", n, mod)


def lib_range_sym(ev, a, k, n, mod):
    if len(a) == 1 and is_sym(a[0]) and not a[0].is_Integer:
        return SymRange(a[0])
    from .sym import lib_range
    return lib_range(ev, a, k, n, mod)


def lib_linspace(ev, a, k, n, mod):
    num = a[2] if len(a) > 2 else k.get("num")
    return homogeneous("LINSPACE", [as_sym(a[0]), as_sym(a[1]), as_sym(num)], (0, 1))


def lib_min(ev, a, k, n, mod):
    return homogeneous("MIN", [as_sym(a[0])], (0,))


def lib_max(ev, a, k, n, mod):
    return homogeneous("MAX", [as_sym(a[0])], (0,))


class SortedV:
    """numpy.sort(x) of a data vector: its last element is max(x), its first min(x); anything else about it is the opaque atom SORT(x)"""

    def __init__(self, x):
        self.x = x

    def sym_subscript(self, ev, idx, n, mod):
        if is_sym(idx) and idx.is_Integer and int(idx) == -1:
            return homogeneous("MAX", [self.x], (0,))
        if is_sym(idx) and idx.is_Integer and int(idx) == 0:
            return homogeneous("MIN", [self.x], (0,))
        return ev.subscript(sp.Function("SORT")(self.x), idx, n, mod)


def lib_sort_vec(ev, a, k, n, mod):
    x = a[0]
    if is_sym(x) and as_sym(x).free_symbols and len(a) == 1:
        return SortedV(as_sym(x))
    from .sym import LIB as _LIB
    return _LIB["numpy.sort"](ev, a, k, n, mod)


lib_sort_vec.kw = {"kind", "axis", "stable"}


class SplineV:
    def __init__(self, x, y):
        self.x, self.y = x, y

    def sym_call(self, ev, args, kwargs, n, mod):
        return linear("SPLINE", [self.x, self.y, as_sym(args[0])], 1, same_scale_groups=((0, 2),))


def lib_ius(ev, a, k, n, mod):
    kk = k.get("k", sp.Integer(3))
    if _const_int(kk) != 3:
        raise ev.err("InterpolatedUnivariateSpline of a degree other than 3", n, mod)
    return SplineV(as_sym(a[0]), as_sym(a[1]))


lib_ius.kw = {"k"}


class SmoothSplineV:
    """scipy UnivariateSpline without s=0: a smoothing spline (FITPACK chooses the knots for a residual s = len(x)): it does not pass through the data"""

    def __init__(self, x, y, s):
        self.x, self.y, self.s = x, y, s

    def sym_call(self, ev, args, kwargs, n, mod):
        return linear("SMOOTHING_SPLINE", [self.x, self.y, as_sym(args[0])], 1, same_scale_groups=((0, 2),))


def lib_us(ev, a, k, n, mod):
    """scipy.interpolate.UnivariateSpline(x, y, w=None, bbox=[None, None], k=3, s=None): with s = 0 the interpolating spline
    (InterpolatedUnivariateSpline is exactly that, installed source); any other s smooths"""
    kk = k.get("k", a[4] if len(a) > 4 else sp.Integer(3))
    s_ = k.get("s", a[5] if len(a) > 5 else None)
    w_ = k.get("w", a[2] if len(a) > 2 else None)
    if w_ is not None or _const_int(kk) != 3:
        raise ev.err("UnivariateSpline with weights or a degree other than 3", n, mod)
    if s_ is not None and is_sym(s_) and s_ == 0:
        return SplineV(as_sym(a[0]), as_sym(a[1]))
    return SmoothSplineV(as_sym(a[0]), as_sym(a[1]), s_)


lib_us.kw = {"k", "s", "w"}


def grad(expr):
    """numpy.gradient(y) along the grid.  Of a uniformly spaced grid c * linspace(lo, hi, n) it is the spacing c (hi - lo)/(n - 1) at
    every point, ends included (central and one-sided differences of a linear sequence coincide)"""
    g = linear("GRAD", [sp.sympify(expr)], 0)
    GRADF, LIN = F("GRAD"), F("LINSPACE")
    return g.replace(lambda e: e.func == GRADF and len(e.args) == 1 and e.args[0].func == LIN,
                     lambda e: (e.args[0].args[1] - e.args[0].args[0]) / (e.args[0].args[2] - 1))


def lib_gradient(ev, a, k, n, mod):
    axis = k.get("axis")
    if isinstance(a[0], ArrV) and len(a) == 1:
        # rows of grid vectors stacked along a leading constant axis: the gradient along the grid axis, row by row
        x = a[0]
        nd = x.batch + len(x.shape)
        if not (x.batch == 1 and x.batch_last and axis is not None and _const_int(axis) % nd == nd - 1):
            raise ev.err("numpy.gradient of a small array along an axis that is not its grid axis", n, mod)
        out = ArrV(1, x.shape, batch_last=True)
        out.cells = {key: grad(as_sym(x.get(key))) for key in itertools.product(*[range(d) for d in x.shape])}
        return out
    if axis is not None and _const_int(axis) not in (0, -1):
        raise ev.err("numpy.gradient of a grid vector along another axis", n, mod)
    if len(a) == 1:
        return grad(as_sym(a[0]))
    if len(a) != 2:
        raise ev.err("numpy.gradient with more than one spacing argument", n, mod)
    y, h = as_sym(a[0]), sp.sympify(as_sym(a[1]))
    # one further argument: a scalar spacing h (gradient(y)/h), or the coordinates of the points (for a uniform grid: gradient(y)/spacing)
    c, r = scalar_part(h)
    if r.func == F("LINSPACE"):
        return grad(y) / grad(h)
    reduced = h.replace(lambda e: e.func in (F("MIN"), F("MAX")), lambda e: sp.Dummy("red", positive=True))
    scalars = getattr(ev, "grid_scalars", set())
    if not reduced.atoms(sp.Function) and all(isinstance(s_, sp.Dummy) or s_ in scalars or s_ in U.UNIT_SYMBOLS for s_ in reduced.free_symbols):
        return grad(y) / h
    raise ev.err("numpy.gradient with spacing arguments that are neither a scalar of the options nor a uniform grid", n, mod)


def lib_identity(ev, a, k, n, mod):
    return a[0]


def lib_to_numpy(ev, a, k, n, mod):
    return a[0]


def lib_array_T(ev, a, k, n, mod):
    return a[0]


class ElemRows:
    """numpy.array([... for x in seq]) of per-element tuples: .T unpacks into column vectors"""

    def __init__(self, tup):
        self.tup = tup

    def sym_getattr(self, ev, name, node, mod):
        if name == "T":
            return Tup(self.tup.items)
        raise ev.err(f"attribute {name} of an array of records", node, mod)


class ColsV:
    """numpy.array(sequence of fixed-length records): [:, i] is the i-th field as a vector"""

    def __init__(self, fields):
        self.fields = list(fields)

    def sym_subscript(self, ev, idx, n, mod):
        items = idx.items if isinstance(idx, Tup) else [idx]
        if len(items) == 2 and isinstance(items[0], SliceV) and items[0].lo is None and items[0].hi is None and is_sym(items[1]) and items[1].is_Integer:
            k = int(items[1])
            if not -len(self.fields) <= k < len(self.fields):
                from .sym import RaisedV
                raise RaisedV("IndexError", f"{mod.rel}:{getattr(n, 'lineno', 0)}" if mod else "")
            return self.fields[k]
        raise ev.err("unsupported index into an array of records", n, mod)


def lib_np_array(ev, a, k, n, mod):
    v = a[0]
    dt = k.get("dtype")
    if dt is not None and not any(t in repr(dt).lower() for t in ("float", "double")):
        raise AnalysisError("numpy.array with a non-floating dtype in a table model")
    if isinstance(v, SeqV) and isinstance(v.elem, Tup):
        return ColsV(v.elem.items)
    if isinstance(v, Tup) and len(v.items) == 1 and isinstance(v.items[0], Tup) and getattr(v, "elementwise", False):
        inner = v.items[0]
        if inner.items and all(isinstance(r, Tup) for r in inner.items):
            # [[[x_jk ...] ...] for element in sequence]: a table with the sequence as its leading (symbolic) axis
            from .sym import _as_arr
            arr = _as_arr(ev, inner, n, mod)
            arr.batch = 1
            return arr
        return ElemRows(inner)
    if isinstance(v, Tup) and len(v.items) == 1 and getattr(v, "elementwise", False):
        return v.items[0]
    return v


def lib_df_to_string(ev, a, k, n, mod):
    return Printed(a[0], dict(k))


class Printed:
    def __init__(self, df, opts):
        self.df, self.opts = df, opts


def lib_round(ev, a, k, n, mod):
    return F("ROUND")(as_sym(a[0]))


def lib_row_items(ev, a, k, n, mod):
    return Tup([Tup([nm, v]) for nm, v in a[0].df.cols.items()], "list")


def lib_len_seq(ev, a, k, n, mod):
    if hasattr(a[0], "sym_len"):
        return a[0].sym_len()
    from .sym import lib_len
    return lib_len(ev, a, k, n, mod)


def lib_iterrows(ev, a, k, n, mod):
    """df.iterrows(): one summarised iteration (all-rows index, the row as elementwise values)"""
    df = a[0]
    t = Tup([Tup([LoopIdx(df), RowV(df)])], "list")
    t.elementwise_seq = True
    t.elementwise_owner = df
    return t


DF_LIB = {
    "pelem.values": _pelem("values"), "pelem.keys": _pelem("keys"), "pelem.items": _pelem("items"), "pelem.get": _pelem("get"), "pelem.copy": _pelem("copy"),
    "DataFrame.iterrows": lib_iterrows,
    "row.items": lib_row_items, "len": lib_len_seq,
    "pandas.DataFrame": lib_dataframe, "range": lib_range_sym, "numpy.linspace": lib_linspace,
    "numpy.min": lib_min, "numpy.max": lib_max, "numpy.amin": lib_min, "numpy.amax": lib_max,
    "scipy.interpolate.InterpolatedUnivariateSpline": lib_ius, "scipy.interpolate.UnivariateSpline": lib_us, "numpy.gradient": lib_gradient, "numpy.argsort": lib_argsort, "numpy.sort": lib_sort_vec,
    "identity": lib_identity, "ndarray.to_numpy": lib_to_numpy, "numpy.array": lib_np_array,
    "DataFrame.to_string": lib_df_to_string, "round": lib_round,
}


lib_dataframe.kw = {"index", "dtype"}
lib_linspace.kw = {"num"}
lib_to_numpy.kw = {"copy"}
lib_df_to_string.kw = {"index", "header"}


def df_wrap(fn):
    """adapter: a DF_LIB transfer function as a rule-supplied intrinsic (keeps the declared keyword set)"""
    def w(ev, a, k):
        return fn(ev, a, k, None, None)
    w.kw = getattr(fn, "kw", None)
    return w


def nearest_int_form(step):
    """x if `step` is one of the spellings of 'the integer nearest to x' (round(x), int(round(x)), int(x + 1/2),
    floor(x + 1/2), rint), else None.  int()/floor of the bare quotient is NOT one of them."""
    step = sp.sympify(step)
    if isinstance(step, sp.Max) and len(step.args) == 2 and sp.Integer(1) in step.args:        # max(round(x), 1)
        step = [a for a in step.args if a != 1][0]
    if getattr(step.func, "__name__", "") in ("ROUND", "RINT") and len(step.args) == 1:
        return step.args[0]
    if isinstance(step, sp.floor) or getattr(step.func, "__name__", "") in ("INT", "FLOOR"):
        inner = step.args[0]
        if getattr(inner.func, "__name__", "") in ("ROUND", "RINT"):
            return inner.args[0]
        rest = inner - sp.Rational(1, 2)
        if not rest.has(sp.Rational(1, 2)) and sp.simplify(inner - rest - sp.Rational(1, 2)) == 0 and not isinstance(rest, sp.Add):
            return rest
    return None
