"""Transfer functions for the small constant-matrix linear algebra of shear.py: exact symmetric
eigen-decomposition (sympy), diag/diagonal, isclose/logical_not/argwhere on constant arrays, the
einsum diagonal view."""
from __future__ import annotations

import itertools

import sympy as sp

from .report import AnalysisError
from .sym import ArrV, Tup, RaisedV, as_sym, is_sym, _const_int, SliceV


def const_matrix(m: ArrV):
    if not (isinstance(m, ArrV) and m.batch == 0 and len(m.shape) == 2):
        raise AnalysisError("expected a constant 2-D matrix")
    M = sp.Matrix(m.shape[0], m.shape[1], lambda i, j: m.get((i, j)))
    if M.free_symbols:
        raise AnalysisError("matrix to be diagonalised is not constant")
    return M


_EIGH = {}


def eigh(ev, a, k):
    M = const_matrix(a[0])
    key = tuple(M)
    if key in _EIGH:
        w0, V0 = _EIGH[key]
        return Tup([ArrV(0, w0.shape, cells=w0.cells), ArrV(0, V0.shape, cells=V0.cells)])
    r = _eigh(M)
    _EIGH[key] = tuple(r.items)
    return r


def _eigh(M):
    if M != M.T:
        raise AnalysisError("eigh of a matrix that is not symmetric")
    vecs = []
    for val, mult, basis in M.eigenvects():
        ortho = sp.GramSchmidt([sp.Matrix(b) for b in basis], True)
        for b in ortho:
            vecs.append((sp.nsimplify(val), b.applyfunc(sp.nsimplify)))
    vecs.sort(key=lambda t: float(t[0]))
    n = M.rows
    w = ArrV(0, (n,))
    V = ArrV(0, (n, n))
    for c, (val, vec) in enumerate(vecs):
        w.cells[(c,)] = sp.simplify(val)
        for r in range(n):
            V.cells[(r, c)] = sp.simplify(vec[r])
    return Tup([w, V])


def eigvalsh(ev, a, k):
    return eigh(ev, a, k).items[0]


def diag(ev, a, k):
    m = a[0]
    if isinstance(m, ArrV) and len(m.shape) == 1:
        out = ArrV(m.batch, (m.shape[0], m.shape[0]))
        for i in range(m.shape[0]):
            out.cells[(i, i)] = m.get((i,))
        return out
    if isinstance(m, ArrV) and len(m.shape) == 2:
        out = ArrV(m.batch, (min(m.shape),))
        for i in range(min(m.shape)):
            out.cells[(i,)] = m.get((i, i))
        return out
    raise AnalysisError("numpy.diag of an unsupported value")


def diagonal(ev, a, k):
    m = a[0]
    ax1 = _const_int(k.get("axis1", a[2] if len(a) > 2 else sp.Integer(0)))
    ax2 = _const_int(k.get("axis2", a[3] if len(a) > 3 else sp.Integer(1)))
    nd = m.batch + len(m.shape)
    ax1, ax2 = ax1 % nd, ax2 % nd
    if {ax1, ax2} != {nd - 2, nd - 1} or len(m.shape) != 2:
        raise AnalysisError("numpy.diagonal over axes other than the last two")
    return diag(ev, [m], {})


def isclose(ev, a, k):
    m, ref = a[0], as_sym(a[1])
    if not isinstance(m, ArrV):
        from .sym import TolCond, is_sym
        if is_sym(m) and is_sym(a[1]):
            d = sp.simplify(m - ref)
            if not d.free_symbols:
                return bool(abs(complex(d)) < 1e-8)
            return TolCond(f"isclose({m}, {ref})", (m, ref))
        raise AnalysisError("numpy.isclose of a non-array")
    out = ArrV(m.batch, m.shape, fill=False)
    for key in itertools.product(*[range(d) for d in m.shape]):
        d = sp.simplify(m.get(key) - ref)
        if d.free_symbols:
            e_ = AnalysisError(f"numpy.isclose on a non-constant entry [{m.get(key)} vs {ref}]")
            e_.tolerance_test_on = sorted(str(s_) for s_ in d.free_symbols)
            raise e_
        out.cells[key] = bool(abs(complex(d)) < 1e-8)
    return out


def logical_not(ev, a, k):
    m = a[0]
    out = ArrV(m.batch, m.shape, fill=True)
    for key in itertools.product(*[range(d) for d in m.shape]):
        out.cells[key] = not (m.get(key) is True or m.get(key) is sp.true)
    return out


def argwhere(ev, a, k):
    m = a[0]
    return Tup([Tup([sp.Integer(i) for i in key]) for key in itertools.product(*[range(d) for d in m.shape]) if m.get(key) is True or m.get(key) is sp.true], "list")


class DiagView:
    def __init__(self, arr):
        self.arr = arr

    def sym_store(self, ev, idx, v, t, mod):
        if idx is not Ellipsis and not (isinstance(idx, SliceV) and idx.lo is None and idx.hi is None):
            raise ev.err("store into the diagonal view with a partial index", t, mod)
        n = self.arr.shape[0]
        for i in range(n):
            self.arr.cells[(i, i)] = v.get((i,)) if isinstance(v, ArrV) else as_sym(v)


def einsum(ev, a, k):
    spec = a[0]
    if not isinstance(spec, str):
        raise AnalysisError("numpy.einsum with a non-constant subscript string")
    if spec.replace(" ", "") == "...ii->...i" and len(a) == 2 and isinstance(a[1], ArrV) and len(a[1].shape) == 2:
        return DiagView(a[1])       # the writable-diagonal idiom
    if set(k) - {"dtype", "optimize", "casting", "order"}:
        raise AnalysisError(f"numpy.einsum keyword(s) {sorted(k)} not modelled")
    return general_einsum(spec.replace(" ", ""), list(a[1:]))


def general_einsum(spec, ops):
    """explicit-output einsum over the constant trailing axes of ArrV operands; '...' stands for the symbolic grid axes"""
    if "->" not in spec:
        raise AnalysisError(f"numpy.einsum({spec!r}): implicit output not modelled")
    ins, out = spec.split("->")
    ins = ins.split(",")
    if len(ins) != len(ops):
        raise AnalysisError(f"numpy.einsum({spec!r}): {len(ops)} operands")
    sizes, parsed, batch = {}, [], 0
    for s, o in zip(ins, ops):
        if not isinstance(o, ArrV):
            raise AnalysisError(f"numpy.einsum({spec!r}): operand is not a small array")
        ell = s.startswith("...")
        letters = s[3:] if ell else s
        if "." in letters or len(letters) != len(o.shape) or (o.batch and not ell):
            raise AnalysisError(f"numpy.einsum({spec!r}): operand subscripts do not match its axes")
        batch = max(batch, o.batch)
        for l, d in zip(letters, o.shape):
            if sizes.setdefault(l, d) != d:
                raise AnalysisError(f"numpy.einsum({spec!r}): inconsistent size for {l}")
        parsed.append((letters, o))
    oell = out.startswith("...")
    ol = out[3:] if oell else out
    if "." in ol or (batch and not oell) or len(set(ol)) != len(ol) or any(l not in sizes for l in ol):
        raise AnalysisError(f"numpy.einsum({spec!r}): output subscripts not modelled")
    summed = [l for l in sizes if l not in ol]
    res = ArrV(batch, [sizes[l] for l in ol])
    for okey in itertools.product(*[range(sizes[l]) for l in ol]):
        asg = dict(zip(ol, okey))
        tot = sp.Integer(0)
        for skey in itertools.product(*[range(sizes[l]) for l in summed]):
            asg.update(zip(summed, skey))
            term = sp.Integer(1)
            for letters, o in parsed:
                term *= as_sym(o.get(tuple(asg[l] for l in letters)))
                if term == 0:
                    break
            tot += term
        res.cells[tuple(okey)] = tot
    return res if ol or batch else res.get(())


LINALG = {"numpy.linalg.eigh": eigh, "numpy.linalg.eigvalsh": eigvalsh, "numpy.diag": diag, "numpy.diagonal": diagonal,
          "numpy.isclose": isclose, "numpy.logical_not": logical_not, "numpy.argwhere": argwhere, "numpy.einsum": einsum}
