"""./check <property> [--tier quick|thorough] | ./check --replay <file> | ./check all"""
from __future__ import annotations

import argparse
import importlib
import json
import os
import sys
import traceback

from .report import AnalysisError, Ctx, Where


# exceptions whose occurrence on a folded path does not depend on how complete a rule's scenario is (unlike KeyError /
# AttributeError / ValueError, which a scenario that lacks an entry could cause): reported as violations, not analysis errors
CERTAIN_RAISES = {"IndexError", "UnboundLocalError", "NameError", "ZeroDivisionError", "StopIteration", "RecursionError", "TypeError"}


def function_at(model, file, line):
    for mod in model.mods.values():
        if mod.rel == file:
            best = ""
            for q, f in mod.funcs.items():
                if f.lineno <= line <= getattr(f, "end_lineno", f.lineno) and len(q) >= len(best):
                    best = q
            return best
    return ""


def run_property(prop: str, tier: str, seed: int, only_rule: str | None = None) -> int:
    ctx = Ctx(prop, tier, seed)
    try:
        mod = importlib.import_module(f"cijsa.rules.{prop}")
    except ModuleNotFoundError:
        print(f"ANALYSIS-ERROR property={prop} rule=- reason=no rules module for {prop}")
        return 2
    try:
        from .model import Model
        model = Model()
    except AnalysisError as e:
        print(f"ANALYSIS-ERROR property={prop} rule=model reason={e.reason}")
        ctx.begin_rule("model", "program model")
        ctx.error(e.reason)
        return ctx.finish("other", "model could not be built")
    for rid, text, fn in mod.RULES:
        if only_rule and rid != only_rule:
            continue
        tiers = getattr(fn, "tiers", ("quick", "thorough"))
        if tier not in tiers:
            continue
        ctx.begin_rule(rid, text)
        try:
            fn(ctx, model)
        except AnalysisError as e:
            exc = getattr(e, "exc_name", None)
            if exc in CERTAIN_RAISES:
                # the code path this rule folds raises, under Python's own semantics and whatever the input values are
                file, _, line = (e.where or "").partition(":")
                line = int(line) if line.isdigit() else 0
                qual = function_at(model, file, line)
                ctx.violation(f"raises.{exc}", Where(file or "cij", qual, line), expected="the analysed path completes (or refuses with its documented error)",
                              found=f"{exc} at {e.where}", explanation=f"{qual or file}: the path analysed by this rule raises {exc} for every input "
                              f"(an index beyond the end of a sequence the code builds, a name or local that is never bound, a division by a constant zero, an "
                              f"exhausted look-up): the calculation cannot complete", instance=f"{qual or file}: raises {exc}")
            elif exc == "EmptySelection":
                # raises for part of the valid input domain (named in the reason): the selection by a data condition need not have exactly one element
                file, _, line = (e.where or "").partition(":")
                line = int(line) if line.isdigit() else 0
                qual = function_at(model, file, line)
                ctx.violation("raises.EmptySelection", Where(file or "cij", qual, line), expected="the analysed path completes for every valid input",
                              found=f"ValueError at {e.where} whenever the selection is empty", explanation=f"{qual or file}: one element is taken (.item(), [0], an unpacking) from a result that is empty for part of the valid "
                              f"inputs - the positions where the temperature grid is zero (none when T_MIN > 0), the residuals of a least-squares system that is not over-determined - "
                              f"and the call raises there: the calculation cannot complete", instance=f"{qual or file}: raises on an empty selection")
            elif exc == "InputAssumption":
                # wrong for part of the valid input domain: the code relies on something about its input that the input need not satisfy
                file, _, line = (e.where or "").partition(":")
                line = int(line) if line.isdigit() else 0
                qual = function_at(model, file, line)
                ctx.violation("input-assumption", Where(file or "cij", qual, line), expected=getattr(e, "expected", "no assumption about the input beyond its documented form"),
                              found=f"assumption at {e.where}", explanation=f"{qual or file}: {getattr(e, 'detail', 'an assumption about the input that valid inputs need not satisfy')}",
                              instance=f"{qual or file}: input assumption")
            elif exc == "IntegerDtype":
                # wrong (not: raising) for part of the valid input domain: an operation that keeps an integer element type is applied to a grid that is integer-typed for whole-number settings
                file, _, line = (e.where or "").partition(":")
                line = int(line) if line.isdigit() else 0
                qual = function_at(model, file, line)
                ctx.violation("integer-typed-input", Where(file or "cij", qual, line), expected="floating-point arithmetic whatever the element type the input happens to have (whole numbers are read as integers)",
                              found=f"integer arithmetic / truncation at {e.where} for integer-typed input", explanation=f"{qual or file}: {getattr(e, 'detail', 'an integer-preserving operation on a grid that can be integer-typed')}",
                              instance=f"{qual or file}: integer-typed input")
            else:
                ctx.error(e.reason, e.where)
        except RecursionError:
            ctx.error("recursion limit in analysis")
        except Exception as e:  # internal error is an analysis error, never a violation
            tb = traceback.extract_tb(e.__traceback__)[-1]
            ctx.error(f"internal {type(e).__name__}: {e} ({tb.filename.split('/')[-1]}:{tb.lineno})")
            if os.environ.get("CIJSA_DEBUG"):
                traceback.print_exc()
    for a in getattr(mod, "ASSUMPTIONS", []):
        ctx.assume(a)
    if only_rule:
        ctx.partial = True      # a single-rule run (replay / --rule) never overwrites the property's evidence file
    if tier == "thorough" and not only_rule and not os.environ.get("CIJSA_NO_SELFTEST"):
        # self-validation of the checker: every registered mutant of the current tree must be reported,
        # every registered behaviour-preserving rewrite must stay silent (scratch copies, removed at once)
        if ctx.split_known()[0] or ctx.errors:
            ctx.extra["self_validation"] = "skipped: the base tree already violates or could not be analysed"
        else:
            from . import selftest
            import signal as _signal
            _signal.alarm(0)        # the time budget bounds the analysis of /repo; every variant below runs in its own process with its own budget
            os.environ["CIJSA_NO_SELFTEST"] = "1"
            n, bad, details = selftest.run(prop, verbose=False, collect=True)
            ctx.extra["self_validation"] = {"variants": n, "wrong": bad, "mutants": sum(1 for d in details if d[1] == "violation"),
                                            "equivalents": sum(1 for d in details if d[1] == "silent"),
                                            "wrong_variants": [d[0] for d in details if d[2] != "ok"]}
            print(f"   self-validation: {n} variants ({ctx.extra['self_validation']['mutants']} mutants, "
                  f"{ctx.extra['self_validation']['equivalents']} equivalents), {bad} judged wrongly")
            if bad:
                ctx.begin_rule("self-validation", "registered mutants are reported and registered equivalents stay silent")
                ctx.error(f"self-validation failed for variants {ctx.extra['self_validation']['wrong_variants']}")
    kw = {}
    if getattr(mod, "LEVEL", "other") == "proof":
        kw = dict(trusted_base=getattr(mod, "TRUSTED_BASE", []), checker_cmd=f"./check {prop} --tier {tier}")
    return ctx.finish(getattr(mod, "LEVEL", "other"), mod.EXPLANATION, not_decided=getattr(mod, "NOT_DECIDED", ""), **kw)


def main(argv=None) -> int:
    ap = argparse.ArgumentParser(prog="check")
    ap.add_argument("prop", nargs="?")
    ap.add_argument("--tier", default=os.environ.get("VERIF_TIER", "quick"), choices=["quick", "thorough"])
    ap.add_argument("--replay")
    ap.add_argument("--rule")
    a = ap.parse_args(argv)
    seed = int(os.environ.get("VERIF_SEED", "0") or 0)
    sys.setrecursionlimit(10000)
    import signal

    def _timeout(signum, frame):
        print(f"ANALYSIS-ERROR property={a.prop} rule=- reason=analysis exceeded its time budget")
        sys.stdout.flush()
        os._exit(2)

    signal.signal(signal.SIGALRM, _timeout)
    signal.alarm(int(os.environ.get("CIJSA_TIMEOUT", "900")))
    if a.replay:
        rp = json.loads(open(a.replay).read())
        print(f"replaying {rp['property']} {rp['rule']} [{rp['key']}] recorded at {rp['file']}:{rp['line']}")
        print(f"   recorded expected: {rp['expected']}\n   recorded found:    {rp['found']}")
        return run_property(rp["property"], "quick", seed, only_rule=rp["rule"])
    if not a.prop:
        ap.error("property id required")
    if a.prop == "all":
        rc = 0
        for i in range(1, 21):
            rc = max(rc, run_property(f"C{i:02d}", a.tier, seed))
        return rc
    return run_property(a.prop, a.tier, seed, a.rule)


if __name__ == "__main__":
    try:
        rc = main()
    except SystemExit:
        raise
    except BaseException as e:  # never let a traceback look like a violation
        print(f"ANALYSIS-ERROR property=? rule=- reason=internal {type(e).__name__}: {e}")
        rc = 2
    sys.stdout.flush()
    os._exit(rc)
