"""Partial evaluation of cij.util.fill.fill_cij under enumerated scenarios.

A scenario fixes: the crystal-system argument, what the file system says about it, the column
names of the table, the outcome (rank, residual) of numpy.linalg.lstsq, the flags, and which
columns numpy.allclose(col, 0) judges vanishing.  The evaluator folds the function on these
constants; the relation file is the *packaged data file* (constant data) or scenario text.
Captured: the matrix handed to lstsq, the symbol orders of the three uses, the final table or
the refusal."""
from __future__ import annotations

import ast
import re

import sympy as sp

from .dfmodel import DFV, DF_LIB
from .report import AnalysisError, REPO
from .sym import (Ev, Tup, DictV, ArrV, LibV, BoundLib, Obj, RaisedV, as_sym, is_sym, hkey, _const_int, SliceV)

DROP_ATOL = sp.Symbol("DROP_ATOL", positive=True)
FILL = "cij.util.fill:fill_cij"
SYMS21 = [f"c{i}{j}" for i in range(1, 7) for j in range(i, 7)]


# ------------------------------------------------------------------ reference parser of relation files
def parse_affine(text: str):
    """own recursive-descent parser (nothing is eval'ed): affine expression over c11..c66
    expr := term (('+'|'-') term)* ; term := factor (('*'|'/') factor)* ; factor := number | cIJ | '-' factor | '(' expr ')'"""
    toks = re.findall(r"\s*(c[1-6][1-6]|\d+\.\d*|\d+|[-+*/()])", text)
    if "".join(toks) != re.sub(r"\s+", "", text):
        raise AnalysisError(f"relation text has tokens outside the grammar: {text!r}")
    pos = [0]

    def peek():
        return toks[pos[0]] if pos[0] < len(toks) else None

    def eat():
        pos[0] += 1
        return toks[pos[0] - 1]

    def factor():
        t = peek()
        if t is None:
            raise AnalysisError(f"unexpected end in {text!r}")
        if t == "-":
            eat()
            return -factor()
        if t == "+":
            eat()
            return factor()
        if t == "(":
            eat()
            v = expr()
            if eat() != ")":
                raise AnalysisError(f"missing ')' in {text!r}")
            return v
        eat()
        if t.startswith("c"):
            return sp.Symbol(t)
        return sp.Rational(t)

    def term():
        v = factor()
        while peek() in ("*", "/"):
            op = eat()
            r = factor()
            v = v * r if op == "*" else v / r
        return v

    def expr():
        v = term()
        while peek() in ("+", "-"):
            op = eat()
            r = term()
            v = v + r if op == "+" else v - r
        return v

    v = expr()
    if pos[0] != len(toks):
        raise AnalysisError(f"trailing tokens in {text!r}")
    return sp.expand(v)


def parse_relations(text: str):
    """chained equalities: every later part of a line equals the first part"""
    eqs = []
    for line in text.splitlines():
        if not line.strip():
            continue
        parts = [parse_affine(p) for p in line.split("=")]
        for p in parts[1:]:
            eqs.append(sp.expand(parts[0] - p))
    return eqs


def relation_matrix(eqs):
    syms = [sp.Symbol(s) for s in SYMS21]
    rows = []
    for e in eqs:
        p = sp.Poly(e, *syms)
        if p.total_degree() > 1:
            raise AnalysisError(f"relation is not linear: {e}")
        row = [p.coeff_monomial(s) for s in syms]
        if p.coeff_monomial(1) != 0:
            raise AnalysisError(f"relation has a constant term: {e}")
        rows.append(row)
    return sp.Matrix(rows) if rows else sp.zeros(0, 21)


# ------------------------------------------------------------------ scenario evaluation
class PathV:
    def __init__(self, text, packaged=False):
        self.text, self.packaged = text, packaged
        self.const_key = ("path", text, packaged)

    def sym_getattr(self, ev, name, node, mod):
        if name in ("exists", "is_file", "is_dir"):
            return BoundLib(f"path.{name}", self)
        if name == "name":
            return self.text.split("/")[-1]
        raise ev.err(f"Path attribute {name}", node, mod)

    def __repr__(self):
        return f"Path({self.text!r}{', packaged' if self.packaged else ''})"


class FileV:
    def __init__(self, lines, path):
        self.lines, self.path = lines, path

    def sym_iter(self, ev, n, mod):
        return list(self.lines)

    def sym_getattr(self, ev, name, node, mod):
        if name in ("read", "readlines", "close"):
            return BoundLib(f"file.{name}", self)
        raise ev.err(f"file attribute {name}", node, mod)


class ColV:
    """a table column inside `for name, col in elast.items()`"""

    def __init__(self, name, val):
        self.name, self.val = name, val

    def sym_getattr(self, ev, name, node, mod):
        if name == "to_numpy":
            return BoundLib("identity", self.val)
        raise ev.err(f"column attribute {name}", node, mod)


class DataMat:
    """(k x n_volumes) data block: one symbolic row per entry"""

    def __init__(self, rows):
        self.rows = list(rows)

    def sym_subscript(self, ev, idx, n, mod):
        if isinstance(idx, SliceV) and idx.step is None and all(x is None or (is_sym(x) and x.is_Integer) for x in (idx.lo, idx.hi)):
            return DataMat(self.rows[slice(*(int(x) if x is not None else None for x in (idx.lo, idx.hi)))])       # some of the rows, each still over every volume
        if is_sym(idx) and idx.is_Integer:
            return self.rows[int(idx)]
        raise ev.err("subscript of the data block other than a range of rows", n, mod)

    def sym_getattr(self, ev, name, node, mod):
        if name == "shape":
            return Tup([sp.Integer(len(self.rows)), sp.Symbol("NVOL", positive=True, integer=True)])
        if name == "astype":
            return BoundLib("identity_method", self)
        if name == "dtype":
            # the element type of the supplied columns: what is done with it is judged by R09.5b (dtype provenance), the fold
            # itself works on exact values
            return LibV("dtype.of.supplied.columns")
        raise ev.err(f"data block attribute {name}", node, mod)


class Scenario:
    def __init__(self, system="cubic", columns=None, fs=None, user_files=None, rank=21, resid=0, zero=(), kwargs=None,
                 dtypes=None):
        self.system = system
        self.columns = columns if columns is not None else ["V"] + SYMS21
        self.fs = fs or {}                 # name -> 'file' | 'dir'
        self.user_files = user_files or {}  # name -> text
        self.rank, self.resid = rank, resid
        self.zero = set(zero)              # column names / solution symbols judged vanishing at every volume
        self.zero_some = set()             # ... vanishing at some volumes only (must be kept)
        self.kwargs = kwargs or {}
        self.opened = []
        self.open_attempts = []            # open() calls that raised (missing file, directory)
        self.lstsq = None
        self.rcond = None
        self.drop_tests = []
        self.bad_vanish_tests = []         # vanishing predicates that are not "|x| <= atol at every volume"
        self.lineq_syms = None
        self.probes = []
        self.misfit_axis = None            # set when a hand-computed misfit is summed along the wrong axis


def run_fill(model, sc: Scenario, ctx=None):
    """returns ('raise', exc name, table at that moment) or ('ok', DFV)"""
    table = DFV(sp.Symbol("NVOL", positive=True, integer=True),
                {c: sp.Symbol(f"COL_{c}", real=True) for c in sc.columns})
    original = dict(table.cols)

    def path_ctor(ev, a, k):
        v = a[0]
        if isinstance(v, PathV):
            return v
        if not isinstance(v, str):
            raise AnalysisError("Path() of a non-constant")
        return PathV(v)

    def path_probe(kind):
        def f(ev, a, k):
            p = a[0]
            sc.probes.append((kind, p.text))
            what = sc.fs.get(p.text)
            if kind == "exists":
                return what is not None
            return what == ("file" if kind == "is_file" else "dir")
        return f

    def get_data_fname(ev, a, k):
        name = a[0]
        if isinstance(name, PathV):
            name = name.text
        if not isinstance(name, str):
            raise AnalysisError("get_data_fname of a non-constant")
        return PathV(name, packaged=True)

    def open_(ev, a, k):
        p = a[0]
        mode = a[1] if len(a) > 1 else k.get("mode", "r")
        if mode not in ("r", "rt"):
            raise AnalysisError(f"fill_cij opens a file with mode {mode!r}")
        if isinstance(p, PathV) and p.packaged:
            f = REPO / "cij" / "data" / p.text
            if not f.is_file():
                sc.open_attempts.append(("packaged", p.text))
                raise RaisedV("FileNotFoundError")
            sc.opened.append(("packaged", p.text))          # files that were actually opened (a failed attempt reads nothing)
            return FileV([l for l in f.read_text().splitlines(keepends=True)], p)
        text = p.text if isinstance(p, PathV) else p
        if not isinstance(text, str):
            raise AnalysisError("open() of a non-constant")
        if sc.fs.get(text) == "dir":
            sc.open_attempts.append(("user", text))
            raise RaisedV("IsADirectoryError")
        if text not in sc.user_files:
            sc.open_attempts.append(("user", text))
            raise RaisedV("FileNotFoundError")
        sc.opened.append(("user", text))
        return FileV(sc.user_files[text].splitlines(keepends=True), p)

    def parse_expr(ev, a, k):
        if not isinstance(a[0], str):
            raise AnalysisError("parse_expr of a non-constant")
        return parse_affine(a[0])

    def symbols(ev, a, k):
        k.all()
        names = a[0]
        if isinstance(names, Tup):
            return Tup([sp.Symbol(x) for x in names.items], "tuple")
        if isinstance(names, str) and ("," in names or " " in names.strip()):
            return Tup([sp.Symbol(x) for x in names.replace(",", " ").split()], "tuple")
        return sp.Symbol(names)

    def lineq(ev, a, k):
        eqs = ev.iterate(a[0], None, None)
        syms = list(a[1:])
        if len(syms) == 1 and isinstance(syms[0], Tup):        # linear_eq_to_matrix(eqs, [s1, s2, ...]): one iterable of symbols
            syms = list(syms[0].items)
        if not all(is_sym(s_) for s_ in syms):
            raise AnalysisError("linear_eq_to_matrix: the unknowns are not symbols")
        sc.lineq_syms = [str(s) for s in syms]
        A, b = sp.linear_eq_to_matrix([as_sym(e) for e in eqs], *syms)
        m = ArrV(0, (A.shape[0], A.shape[1]))
        for i in range(A.shape[0]):
            for j in range(A.shape[1]):
                m.cells[(i, j)] = A[i, j]
        rhs = ArrV(0, (b.shape[0], 1))
        for i in range(b.shape[0]):
            rhs.cells[(i, 0)] = b[i, 0]
        return Tup([m, rhs])

    def np_array(ev, a, k):
        v = a[0]
        dt = k.get("dtype")
        if dt is not None and not any(t in repr(dt).lower() for t in ("int", "float", "double")):
            raise AnalysisError("numpy.array with this dtype is not modelled in fill_cij")
        if dt is not None and "int" in repr(dt).lower() and isinstance(v, Tup) and all(is_sym(i) and as_sym(i).is_Integer for i in v.items):
            return ArrV(0, (len(v.items),), cells={(i,): as_sym(x) for i, x in enumerate(v.items)})      # an index vector
        if isinstance(v, ArrV):
            return v
        if isinstance(v, Tup) and v.items and all(isinstance(i, ArrV) and len(i.shape) == 1 for i in v.items):
            m = ArrV(0, (len(v.items), v.items[0].shape[0]))
            for r, row in enumerate(v.items):
                for c in range(row.shape[0]):
                    m.cells[(r, c)] = row.get((c,))
            return m
        if isinstance(v, Tup) and all(is_sym(i) for i in v.items):
            return DataMat(v.items)
        if isinstance(v, Tup) and not v.items:
            return DataMat([])
        raise AnalysisError("numpy.array of an unsupported value in fill_cij")

    def broadcast_to(ev, a, k):
        v, shape = a[0], a[1]
        if isinstance(v, ArrV) and len(v.shape) == 2 and v.shape[1] == 1:
            return DataMat([v.get((i, 0)) for i in range(v.shape[0])])
        raise AnalysisError("numpy.broadcast_to of an unsupported value")

    def repeat(ev, a, k):
        # numpy.repeat(column, nvol, axis=1) / numpy.tile(column, (1, nvol)): the constant column broadcast over the volumes
        v = a[0]
        axis = k.get("axis", a[2] if len(a) > 2 else None)
        if isinstance(v, ArrV) and len(v.shape) == 2 and v.shape[1] == 1 and axis is not None and _const_int(axis) == 1:
            return DataMat([v.get((i, 0)) for i in range(v.shape[0])])
        raise AnalysisError("numpy.repeat of an unsupported value / axis in fill_cij")

    def tile(ev, a, k):
        # numpy.tile(column, (1, nvol)): the constant column repeated over the volumes (reps (1, n) only)
        v, reps = a[0], a[1] if len(a) > 1 else k.get("reps")
        if isinstance(v, ArrV) and len(v.shape) == 2 and v.shape[1] == 1 and isinstance(reps, Tup) and len(reps.items) == 2 \
                and is_sym(reps.items[0]) and reps.items[0] == 1:
            return DataMat([v.get((i, 0)) for i in range(v.shape[0])])
        raise AnalysisError("numpy.tile of an unsupported value / repetition in fill_cij")

    def matrix2numpy(ev, a, k):
        k.all()
        if isinstance(a[0], ArrV):
            return a[0]
        raise AnalysisError("sympy.matrix2numpy of something that is not the relation matrix")

    def concatenate(ev, a, k):
        parts = ev.iterate(a[0], None, None)
        axis = k.get("axis", a[1] if len(a) > 1 else sp.Integer(0))
        if _const_int(axis) != 0:
            raise AnalysisError("concatenate along an axis other than 0")
        if all(isinstance(p, ArrV) for p in parts):
            ncol = {p.shape[1] for p in parts if p.shape[0]}
            if len(ncol) > 1:
                raise RaisedV("ValueError")
            out = ArrV(0, (sum(p.shape[0] for p in parts), parts[0].shape[1]))
            r = 0
            for p in parts:
                for i in range(p.shape[0]):
                    for j in range(p.shape[1]):
                        out.cells[(r, j)] = p.get((i, j))
                    r += 1
            return out
        if all(isinstance(p, DataMat) for p in parts):
            return DataMat([x for p in parts for x in p.rows])
        raise AnalysisError("concatenate of mixed values")

    def lstsq(ev, a, k):
        A, B = a[0], a[1]
        if not isinstance(A, ArrV) or not isinstance(B, DataMat):
            raise AnalysisError("lstsq called with unexpected operands")
        sc.lstsq = (A, B)
        sc.rcond = k.get("rcond")
        x = SolMat([sp.Symbol(f"X{i}", real=True) for i in range(A.shape[1])])
        resid = sc.resid
        if resid == "atol":
            resid = ev_ref["atol"]
        # numpy.linalg.lstsq: "residuals ... if the rank of a is < N or M <= N, this is an empty array" (installed docstring)
        r_ = EmptyResid() if sc.rank < A.shape[1] else num_const(resid)
        return Tup([x, r_, sp.Integer(sc.rank), sp.Symbol("SV")])

    MAXV, MINV, ABSV = sp.Function("MAXV"), sp.Function("MINV"), sp.Function("ABSVOL")

    class SolMat:
        """the least-squares solution: one row (a vector over the volumes) per component; rows are the atoms X0..X20.
        Row-wise expressions over the volume axis are kept as MAXV / MINV / ABSVOL forms so that a 'vanishes at every volume'
        test can be recognised whatever its spelling"""

        def __init__(self, rows):
            self.rows = list(rows)

        def sym_iter(self, ev, n, mod):
            return list(self.rows)

        def sym_len(self):
            return sp.Integer(len(self.rows))

        def sym_subscript(self, ev, idx, n, mod):
            if is_sym(idx) and idx.is_Integer:
                return self.rows[int(idx)]
            raise ev.err("index into the solution matrix", n, mod)

        def sym_getattr(self, ev, name, node, mod):
            if name in ("max", "min"):
                return BoundLib(f"solmat.{name}", self)
            if name == "shape":
                return Tup([sp.Integer(len(self.rows)), sp.Symbol("NVOL", positive=True, integer=True)])
            if name in ("copy", "astype"):
                # values are exact in the model; a cast to a type taken from the supplied columns is judged by R09.5b
                return BoundLib("identity_method", self)
            if name == "T":
                return SolMatT(self.rows)
            if name == "transpose":
                return BoundLib("solmat.transpose", self)
            raise ev.err(f"solution matrix attribute {name}", node, mod)

        def sym_binop(self, ev, op, other, reflected, n, mod):
            if isinstance(op, ast.MatMult) and reflected and isinstance(other, ArrV) and len(other.shape) == 2 and other.shape[1] == len(self.rows) \
                    and sc.lstsq is not None and other is sc.lstsq[0]:
                return MisfitRows("ax")             # the system matrix applied to the solution: one row per equation
            raise ev.err("arithmetic on the solution matrix", n, mod)

        def sym_compare(self, ev, op, other, reflected, n, mod):
            import ast as _ast
            opn = {_ast.LtE: "<=", _ast.Lt: "<", _ast.GtE: ">=", _ast.Gt: ">"}.get(type(op))
            if opn is None or reflected:
                raise ev.err("comparison of the solution matrix", n, mod)
            return PredList([(r, opn, other) for r in self.rows], per_volume=any(not _reduced(r) for r in self.rows))

        def sym_store(self, ev, idx, v, t, mod):
            """x[<mask>] = 0 on the solution: with one truth value per (component, volume) single entries are overwritten - a component that is small at SOME
            volumes is altered there; with one truth value per component (a reduction over the volumes) whole rows are overwritten"""
            if isinstance(idx, ArrV) and not idx.batch and len(idx.shape) == 1 and isinstance(v, DataMat):
                # x[<positions>] = <rows of supplied data>: an index vector names the rows; a boolean mask takes the rows where it is true, in ascending position
                cells = [idx.get((i_,)) for i_ in range(idx.shape[0])]
                if all(c in (sp.true, sp.false) or isinstance(c, bool) for c in cells):
                    if len(cells) != len(self.rows):
                        raise RaisedV("IndexError")
                    pos = [i_ for i_, c in enumerate(cells) if c is True or c == sp.true]
                elif all(is_sym(c) and c.is_Integer for c in cells):
                    pos = [int(c) for c in cells]
                else:
                    raise ev.err("store into the solution matrix at positions that are not constants", t, mod)
                if len(pos) != len(v.rows):
                    raise RaisedV("ValueError")
                for p_, r_ in zip(pos, v.rows):
                    self.rows[p_] = as_sym(r_)
                return
            if not (isinstance(idx, PredList) and is_sym(v) and v == 0):
                raise ev.err("store into the solution matrix other than a masked reset to zero", t, mod)
            if idx.per_volume:
                SNAP = sp.Function("ZEROED_WHERE_SMALL")
                self.rows = [SNAP(as_sym(r), sp.sympify(b_)) for r, (e_, o_, b_) in zip(self.rows, idx.preds)]
                return
            new = []
            for r, p_ in zip(self.rows, idx.preds):
                new.append(sp.Integer(0) if PredV(*p_).sym_truth(ev, t, mod) else r)
            self.rows = new

    class SolMatT:
        """the transposed solution: one row per volume, one column per component"""

        def __init__(self, rows):
            self.rows = list(rows)

        def sym_getattr(self, ev, name, node, mod):
            if name == "T":
                return SolMat(self.rows)
            if name == "shape":
                return Tup([sp.Symbol("NVOL", positive=True, integer=True), sp.Integer(len(self.rows))])
            raise ev.err(f"transposed solution matrix attribute {name}", node, mod)

    class LabelledCol:
        """a column of a frame: values plus the row labels they are aligned on when stored into another frame.
        index: 'fresh' = 0..n-1 made up by the constructor, 'table' = the row labels of the caller's table"""

        def __init__(self, value, index):
            self.value, self.index_kind = value, index

        def sym_getattr(self, ev, name, node, mod):
            if name in ("values", "array"):
                return self.value              # the bare values: stored by position
            if name in ("to_numpy", "to_list", "tolist"):
                return BoundLib("labelledcol.bare", self)
            if name in ("copy", "astype"):
                return BoundLib("identity_method", self)
            raise ev.err(f"attribute {name} of a column of the solution frame", node, mod)

    class SolFrame:
        """pandas.DataFrame built from the (transposed) solution"""

        def __init__(self, cols, index):
            self.cols, self.index_kind = cols, index

        def sym_subscript(self, ev, idx, n, mod):
            key = str(idx) if is_sym(idx) and idx.is_Symbol else idx
            if isinstance(key, str) and key in self.cols:
                return LabelledCol(self.cols[key], self.index_kind)
            raise RaisedV("KeyError", f"{mod.rel}:{getattr(n, 'lineno', 0)}" if mod else "")

        def sym_getattr(self, ev, name, node, mod):
            if name == "columns":
                return Tup(list(self.cols), "list")
            raise ev.err(f"attribute {name} of the solution frame", node, mod)

    class TableIndex:
        """the row labels of the caller's table (whatever they are)"""

    def dataframe(ev, a, k):
        data = a[0] if a else k.get("data")
        cols = k.get("columns", a[2] if len(a) > 2 else None)
        index = k.get("index", a[1] if len(a) > 1 else None)
        if not isinstance(data, SolMatT) or cols is None:
            raise AnalysisError("pandas.DataFrame built from something other than the transposed solution with column names")
        names = [str(c) for c in ev.iterate(cols)]
        if len(names) != len(data.rows):
            raise RaisedV("ValueError")
        if index is not None and not isinstance(index, TableIndex):
            raise AnalysisError("pandas.DataFrame of the solution with an index that is not the table's")
        return SolFrame(dict(zip(names, data.rows)), "table" if index is not None else "fresh")

    def _reduced(e):
        """the expression has been reduced over the volume axis"""
        e = sp.sympify(e)
        return e.func in (MAXV, MINV) or (e.func == ABSV and _reduced(e.args[0]))

    class PredList:
        """one predicate per component"""

        def __init__(self, preds, per_volume=False):
            self.preds, self.per_volume = preds, per_volume

        def sym_getattr(self, ev, name, node, mod):
            if name in ("all", "any"):
                return BoundLib(f"predlist.{name}", self)
            raise ev.err(f"attribute {name} of a list of predicates", node, mod)

        def sym_iter(self, ev, n, mod):
            if self.per_volume:
                raise ev.err("a per-volume predicate used where one truth value per component is needed", n, mod)
            return [PredV(*p) for p in self.preds]

    class PredV:
        def __init__(self, expr, opn, bound):
            self.expr, self.opn, self.bound = sp.sympify(expr), opn, bound

        def sym_truth(self, ev, n, mod):
            # canonical: MAXV(ABSVOL(X_i)) <= drop_atol  (|x| <= atol at every volume)
            e = self.expr
            row = next(iter(e.free_symbols), None)
            canonical = self.opn in ("<=", "<") and e == MAXV(ABSV(row)) and self.bound == DROP_ATOL
            sc.drop_tests.append(self.bound)
            if not canonical:
                sc.bad_vanish_tests.append(f"{e} {self.opn} {self.bound}")
            return str(row) in sc.zero

    def solmat_reduce(kind):
        def f(ev, a, k):
            axis = k.get("axis", a[1] if len(a) > 1 else None)
            if axis is None or _const_int(axis) not in (1, -1):
                raise AnalysisError("reduction of the solution matrix not along the volume axis")
            fn = MAXV if kind == "max" else MINV
            return SolMat([fn(r) for r in a[0].rows])
        return f

    def solmat_abs(ev, a, k):
        v = a[0]
        if isinstance(v, SolMat):
            return SolMat([ABSV(r) for r in v.rows])
        if isinstance(v, KernelV):
            return v
        raise AnalysisError("numpy.abs of an unexpected value in fill_cij")

    class VtV:
        """the right singular vectors of the stacked matrix [supplied; relations] (numpy.linalg.svd(a)[2]): rows rank.. span its null space"""

        def __init__(self, ncols):
            self.ncols = ncols

        def sym_subscript(self, ev, idx, n, mod):
            if isinstance(idx, SliceV) and idx.hi is None and idx.step is None and idx.lo is not None and is_sym(idx.lo) and idx.lo.is_Integer:
                return KernelV(max(0, self.ncols - int(idx.lo)), self.ncols)
            raise ev.err("subscript of the singular vectors other than [rank:]", n, mod)

    class KernelV:
        """(ncols - rank) x ncols block of null-space vectors; entries are not known, the SHAPE is (rank comes from the scenario)"""

        def __init__(self, nrows, ncols):
            self.nrows, self.ncols = nrows, ncols

        def sym_getattr(self, ev, name, node, mod):
            if name in ("max", "min", "any", "all", "sum"):
                return BoundLib(f"kernel.{name}", self)
            if name == "shape":
                return Tup([sp.Integer(self.nrows), sp.Integer(self.ncols)])
            if name == "T":
                raise ev.err("transpose of the null-space block", node, mod)
            raise ev.err(f"attribute {name} of the null-space block", node, mod)

        def sym_compare(self, ev, op, other, flipped, n, mod):
            return KernelFlags(self.nrows, self.ncols, reduced=getattr(self, "vector", False))

    class KernelFlags:
        """truth values derived from the null-space block: per entry, or per column after a reduction over the rows"""

        def __init__(self, nrows, ncols, reduced):
            self.nrows, self.ncols, self.reduced = nrows, ncols, reduced

        def sym_getattr(self, ev, name, node, mod):
            if name in ("any", "all"):
                return BoundLib(f"kernelflags.{name}", self)
            raise ev.err(f"attribute {name} of null-space flags", node, mod)

        def sym_iter(self, ev, n, mod):
            if not self.reduced:
                raise ev.err("iteration over the rows of null-space flags", n, mod)
            # one flag per component; which ones are set depends on the data - every component is taken as flagged (the flags only feed a log message)
            return [self.nrows > 0] * self.ncols

        def sym_compare(self, ev, op, other, flipped, n, mod):
            return self

    def kernel_reduce(name):
        def f(ev, a, k):
            kv = a[0]
            axis = k.get("axis", a[1] if len(a) > 1 else None)
            if axis is None or _const_int(axis) != 0:
                raise AnalysisError(f"null-space block reduced along axis {axis!r}")
            if name in ("max", "min") and kv.nrows == 0 and k.get("initial") is None:
                # numpy: zero-size array to reduction operation maximum which has no identity
                raise RaisedV("ValueError")
            if name in ("max", "min", "sum"):
                out = KernelV(kv.nrows, kv.ncols)       # one number per column (the row count is kept: it says whether there was anything to reduce)
                out.vector = True
                return out
            return KernelFlags(kv.nrows, kv.ncols, reduced=True)
        return f

    def kernelflags_reduce(name):
        def f(ev, a, k):
            fl = a[0]
            axis = k.get("axis", a[0 + 1] if len(a) > 1 else None)
            if axis is not None and not fl.reduced and _const_int(axis) == 0:
                return KernelFlags(fl.nrows, fl.ncols, reduced=True)          # per column over the rows: all-False when there are no rows
            if axis is None:
                return fl.nrows > 0 if name == "any" else True
            raise AnalysisError(f"null-space flags reduced along axis {axis!r}")
        return f

    def svd(ev, a, k):
        A = a[0]
        if not isinstance(A, ArrV) or len(A.shape) != 2:
            raise AnalysisError("svd of something that is not the stacked matrix")
        kw_fm = k.get("full_matrices", True)
        if kw_fm is not True:
            raise AnalysisError("svd(full_matrices=False)")
        if k.get("compute_uv", True) is not True:
            raise AnalysisError("svd(compute_uv=False)")
        return Tup([sp.Symbol("SVD_U"), sp.Symbol("SVD_S"), VtV(A.shape[1])])

    def predlist_all(ev, a, k):
        pl = a[0]
        axis = k.get("axis", a[1] if len(a) > 1 else None)
        if not pl.per_volume or axis is None or _const_int(axis) not in (1, -1):
            raise AnalysisError("all()/any() of a predicate list not along the volume axis")
        # (ABS(x) <= a).all(axis=1)  ==  MAXV(ABS(x)) <= a
        return PredList([(MAXV(e), opn, b) for e, opn, b in pl.preds])

    def num_const(v):
        return ResidV(v if is_sym(v) else sp.nsimplify(v, rational=True))

    class ResidV:
        """the residuals lstsq reports: one non-negative number per right-hand-side column (volume), all equal to the
        scenario's value"""

        def __init__(self, value):
            self.value = value

        def sym_compare(self, ev, op, other, reflected, n, mod):
            a_, b_ = (other, self.value) if reflected else (self.value, other)
            return ev.compare(op, a_, b_, n, mod)

        def sym_iter(self, ev, n, mod):
            return [self.value, self.value]

        def sym_any(self, ev, n, mod):
            return ev.truth(self.value, n, mod)

        def sym_getattr(self, ev, name, node, mod):
            if name in ("max", "min", "sum", "mean"):
                return BoundLib("identity_method", self.value)
            if name in ("any", "all"):
                return BoundLib("identity_method", self)
            raise ev.err(f"residuals attribute {name}", node, mod)

        def sym_subscript(self, ev, idx, n, mod):
            from .sym import SliceV
            if isinstance(idx, SliceV) and idx.hi is not None and is_sym(idx.hi) and idx.hi == 0 and idx.lo is None:
                return EmptyResid()                 # residuals[:0]: the empty vector lstsq reports for a rank-deficient system
            return self.value

    class EmptyResid:
        """an empty residual vector: every comparison over it is vacuous (numpy.any -> False)"""

        def sym_compare(self, ev, op, other, reflected, n, mod):
            return False

        def sym_iter(self, ev, n, mod):
            return []

        def sym_any(self, ev, n, mod):
            return False

    class MisfitRows:
        """a @ x (- b) (** 2): one row per equation of the system, each a vector over the volumes; summed over the ROWS (axis 0) it is the
        per-volume squared misfit numpy.linalg.lstsq reports; summed over the volumes (axis 1) it is a per-equation number, another quantity"""

        def __init__(self, stage):
            self.stage = stage          # 'ax', 'diff', 'sq'

        def sym_binop(self, ev, op, other, reflected, n, mod):
            if isinstance(op, ast.Sub) and not reflected and self.stage == "ax" and isinstance(other, DataMat):
                return MisfitRows("diff")
            if isinstance(op, ast.Pow) and not reflected and self.stage == "diff" and is_sym(other) and other == 2:
                return MisfitRows("sq")
            raise ev.err("arithmetic on the misfit of the linear system that is not (a @ x - b) ** 2", n, mod)

    def np_sum(ev, a, k):
        v = a[0]
        axis = k.get("axis", a[1] if len(a) > 1 else None)
        if isinstance(v, MisfitRows) and v.stage == "sq" and axis is not None:
            resid = sc.resid
            if resid == "atol":
                resid = ev_ref["atol"]
            if _const_int(axis) % 2 == 0:
                return num_const(resid)                     # per volume: the residuals of lstsq
            sc.misfit_axis = "summed over the volumes for each equation (axis=1)"
            return num_const(resid)
        raise AnalysisError("numpy.sum of this operand is not modelled in fill_cij")

    def allclose(ev, a, k):
        x = a[0]
        # |x - 0| <= atol + rtol*|0|: rtol is immaterial against 0; atol must be the caller's drop tolerance
        ref0 = a[1] if len(a) > 1 else k.get("b")
        if not (is_sym(ref0) and ref0 == 0):
            raise AnalysisError("allclose of a column against something other than 0")
        k.get("rtol")
        k.get("equal_nan")
        atol = a[3] if len(a) > 3 else k.get("atol")
        sc.drop_tests.append(atol)
        if is_sym(x):
            if x.is_number:
                return bool(x == 0)          # a column of exact zeros (reset by the code itself) vanishes; any other constant column does not (tolerances are tiny)
            names = {str(s) for s in x.free_symbols}
            return bool(names) and names <= sc.zero
        raise AnalysisError("allclose of a non-column")

    class ColsMat:
        def __init__(self, names, vals):
            self.names, self.vals = names, vals

        def sym_getattr(self, ev, name, node, mod):
            if name in ("to_numpy", "values"):
                return BoundLib("identity", self) if name == "to_numpy" else self
            if name in ("any", "all"):
                return BoundLib(f"boolmat.{name}", self)
            if name == "abs":
                return BoundLib("identity_method", self)        # the zero test below is on magnitudes anyway
            if name == "dtypes":
                return DtypesV(self.names)
            raise ev.err(f"attribute {name} of a block of columns", node, mod)

        def sym_subscript(self, ev, idx, n, mod):
            if is_sym(idx) and idx.is_Integer:
                out = ColsMat(self.names, self.vals)        # ONE row of the block (one volume): a test on it says nothing about the other volumes
                out.one_row = int(idx)
                out.is_bool = getattr(self, "is_bool", False)
                return out
            raise ev.err("subscript of a block of columns that is not one row", n, mod)

        def sym_iter(self, ev, n, mod):
            if getattr(self, "is_bool", False) and getattr(self, "one_row", None) is not None:
                # per column: does it vanish at that one volume?  True for the columns that vanish everywhere and - in the worst case - for those
                # that vanish at some volumes only
                sc.bad_vanish_tests.append(f"zero test on row {self.one_row} of the table only")
                flags = []
                for v in self.vals:
                    names_ = {str(s_) for s_ in sp.sympify(v).free_symbols}
                    flags.append(bool(names_) and names_ <= (sc.zero | sc.zero_some))
                return flags
            raise ev.err("iteration over a block of columns", n, mod)

        def sym_compare(self, ev, op, other, flipped, n, mod):
            # block <= atol / block < atol (or atol >= block): the elementwise zero test with the caller's tolerance
            if isinstance(op, (ast.LtE, ast.Lt)) and not flipped or isinstance(op, (ast.GtE, ast.Gt)) and flipped:
                sc.drop_tests.append(other)
                out = ColsMat(self.names, self.vals)
                out.is_bool = True
                return out
            raise ev.err("comparison of a block of columns that is not a zero test", n, mod)

    class ColDtype:
        """the common element type of these columns of the table (int64 for a column written without a decimal point, float64 otherwise - the reader decides per column)"""

        def __init__(self, names):
            self.names = frozenset(names)

    class DtypesV:
        """frame.dtypes: one element type per column"""

        def __init__(self, names):
            self.names = list(names)

        def sym_getattr(self, ev, name, node, mod):
            if name in ("iloc", "values", "loc"):
                return self
            if name in ("to_numpy", "tolist", "to_list"):
                return BoundLib("identity", Tup([ColDtype([n_]) for n_ in self.names], "list"))
            raise ev.err(f"attribute {name} of frame.dtypes", node, mod)

        def sym_subscript(self, ev, idx, n, mod):
            if is_sym(idx) and idx.is_Integer:
                try:
                    return ColDtype([self.names[int(idx)]])
                except IndexError:
                    raise RaisedV("IndexError")
            if isinstance(idx, str) and idx in self.names:
                return ColDtype([idx])
            raise ev.err("subscript of frame.dtypes", n, mod)

        def sym_iter(self, ev, n, mod):
            return [ColDtype([n_]) for n_ in self.names]

    def result_type(ev, a, k):
        if a and all(isinstance(x, ColDtype) for x in a):
            out = set()
            for x in a:
                out |= x.names
            return ColDtype(out)
        raise AnalysisError("numpy.result_type of operands other than column element types")

    class RowsMat(DataMat):
        """numpy.empty / zeros((k, n_volumes), dtype): k rows to be filled in, each with the values of one column"""

        def __init__(self, k_, dtype):
            super().__init__([sp.Symbol(f"UNINITIALISED_ROW_{i}") for i in range(k_)])
            self.dtype_tok = dtype

        def sym_store(self, ev, idx, v, t, mod):
            if isinstance(idx, Tup) and len(idx.items) == 2 and isinstance(idx.items[1], SliceV) and idx.items[1].lo is None and idx.items[1].hi is None:
                idx = idx.items[0]
            if not (is_sym(idx) and idx.is_Integer and 0 <= int(idx) < len(self.rows)):
                raise ev.err("store into the data block at something other than one constant row", t, mod)
            v = as_sym(v)
            if isinstance(self.dtype_tok, ColDtype):
                stored = {str(s_)[4:] for s_ in v.free_symbols if str(s_).startswith("COL_")}
                foreign = sorted(stored - set(self.dtype_tok.names))
                if foreign:
                    e = RaisedV("IntegerDtype", f"{mod.rel}:{getattr(t, 'lineno', 0)}" if mod is not None else "")
                    e.detail = (f"the block that collects the supplied columns is allocated with the element type of column(s) {sorted(self.dtype_tok.names)} only, and column {foreign[0]!r} is "
                                f"stored into it: when {sorted(self.dtype_tok.names)[0]!r} is written without decimal points (read as integers) the values of {foreign[0]!r} are truncated to whole "
                                f"numbers - supplied values move, and the outcome depends on integer-versus-float column type and on column order")
                    raise e
            self.rows[int(idx)] = v

    def np_empty(ev, a, k):
        shape = a[0]
        dt = k.get("dtype", a[1] if len(a) > 1 else None)
        k.get("order")
        if isinstance(shape, Tup) and len(shape.items) == 2 and is_sym(shape.items[0]) and shape.items[0].is_Integer and is_sym(shape.items[1]) \
                and not shape.items[1].is_number:
            if not (dt is None or isinstance(dt, ColDtype) or "float" in repr(getattr(dt, "name", dt)).lower()):
                raise AnalysisError(f"data block allocated with element type {dt!r}")
            return RowsMat(int(shape.items[0]), dt)
        from .sym import LIB
        if dt is not None and not ("float" in repr(getattr(dt, "name", dt)).lower()):
            raise AnalysisError(f"array allocated with element type {dt!r}")
        return LIB["numpy.zeros"](ev, [shape], {}, None, None)

    class FlagSeries:
        """one truth value per column of a block (the result of .any(axis=0) / .all(axis=0)), labelled by the column names"""

        def __init__(self, names, flags):
            self.names, self.flags = list(names), list(flags)
            self.items = list(flags)

        def sym_getattr(self, ev, name, node, mod):
            if name == "index":
                return FlagIndex(self)
            if name in ("to_numpy", "values", "tolist"):
                return BoundLib("identity", Tup(self.flags, "list"))
            raise ev.err(f"attribute {name} of a per-column truth vector", node, mod)

        def sym_iter(self, ev, n, mod):
            return list(self.flags)

    class FlagIndex:
        def __init__(self, fs):
            self.fs = fs

        def sym_subscript(self, ev, idx, n, mod):
            if idx is self.fs or (isinstance(idx, Tup) and list(idx.items) == self.fs.flags):
                return Tup([nm for nm, fl in zip(self.fs.names, self.fs.flags) if fl], "list")
            raise ev.err("per-column index selected by something other than its own truth vector", n, mod)

        def sym_iter(self, ev, n, mod):
            return list(self.fs.names)

    def isclose(ev, a, k):
        m = a[0]
        k.get("rtol")
        k.get("equal_nan")
        if "atol" in k or len(a) > 3:
            sc.drop_tests.append(a[3] if len(a) > 3 else k.get("atol"))
        if isinstance(m, ColsMat) and is_sym(a[1]) and a[1] == 0:
            out = ColsMat(m.names, m.vals)
            out.is_bool = True
            if getattr(m, "one_row", None) is not None:
                out.one_row = m.one_row
            return out
        if is_sym(m):
            names = {str(s_) for s_ in m.free_symbols}
            c = ColsMat(["?"], [m])
            c.is_bool = True
            return c
        raise AnalysisError("isclose of an unexpected value in fill_cij")

    def boolred(kind):
        def f(ev, a, k):
            m = a[0]
            axis = k.get("axis", a[1] if len(a) > 1 else None)
            flags = []
            for v in m.vals:
                names = {str(s_) for s_ in sp.sympify(v).free_symbols}
                allz = bool(names) and names <= sc.zero
                somez = allz or (bool(names) and names <= (sc.zero | sc.zero_some))
                flags.append(somez if kind == "any" else allz)
            if axis is None:
                return any(flags) if kind == "any" else all(flags)
            if _const_int(axis) != 0:
                raise AnalysisError("reduction of the zero test along the column axis")
            return FlagSeries(m.names, flags) if len(m.names) == len(flags) and "?" not in m.names else Tup(flags, "list")
        return f

    def df_items(ev, a, k):
        return Tup([Tup([n, ColV(n, v)]) for n, v in a[0].cols.items()], "list")

    def df_drop(ev, a, k):
        df = a[0]
        name = a[1] if len(a) > 1 else k.get("columns", k.get("labels"))
        if "columns" not in k and _const_int(k.get("axis", sp.Integer(0))) != 1:
            raise AnalysisError("DataFrame.drop with axis != 1")
        out = df.copy()
        for nm in (name.items if isinstance(name, Tup) else [name]):
            if nm not in out.cols:
                raise RaisedV("KeyError")
            del out.cols[nm]
        return out

    def astype(ev, a, k):
        return a[0]

    intr = {
        "pathlib.Path": path_ctor, "path.exists": path_probe("exists"), "path.is_file": path_probe("is_file"),
        "path.is_dir": path_probe("is_dir"),
        "cij.data:get_data_fname": get_data_fname, "builtins.open": open_,
        "sympy.parsing.sympy_parser.parse_expr": parse_expr, "sympy.symbols": symbols, "sympy.Symbol": symbols,
        "sympy.linear_eq_to_matrix": lineq, "numpy.array": np_array, "numpy.broadcast_to": broadcast_to,
        "solmat.max": solmat_reduce("max"), "solmat.min": solmat_reduce("min"), "numpy.abs": solmat_abs, "numpy.absolute": solmat_abs, "numpy.fabs": solmat_abs,
        "predlist.all": predlist_all,
        "numpy.concatenate": concatenate, "numpy.vstack": concatenate, "numpy.row_stack": concatenate, "numpy.repeat": repeat, "numpy.tile": tile, "sympy.matrix2numpy": matrix2numpy,
        "numpy.linalg.lstsq": lstsq, "numpy.allclose": allclose, "numpy.sum": np_sum,
        "numpy.empty": np_empty, "numpy.zeros": np_empty, "numpy.result_type": result_type,
        "numpy.all": lambda ev, a, k: predlist_all(ev, a, k) if isinstance(a[0], PredList) else __import__("cijsa.sym", fromlist=["lib_all"]).lib_all(ev, a, dict(k), None, None),
        "numpy.linalg.svd": svd, "kernel.max": kernel_reduce("max"), "kernel.min": kernel_reduce("min"), "kernel.any": kernel_reduce("any"), "kernel.all": kernel_reduce("all"),
        "kernelflags.any": kernelflags_reduce("any"), "kernelflags.all": kernelflags_reduce("all"),
        "numpy.isclose": isclose, "boolmat.any": boolred("any"), "boolmat.all": boolred("all"),
        "pandas.DataFrame": dataframe, "labelledcol.bare": lambda ev, a, k: (k.all(), a[0].value)[1],
        "solmat.transpose": lambda ev, a, k: SolMatT(a[0].rows),
        "DataFrame.items": df_items, "DataFrame.drop": df_drop, "identity": lambda ev, a, k: a[0],
        "identity_method": lambda ev, a, k: (k.all(), a[0])[1], "ndarray.astype": astype,
        "collections.OrderedDict": lambda ev, a, k: __import__("cijsa.sym", fromlist=["lib_dict"]).lib_dict(ev, a, k, None, None),
    }
    ev = Ev(model, {}, intr, ctx=ctx)
    ev.sympy_objects = True         # fill_cij works with sympy expressions as objects (relations, their symbols)
    ev_ref = {}
    table.index_value = TableIndex()
    DFV.sym_subscript_multi = lambda self, names: ColsMat(list(names), [self.cols[n_] for n_ in names])
    f = model.func(FILL)
    mod = model.mods["cij.util.fill"]
    # parameter defaults are read from the signature
    names = [a.arg for a in f.args.args]
    defaults = dict(zip(reversed(names), reversed(f.args.defaults)))
    ev_ref["atol"] = as_sym(ev.eval(defaults["residual_atol"], {}, mod)) if "residual_atol" in defaults else sp.Rational(1, 10)
    if "residual_atol" in sc.kwargs:
        ev_ref["atol"] = as_sym(sc.kwargs["residual_atol"])
    kwargs = dict(sc.kwargs)
    if "drop_atol" in names and "drop_atol" not in kwargs:
        kwargs["drop_atol"] = DROP_ATOL
    try:
        out = ev.call_def(f, mod, FILL, [table, sc.system], kwargs)
    except RaisedV as e:
        if e.exc_name == "IntegerDtype":
            raise           # not a refusal of fill_cij: a finding about the code (wrong for integer-typed columns), reported as such by the driver
        return "raise", e.exc_name, table, original, ev
    return "ok", out, table, original, ev


# PathV / str joins:  Path("constraints") / system
def _patch_binop():
    from . import sym
    orig = sym.Ev.binop

    def binop(self, op, a, b, n=None, mod=None):
        if hasattr(a, "sym_binop"):
            return a.sym_binop(self, op, b, False, n, mod)
        if hasattr(b, "sym_binop"):
            return b.sym_binop(self, op, a, True, n, mod)
        if isinstance(op, ast.Div) and (isinstance(a, PathV) or isinstance(b, PathV)):
            ta = a.text if isinstance(a, PathV) else a
            tb = b.text if isinstance(b, PathV) else b
            if not isinstance(ta, str) or not isinstance(tb, str):
                raise AnalysisError("path join with a non-constant")
            return PathV(tb if tb.startswith("/") else f"{ta}/{tb}")
        return orig(self, op, a, b, n, mod)

    sym.Ev.binop = binop
    orig_str = sym.LIB["str"]

    def lib_str(ev, a, k, n, mod):
        if isinstance(a[0], PathV):
            return a[0] if a[0].packaged else a[0].text
        return orig_str(ev, a, k, n, mod)

    sym.LIB["str"] = lib_str


_patch_binop()
