"""Check context: rule instances, violations, known findings, evidence, exit codes.

Exit-code contract (DESIGN section 9):
  0  every rule instance holds (listed known findings print KNOWN-FINDING lines)
  1  at least one violation that known_findings.json does not list
  2  ANALYSIS-ERROR: unrecognised construct, vanished anchor, instance floor, internal error
"""
from __future__ import annotations

import json
import os
import time
from pathlib import Path

VERIF = Path(__file__).resolve().parent.parent
REPO = Path(os.environ.get("CIJ_REPO", "/repo"))
EVIDENCE_DIR = Path(os.environ.get("CIJSA_EVIDENCE_DIR", VERIF / "evidence"))
REPLAY_DIR = EVIDENCE_DIR / "replay"
KNOWN_FINDINGS = VERIF / "known_findings.json"


class AnalysisError(Exception):
    """The analysis cannot decide: unrecognised construct / vanished anchor / floor."""

    def __init__(self, reason: str, where: str = ""):
        super().__init__(reason)
        self.reason = reason
        self.where = where


class Where:
    """A source position: file (repo-relative), function qualname, line."""

    def __init__(self, file: str, function: str = "", line: int = 0):
        self.file, self.function, self.line = file, function, line

    def __str__(self):
        s = self.file
        if self.line:
            s += f":{self.line}"
        if self.function:
            s += f" {self.function}"
        return s


class Ctx:
    def __init__(self, prop: str, tier: str, seed: int):
        self.prop, self.tier, self.seed = prop, tier, seed
        self.t0 = time.time()
        self.instances = []      # every evaluated rule instance
        self.violations = []     # dicts
        self.errors = []         # analysis errors
        self.functions = set()   # functions analysed
        self.call_sites = 0
        self.library_facts = []
        self.assumptions = []
        self.notes = []
        self.current_rule = None
        self.rule_texts = {}
        self.exhaustive = False
        self.extra = {}

    # -- recording --------------------------------------------------------
    def begin_rule(self, rid: str, text: str):
        self.current_rule = rid
        self.rule_texts[rid] = text

    def fn(self, *names):
        for n in names:
            self.functions.add(n)

    def ok(self, instance: str, where: Where | None = None, form: str = ""):
        self.instances.append({"rule": self.current_rule, "instance": instance,
                               "where": str(where) if where else "", "form": form, "ok": True})

    def violation(self, key: str, where: Where, expected: str, found: str, explanation: str,
                  instance: str | None = None):
        """key: normalised text of the offending construct (never a line number)."""
        v = {"rule": self.current_rule, "instance": instance or key, "key": key,
             "file": where.file, "function": where.function, "line": where.line,
             "expected": expected, "found": found, "explanation": explanation}
        self.instances.append({"rule": self.current_rule, "instance": instance or key,
                               "where": str(where), "form": found, "ok": False})
        self.violations.append(v)

    def check(self, cond: bool, instance: str, where: Where, expected: str, found: str,
              explanation: str, key: str | None = None):
        if cond:
            self.ok(instance, where, found)
        else:
            self.violation(key or instance, where, expected, found, explanation, instance)
        return cond

    def error(self, reason: str, where: str = ""):
        self.errors.append({"rule": self.current_rule, "reason": reason, "where": where})

    def floor(self, what: str, got: int, need: int):
        if got < need:
            self.error(f"instance floor: {what}: matched {got} < {need} confirmed by hand")

    def assume(self, text: str):
        if text not in self.assumptions:
            self.assumptions.append(text)

    def libfact(self, text: str):
        if text not in self.library_facts:
            self.library_facts.append(text)

    # -- finishing --------------------------------------------------------
    def _known(self):
        if not KNOWN_FINDINGS.exists():
            return []
        return json.loads(KNOWN_FINDINGS.read_text()).get("findings", [])

    def split_known(self):
        """(unlisted, listed) violations: listed = matched by a `known` entry of known_findings.json on (rule, file, function, key)"""
        known = [k for k in self._known() if k.get("status") == "known" and k.get("property") == self.prop]
        unlisted, listed = [], []
        for v in self.violations:
            hit = None
            for k in known:
                c = k.get("construct", {})
                if (k.get("rule") == v["rule"] and c.get("file") == v["file"]
                        and c.get("function") == v["function"] and c.get("key") == v["key"]):
                    hit = k
                    break
            (listed if hit else unlisted).append((v, hit))
        return unlisted, listed

    def finish(self, level: str, explanation: str, trusted_base=None, checker_cmd=None,
               not_decided: str = "") -> int:
        unlisted, listed = self.split_known()

        print(f"== {self.prop} tier={self.tier}: {len(self.instances)} rule instances over "
              f"{len(self.functions)} functions/artefacts, {len(self.rule_texts)} rules")
        for rid, text in self.rule_texts.items():
            n = sum(1 for i in self.instances if i["rule"] == rid)
            bad = sum(1 for i in self.instances if i["rule"] == rid and not i["ok"])
            print(f"   {rid}: {n} instances, {bad} failing — {text}")
        for v, k in listed:
            print(f"KNOWN-FINDING: property={self.prop} {v['rule']} {v['file']} {v['function']} "
                  f"[{v['key']}] {k.get('what', v['explanation'])}")
        REPLAY_DIR.mkdir(parents=True, exist_ok=True)
        for old in REPLAY_DIR.glob(f"{self.prop}-*.json"):
            old.unlink()
        for n, (v, _) in enumerate(unlisted):
            rp = REPLAY_DIR / f"{self.prop}-{v['rule']}-{n}.json"
            rp.write_text(json.dumps(dict(v, property=self.prop), indent=1))
            print(f"VIOLATION property={self.prop} replay={rp}")
            print(f"   {v['file']}:{v['line']} {v['function']} {v['rule']} [{v['key']}] — {v['explanation']}")
            print(f"   expected: {v['expected']}")
            print(f"   found:    {v['found']}")
        for e in self.errors:
            print(f"ANALYSIS-ERROR property={self.prop} rule={e['rule']} reason={e['reason']}"
                  + (f" at {e['where']}" if e["where"] else ""))

        ok_instances = [i for i in self.instances if i["ok"]]
        distinct = len({(i["rule"], i["instance"], i["form"]) for i in self.instances if i["form"] or i["instance"]})
        samples = [{"rule": i["rule"], "instance": i["instance"], "where": i["where"], "normal_form": i["form"][:400]}
                   for i in self.instances[:: max(1, len(self.instances) // 8)]][:10]
        cov = {
            "explanation": explanation + (" NOT DECIDED: " + not_decided if not_decided else ""),
            "obligations": len(self.instances),
            "discharged": len(ok_instances) + len(listed),
            "evaluations": len(self.instances),
            "distinct_nontrivial": distinct,
            "rule": "every rule is evaluated on every construct it matches in /repo's current source; an "
                    "instance is one (rule, construct) pair; distinct = distinct (rule, construct, normal form)",
            "samples": samples,
            "rules": {rid: {"text": t, "instances": sum(1 for i in self.instances if i["rule"] == rid)}
                      for rid, t in self.rule_texts.items()},
            "functions_analysed": sorted(self.functions),
            "call_sites": self.call_sites,
            "library_facts": self.library_facts,
            "known_findings_matched": [v["key"] for v, _ in listed],
            "analysis_errors": self.errors,
            "exhaustive": bool(self.exhaustive),
            "repo": str(REPO),
        }
        cov.update(self.extra)
        if level == "proof":
            cov["checker_cmd"] = checker_cmd or f"./check {self.prop} --tier {self.tier}"
            cov["trusted_base"] = trusted_base or []
        ev = {"property_id": self.prop, "tier": self.tier, "seed": self.seed, "level": level,
              "coverage": cov, "assumptions": self.assumptions, "wall_s": round(time.time() - self.t0, 3),
              "violations": len(unlisted)}
        EVIDENCE_DIR.mkdir(exist_ok=True)
        name = f"{self.prop}.json" if not getattr(self, "partial", False) else f"replay/{self.prop}.partial.json"
        (EVIDENCE_DIR / name).write_text(json.dumps(ev, indent=1, default=str))
        if unlisted:
            return 1
        if self.errors:
            return 2
        print(f"OK property={self.prop} ({len(ok_instances)} instances hold, {len(listed)} known findings)")
        return 0
