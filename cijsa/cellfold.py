"""Cell-by-cell fold of the non-shear phonon contributions.

The normal forms of C01/C02 treat the mode average as one linear functional AVG[.] applied to whole (q, m) arrays; they decide
the per-mode physics but can only follow code that reduces through `average_over_modes`.  This module folds the same source on a
small concrete (q, m) grid - NQ q-points x NP modes, every cell with its own atoms FREQ_q_m, GAMMA_q_m, VDR_q_m, symbolic q-point
weights w_q - with the stock array transfer functions (the real `average_over_modes`, einsum, slices, masks ...), and compares
with the reference summed cell by cell: sum_q w_q / (sum_q' w_q') * 1/NP * sum_m [not (q = 0 and m < 3)] x_qm.  It therefore
decides formulations that reduce in any other way, and pins the weight of every single cell (pairing of w_q with q, Gamma mask,
normalisation by the sum of the weights, the 1/NP of the unweighted mode mean)."""
from __future__ import annotations

import random

import sympy as sp

from . import units as U
from .anf import bose, short
from .facts import (physics_seeds, qha_attr_hook, interpolate_modes_roles, LONG, FREQ, GAMMA, VDR, T, E0, E1, QPHYS)
from .report import AnalysisError
from .sym import Ev, ArrV, Tup, Obj, as_sym

NQ, NP = 2, 4


class CellFold:
    def __init__(self, ctx, model):
        self.model = model
        seeds, intr, calc = physics_seeds(model)
        roles, _ = interpolate_modes_roles(model)
        self.FR, self.GA, self.VD = self._cells("FREQ", True), self._cells("GAMMA"), self._cells("VDR")
        vals = {0: self._scaled(self.FR, U.UNIT_TABLE["cm"]), 1: self.GA, 2: self.VD}
        intr["cij.core.mode_gamma:interpolate_modes"] = lambda ev, a, k: Tup([vals[r] for r in roles])
        del intr["cij.core.phonon_contribution.nonshear:average_over_modes"]        # the real function is folded
        self.w = [sp.Symbol(f"w{q}", positive=True) for q in range(NQ)]
        # the phonon input as the reader delivers it: one (coordinates, weight) pair per q-point; q_weights is folded from it
        del seeds[(LONG, "q_weights")]
        coords = [ArrV(0, (3,), cells={(i,): sp.Symbol(f"QCOORD_{q}_{i}", real=True) for i in range(3)}) for q in range(NQ)]
        calc.attrs["qha_input"] = Obj("cij.io.traditional.qha_input:QHAInputData",
                                      {"weights": Tup([Tup([coords[q], self.w[q]]) for q in range(NQ)], "list"), "nq": sp.Integer(NQ), "np": sp.Integer(NP)})
        calc.attrs["np"], calc.attrs["nq"] = sp.Integer(NP), sp.Integer(NQ)
        self.ev = Ev(model, seeds, intr, attr_hook=qha_attr_hook, ctx=ctx)
        self.E = {(q, m): sp.Symbol(f"E_{q}_{m}", positive=True) for q in range(NQ) for m in range(NP)}

    @staticmethod
    def _cells(name, positive=False):
        a = ArrV(1, (NQ, NP))
        for q in range(NQ):
            for m in range(NP):
                a.cells[(q, m)] = sp.Symbol(f"{name}_{q}_{m}", real=True, positive=positive or None)
        return a

    @staticmethod
    def _scaled(arr, c):
        out = ArrV(arr.batch, arr.shape)
        out.cells = {k: v * c for k, v in arr.cells.items()}
        return out

    def cells(self):
        return [(q, m) for q in range(NQ) for m in range(NP)]

    def attr(self, cref, name):
        return self.ev.get_attr(Obj(cref), name)

    def per_cell(self, expr, q, m):
        return sp.sympify(expr).subs({FREQ: self.FR.cells[(q, m)], GAMMA: self.GA.cells[(q, m)], VDR: self.VD.cells[(q, m)]}, simultaneous=True)

    def avg(self, per_mode):
        """the reference mode average of a per-mode expression over the atoms FREQ, GAMMA, VDR"""
        sw = sum(self.w)
        return sum(self.w[q] / sw / NP * self.per_cell(per_mode, q, m) for q, m in self.cells() if not (q == 0 and m < 3))

    def bose(self, x):
        x = sp.sympify(x)
        for (q, m), e_ in self.E.items():
            x = bose(x, QPHYS.subs(FREQ, self.FR.cells[(q, m)]), e_)
        return x

    def only(self, expr, keep):
        """the part of expr carried by the cells in `keep`: the strain parameters of every other cell set to zero (every per-mode term of
        the contributions carries a factor gamma or V dgamma/dV)"""
        z = {}
        for c in self.cells():
            if c not in keep:
                z[self.GA.cells[c]] = 0
                z[self.VD.cells[c]] = 0
        return expr.subs(z)

    @staticmethod
    def _nonzero(d, seed):
        """is the rational function d (after the Bose substitution) different from zero?  Decided by exact evaluation at generic rational
        points (a non-zero rational function vanishes on a set of measure zero; two independent points).  An expression in which an exp()
        of a non-Bose argument survives is evaluated to 40 digits instead"""
        rnd = random.Random(seed)
        syms = sorted(d.free_symbols, key=str)
        for _ in range(2):
            pt = {s_: sp.Rational(rnd.randint(11, 97), rnd.randint(7, 31)) for s_ in syms}
            v = d.xreplace(pt)
            if v.is_Rational:
                if v != 0:
                    return True
                continue
            from sympy.core.function import AppliedUndef
            if v.atoms(AppliedUndef):
                return True         # an opaque atom (an unread selection, a foreign function) survives in the difference: not the reference
            scale = sum(abs(sp.N(t, 40)) for t in sp.Add.make_args(v)) or 1
            if abs(sp.N(v, 40)) > scale * sp.Float("1e-30"):
                return True
        return False

    def differs(self, got, want, pairs=False, same_strain=False):
        """[] when got == want; otherwise a description of where they differ (cells, cell pairs, or the whole)"""
        d = self.bose(as_sym(got)) - self.bose(want)
        if same_strain:
            d = d.subs(E1, E0)
        bad = []
        if not self._nonzero(d, 20261005):
            return bad
        for c in self.cells():
            if self._nonzero(self.only(d, [c]), 20261006):
                bad.append(f"cell (q={c[0]}, m={c[1]})")
        if pairs and not bad:
            cs = self.cells()
            for i, a in enumerate(cs):
                for b in cs[i + 1:]:
                    if self._nonzero(self.only(d, [a, b]), 20261007):
                        bad.append(f"cells (q={a[0]}, m={a[1]}) x (q={b[0]}, m={b[1]})")
        return bad or ["the sum over all cells"]
