"""Opaque library functions as sympy Function atoms, with the scalar structure that the
quantity calculus needs: linear roles pull out the unit monomial and numeric factor of their
argument; abscissa roles that are scale-free drop a common unit factor."""
from __future__ import annotations

import sympy as sp

from . import units as U
from .report import AnalysisError

ARRAY_FUNCS = {}


def F(name):
    if name not in ARRAY_FUNCS:
        ARRAY_FUNCS[name] = sp.Function(name)
    return ARRAY_FUNCS[name]


def scalar_part(expr, extra_scalars=()):
    """split expr = c * rest where c is a monomial in unit symbols (and the listed positive
    scalar symbols) times a rational number; rest carries no unit symbol as an overall factor."""
    expr = sp.sympify(expr)
    if expr == 0:
        return sp.Integer(1), expr
    scal = set(U.UNIT_SYMBOLS) | set(extra_scalars) | {U.NA}
    c = sp.Integer(1)
    e = sp.factor_terms(expr)
    rest = sp.Integer(1)
    for f in sp.Mul.make_args(e):
        base, ex = f.as_base_exp()
        if f.is_Rational or (f.free_symbols and f.free_symbols <= scal and not isinstance(f, sp.Add)):
            c *= f
        elif isinstance(f, sp.Pow) and base.free_symbols and base.free_symbols <= scal and not base.is_Add:
            c *= f
        else:
            rest *= f
    return c, rest


def linear(name, args, lin_index, same_scale_groups=()):
    """opaque function linear in args[lin_index]; every group in same_scale_groups is a tuple of
    argument indices whose common scalar factor cancels (scale-free abscissae)"""
    args = [sp.sympify(a) for a in args]
    coef = sp.Integer(1)
    if lin_index is not None:
        c, r = scalar_part(args[lin_index])
        coef *= c
        args[lin_index] = r
    for grp in same_scale_groups:
        # scale-free group: divide every member by the scalar part of the first one
        c0, _ = scalar_part(args[grp[0]])
        for i in grp:
            c, r = scalar_part(args[i])
            args[i] = sp.cancel(c / c0) * r
    return coef * F(name)(*args)


def homogeneous(name, args, indices):
    """opaque function homogeneous of degree 1 jointly in args[indices] (min, max, linspace)"""
    args = [sp.sympify(a) for a in args]
    cs = [scalar_part(args[i]) for i in indices]
    c0 = cs[0][0]
    if all(sp.simplify(c / c0) == 1 for c, _ in cs):
        for i, (c, r) in zip(indices, cs):
            args[i] = r
        return c0 * F(name)(*args)
    return F(name)(*args)
