"""Quantity calculus (E4 folded into E2).

Every float in the program is modelled as  physical quantity / unit.  Unit names are
positive sympy symbols; SI-prefixed and SI-derived names are reduced exactly to the base
symbols {m, g, s, K, mol}; Ry, eV, bohr stay independent symbols (their ratios to SI are
not exact rationals and are pint's business — trusted).  `Quantity(x, U).to(U2).magnitude`
is x*U/U2.  A unit mistake therefore leaves unit symbols in a normal form and is reported
by the same comparison that checks the algebra."""
from __future__ import annotations

import ast

import sympy as sp

from .report import AnalysisError

P = dict(positive=True)
m, g, s, K, mol = sp.symbols("m g s K mol", **P)
Ry, eV, bohr = sp.symbols("Ry eV bohr", **P)
NA = sp.Symbol("NA", **P)       # Avogadro constant (physical quantity, 1/mol)
HC = sp.Symbol("HC", **P)       # Planck constant times c (J m)
KB = sp.Symbol("KB", **P)       # Boltzmann constant
CLIGHT = sp.Symbol("CLIGHT", **P)
HPL = HC / CLIGHT               # the Planck constant itself: h * c is the atom HC, so a product spelled h * c and the tabulated "h c" agree

kg = 1000 * g
J = kg * m ** 2 / s ** 2
Pa = J / m ** 3

UNIT_TABLE = {
    "m": m, "meter": m, "metre": m, "cm": m / 100, "centimeter": m / 100, "km": 1000 * m, "kilometer": 1000 * m,
    "angstrom": m / 10 ** 10, "Å": m / 10 ** 10, "nm": m / 10 ** 9,
    "g": g, "gram": g, "kg": kg, "kilogram": kg,
    "s": s, "second": s, "K": K, "kelvin": K, "mol": mol, "mole": mol,
    "J": J, "joule": J, "Pa": Pa, "pascal": Pa, "GPa": 10 ** 9 * Pa, "gigapascal": 10 ** 9 * Pa,
    "kbar": 10 ** 8 * Pa, "MPa": 10 ** 6 * Pa,
    "rydberg": Ry, "Ry": Ry, "eV": eV, "electron_volt": eV, "bohr": bohr, "a0": bohr, "a_0": bohr,
    "particle": 1 / NA, "dimensionless": sp.Integer(1),
    "THz": 10 ** 12 / s, "Hz": 1 / s, "hertz": 1 / s,
}
UNIT_SYMBOLS = {m, g, s, K, mol, Ry, eV, bohr}

# scipy.constants.physical_constants[key] = (value, unit string, uncertainty)
PHYSICAL_CONSTANTS = {
    "molar Planck constant times c": (HC * NA, J * m / mol),
    "Avogadro constant": (NA, 1 / mol),
    "Boltzmann constant in eV/K": (KB, eV / K),
    "Boltzmann constant": (KB, J / K),
    "Planck constant": (HPL, J * s),
    "reduced Planck constant": (HPL / (2 * sp.pi), J * s),
    "speed of light in vacuum": (CLIGHT, m / s),
}


# scipy.constants.<name> (plain floats in SI units) -> key of PHYSICAL_CONSTANTS
SCIPY_DIRECT = {"Avogadro": "Avogadro constant", "N_A": "Avogadro constant", "Boltzmann": "Boltzmann constant", "k": "Boltzmann constant",
                "Planck": "Planck constant", "h": "Planck constant", "hbar": "reduced Planck constant", "c": "speed of light in vacuum", "speed_of_light": "speed of light in vacuum"}


def unit_from_name(name: str):
    if name not in UNIT_TABLE:
        raise AnalysisError(f"unit name not in T-UNITS: {name}")
    return UNIT_TABLE[name]


def parse_unit_string(text: str):
    """'rydberg / bohr ^ 3', 'km/s', 'angstrom^3', 'GPa' (pint string syntax subset)."""
    try:
        tree = ast.parse(text.replace("^", "**"), mode="eval").body
    except SyntaxError:
        raise AnalysisError(f"cannot parse unit string {text!r}")

    def ev(n):
        if isinstance(n, ast.Name):
            return unit_from_name(n.id)
        if isinstance(n, ast.Constant) and isinstance(n.value, (int, float)):
            return sp.nsimplify(n.value, rational=True)
        if isinstance(n, ast.BinOp):
            a, b = ev(n.left), ev(n.right)
            if isinstance(n.op, ast.Mult):
                return a * b
            if isinstance(n.op, ast.Div):
                return a / b
            if isinstance(n.op, ast.Pow):
                return a ** b
        raise AnalysisError(f"cannot parse unit string {text!r}")

    return ev(tree)


def has_unit_symbols(expr) -> set:
    return set(expr.free_symbols) & UNIT_SYMBOLS
