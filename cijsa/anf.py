"""Canonical forms for comparison: Bose atom, AVG as a linear functional, exact zero test."""
from __future__ import annotations

import sympy as sp

from .report import AnalysisError
from .sym import AVG


def bose(expr, q_phys, E):
    """exp(c*Q) -> E**c for rational c; any other exp(...) argument is returned untouched
    (and will show up as a residual, i.e. a violation of 'the argument is hbar*omega/kT')."""

    def repl(e):
        arg = e.args[0]
        c = sp.cancel(sp.together(arg / q_phys))
        if c.is_Rational:
            return E ** c
        return e

    return expr.replace(lambda e: isinstance(e, sp.exp), repl)


def _split_indep(term, dep):
    """term (a Mul or atom) -> (mode-independent coefficient, mode-dependent factor)"""
    c, d = sp.Integer(1), sp.Integer(1)
    for f in sp.Mul.make_args(term):
        if f.free_symbols & dep:
            d *= f
        else:
            c *= f
    return c, d


def avg_normalize(exprs, dep):
    """Rewrite every AVG(arg) in exprs as sum_k coef_k * A[m_k / D*] with one common
    mode-dependent denominator D*, monomials m_k in mode-dependent atoms and
    mode-independent coefficients; returns (new exprs, {symbol: basis element})."""
    dep = set(dep)
    occ = set()
    for e in exprs:
        occ |= e.atoms(AVG)
    for a in occ:
        if a.args[0].atoms(AVG):
            raise AnalysisError("nested mode averages")
    pieces = {}
    dens = []
    for a in occ:
        arg = sp.together(sp.expand(a.args[0]) if False else a.args[0])
        num, den = sp.fraction(sp.cancel(arg)) if arg.free_symbols else (arg, sp.Integer(1))
        # split denominator into dependent / independent factors
        dc, dd = sp.Integer(1), sp.Integer(1)
        coeff, facs = sp.factor_list(den)
        dc *= coeff
        for f, k in facs:
            if f.free_symbols & dep:
                dd *= f ** k
            else:
                dc *= f ** k
        pieces[a] = (sp.expand(num), dc, dd)
        dens.append(dd)
    dstar = sp.Integer(1)
    for d in dens:
        dstar = sp.lcm(dstar, d)
    basis = {}
    repl = {}
    for a, (numr, dc, dd) in pieces.items():
        mult = sp.cancel(dstar / dd)
        numr = sp.expand(numr * mult)
        total = sp.Integer(0)
        for term in sp.Add.make_args(numr):
            c, d = _split_indep(term, dep)
            key = sp.srepr(d)
            if key not in basis:
                basis[key] = (sp.Symbol(f"A{len(basis)}", real=True), d)
            total += c * basis[key][0]
        repl[a] = total / dc
    out = [e.xreplace(repl) for e in exprs]
    names = {sym: (m / dstar) for sym, m in basis.values()}
    return out, names


def is_zero(expr) -> bool:
    """exact zero test; rational functions are decided by cancel(); expressions with radicals
    or function atoms get one bounded simplify pass"""
    expr = sp.sympify(expr)
    if expr == 0:
        return True
    e = sp.cancel(sp.together(expr))
    if e == 0:
        return True
    irrational = any(isinstance(p, sp.Pow) and not p.exp.is_Integer for p in e.atoms(sp.Pow)) or e.atoms(sp.Function)
    if not irrational or sp.count_ops(e) > 400:
        return False
    return sp.simplify(e) == 0


def short(expr, n=300) -> str:
    """bounded-cost printable form of a residual"""
    try:
        e = sp.cancel(sp.together(expr)) if sp.count_ops(expr) < 2000 else expr
    except Exception:
        e = expr
    t = str(e)
    return t if len(t) <= n else t[:n] + "..."


def compare(lhs, rhs, dep=()):
    """exact comparison; returns (equal?, text describing the residual per AVG basis element)"""
    (l, r), names = avg_normalize([sp.sympify(lhs), sp.sympify(rhs)], dep)
    diff = sp.together(l - r)
    if is_zero(diff):
        return True, ""
    numr, _ = sp.fraction(sp.cancel(diff))
    msgs = []
    syms = [s for s in names if numr.has(s)]
    if syms:
        try:
            poly = sp.Poly(sp.expand(numr), *syms)
            lp = sp.Poly(sp.expand(sp.fraction(sp.cancel(sp.together(l)))[0]), *syms) if False else None
            for mon, coef in poly.terms():
                b = " * ".join(f"AVG[{names[s]}]" + (f"^{k}" if k > 1 else "") for s, k in zip(syms, mon) if k)
                cl = _coef_of(l, syms, mon)
                cr = _coef_of(r, syms, mon)
                msgs.append(f"coefficient of {b or '1'}: found {cl}, required {cr}")
        except Exception:
            msgs.append(f"residual {short(diff)}")
    else:
        msgs.append(f"found {short(l)}, required {short(r)}")
    return False, "; ".join(msgs[:6])


def _coef_of(e, syms, mon):
    try:
        numr, den = sp.fraction(sp.cancel(sp.together(e)))
        p = sp.Poly(sp.expand(numr), *syms)
        c = p.coeff_monomial(mon) if mon in dict(p.terms()) else 0
        return sp.factor(sp.cancel(c / den))
    except Exception:
        return "?"
