"""Content-keyed memo tables.

A store into module-level / class-level state makes results depend on process history - unless the state is a memo table
`M` of a function of its key: every entry `M[k]` was computed from quantities that `k` determines *by content*, so a hit
returns exactly what a miss would compute, whatever happened earlier in the process.  This module decides, for one
container and one function, which of three things holds:

  ("benign",  facts)   all uses of the container are of memo form in this one function, the key is built from content
                        (values, repr() of plain data, shape + dtype + tobytes() of an array) and every quantity the
                        memoised computation reads is determined by the key;
  ("harmful", reason)  memo form, but some quantity the computation reads is NOT determined by the key (or the key holds an
                        address: id(x)) - a later call with other data under the same key gets the earlier result;
  (None, reason)       not of memo form: the caller keeps its general verdict (shared state).

The decision is syntactic (def-use inside one function); the assumptions are stated in the facts that go to the evidence:
dictionary keys hash by value (tuples / numbers / strings / NamedTuples), and a function that is called is a function of
its arguments unless it is on the ambient list of `effects`."""
from __future__ import annotations

import ast

from .model import dotted_name, src
from .effects import AMBIENT, MUTATORS

PLAIN_ANNOTATIONS = {"dict", "list", "str", "int", "float", "bool", "tuple", "Dict", "List", "Mapping", "Sequence"}
ARRAY_BYTES = {"tobytes", "tostring"}
ASARRAY = {"numpy.asarray", "numpy.ascontiguousarray", "numpy.asanyarray", "numpy.array", "numpy.asfortranarray"}


def _dump(n):
    return ast.dump(n, annotate_fields=False, include_attributes=False)


def _unit(n):
    """maximal chain of attribute / constant-subscript accesses rooted in a name: the unit of 'a quantity that is read'"""
    root = n
    while isinstance(root, (ast.Attribute, ast.Subscript)):
        if isinstance(root, ast.Subscript) and not isinstance(root.slice, ast.Constant):
            return None
        root = root.value
    return root if isinstance(root, ast.Name) else None


class MemoUse:
    def __init__(self, kind, node, key, value=None):
        self.kind, self.node, self.key, self.value = kind, node, key, value


def container_uses(f, is_container):
    """every occurrence of the container in f, classified; (uses, other) where `other` lists non-memo occurrences"""
    uses, claimed, other = [], set(), []
    for n in ast.walk(f):
        if isinstance(n, ast.Compare) and len(n.ops) == 1 and isinstance(n.ops[0], (ast.In, ast.NotIn)) and is_container(n.comparators[0]):
            uses.append(MemoUse("test", n, n.left))
            claimed.add(id(n.comparators[0]))
        elif isinstance(n, ast.Subscript) and is_container(n.value):
            claimed.add(id(n.value))
            if isinstance(n.ctx, ast.Load):
                uses.append(MemoUse("load", n, n.slice))
            elif isinstance(n.ctx, ast.Store):
                uses.append(MemoUse("store", n, n.slice))      # the value is attached by the caller below
            else:
                other.append(n)
        elif isinstance(n, ast.Call) and isinstance(n.func, ast.Attribute) and is_container(n.func.value):
            claimed.add(id(n.func.value))
            a = n.func.attr
            if a == "add" and len(n.args) == 1:
                uses.append(MemoUse("add", n, n.args[0]))
            elif a == "get" and len(n.args) == 1:
                uses.append(MemoUse("load", n, n.args[0]))
            elif a == "setdefault" and len(n.args) == 2:
                uses.append(MemoUse("store", n, n.args[0], n.args[1]))
            else:
                other.append(n)
    for st in ast.walk(f):
        if isinstance(st, ast.Assign) and any(isinstance(t, ast.Subscript) and is_container(t.value) for t in st.targets):
            for u in uses:
                if any(u.node is t for t in st.targets):
                    u.value = st.value
        elif isinstance(st, (ast.AugAssign, ast.Delete)):
            tg = [st.target] if isinstance(st, ast.AugAssign) else st.targets
            for t in tg:
                if isinstance(t, ast.Subscript) and is_container(t.value):
                    other.append(t)
    for n in ast.walk(f):
        if is_container(n) and id(n) not in claimed:
            other.append(n)
    return uses, other


class _Fn:
    """def-use facts of one function body"""

    def __init__(self, f):
        self.f = f
        self.params = {a.arg: a for a in f.args.posonlyargs + f.args.args + f.args.kwonlyargs}
        self.assigns = {}
        for st in ast.walk(f):
            if isinstance(st, ast.Assign):
                for t in st.targets:
                    for tt in (t.elts if isinstance(t, (ast.Tuple, ast.List)) else [t]):
                        if isinstance(tt, ast.Name):
                            self.assigns.setdefault(tt.id, []).append(st.value if not isinstance(t, (ast.Tuple, ast.List)) else ast.Tuple(elts=[st.value], ctx=ast.Load()))
            elif isinstance(st, (ast.AugAssign, ast.AnnAssign)) and isinstance(st.target, ast.Name) and getattr(st, "value", None) is not None:
                self.assigns.setdefault(st.target.id, []).append(st.value)
                if isinstance(st, ast.AugAssign):
                    self.assigns[st.target.id].append(ast.Name(id=st.target.id, ctx=ast.Load()))
            elif isinstance(st, (ast.With, ast.AsyncWith)):
                for it in st.items:
                    if isinstance(it.optional_vars, ast.Name):
                        self.assigns.setdefault(it.optional_vars.id, []).append(it.context_expr)
            elif isinstance(st, (ast.For, ast.AsyncFor, ast.comprehension)):
                for tt in ast.walk(st.target):
                    if isinstance(tt, ast.Name):
                        self.assigns.setdefault(tt.id, []).append(st.iter)
            elif isinstance(st, ast.NamedExpr):
                self.assigns.setdefault(st.target.id, []).append(st.value)
            elif isinstance(st, ast.ExceptHandler) and st.name:
                self.assigns.setdefault(st.name, []).append(ast.Constant(value=None))

    def single(self, name):
        v = self.assigns.get(name, [])
        return v[0] if len(v) == 1 and name not in self.params else None


def key_components(fn: _Fn, key):
    """flatten the key expression into its components (through one local name and tuple displays)"""
    if isinstance(key, ast.Name) and fn.single(key.id) is not None:
        return key_components(fn, fn.single(key.id))
    if isinstance(key, ast.Tuple):
        out = []
        for e in key.elts:
            out.extend(key_components(fn, e))
        return out
    return [key]


def _array_of(n):
    """x for  x.tobytes() / numpy.asarray(x, ...).tobytes();  (x, fixed_dtype)"""
    if isinstance(n, ast.Call) and isinstance(n.func, ast.Attribute) and n.func.attr in ARRAY_BYTES and not n.args:
        inner = n.func.value
        if isinstance(inner, ast.Call) and (dotted_name(inner.func) or "") in ASARRAY and inner.args:
            fixed = len(inner.args) > 1 or any(k.arg == "dtype" for k in inner.keywords)
            return inner.args[0], fixed
        return inner, False
    return None, False


def determined_by(fn: _Fn, comps):
    """(set of dumps of expressions the key determines by content, problems)"""
    det, problems, notes = set(), [], []
    shapes, dtypes, bytes_of = set(), set(), {}
    for c in comps:
        if isinstance(c, ast.Call) and isinstance(c.func, ast.Name) and c.func.id == "id":
            problems.append(f"the key holds id({src(c.args[0]) if c.args else ''}): an address, not the content - the same address names other data after an in-place update, "
                            f"and CPython hands the address of a freed object to the next one")
            continue
        if isinstance(c, ast.Call) and isinstance(c.func, ast.Name) and c.func.id == "hash":
            problems.append(f"the key holds {src(c)}: hashes collide, and hash() of an object without __hash__/__eq__ is its address")
            continue
        if isinstance(c, ast.Call) and isinstance(c.func, ast.Name) and c.func.id in ("repr", "str") and len(c.args) == 1:
            x = c.args[0]
            ann = fn.params.get(x.id).annotation if isinstance(x, ast.Name) and x.id in fn.params else None
            ann_name = (dotted_name(ann.value if isinstance(ann, ast.Subscript) else ann) or "").split(".")[-1] if ann is not None else ""
            if ann_name in PLAIN_ANNOTATIONS:
                det.add(_dump(x))
                notes.append(f"{src(c)} of plain data ({src(x)}: {ann_name}) is taken as its content")
            else:
                problems.append(f"the key holds {src(c)}: the printed form of an object of unknown type need not determine it (arrays print 8 digits and elide long rows)")
            continue
        if isinstance(c, ast.Call) and (dotted_name(c.func) or "") in ("json.dumps", "pickle.dumps", "tuple", "frozenset") and c.args:
            x = c.args[0]
            if isinstance(x, ast.Call) and isinstance(x.func, ast.Attribute) and x.func.attr == "items":
                x = x.func.value
            det.add(_dump(x))
            continue
        arr, fixed = _array_of(c)
        if arr is not None:
            bytes_of[_dump(arr)] = (arr, fixed)
            continue
        if isinstance(c, ast.Attribute) and c.attr == "shape":
            shapes.add(_dump(c.value))
            continue
        if isinstance(c, ast.Call) and (dotted_name(c.func) or "") == "numpy.shape" and c.args:
            shapes.add(_dump(c.args[0]))
            continue
        if isinstance(c, ast.Attribute) and c.attr == "dtype":
            dtypes.add(_dump(c.value))
            continue
        if isinstance(c, ast.Attribute) and c.attr in ("str", "name", "char") and isinstance(c.value, ast.Attribute) and c.value.attr == "dtype":
            dtypes.add(_dump(c.value.value))
            continue
        if isinstance(c, ast.Constant):
            continue
        if _unit(c) is not None:
            det.add(_dump(c))            # a value used as (part of) a dictionary key: compared and hashed by value
            continue
        problems.append(f"key component {src(c)} is not a form this analysis reads as content")
    for d, (arr, fixed) in bytes_of.items():
        if d in shapes and (fixed or d in dtypes):
            det.add(d)
            notes.append(f"{src(arr)}: shape, element type and bytes are in the key")
        else:
            missing = [w for w, ok in (("shape", d in shapes), ("element type", fixed or d in dtypes)) if not ok]
            problems.append(f"the key holds the bytes of {src(arr)} without its {' and '.join(missing)}: arrays of different {' / '.join(missing)} share those bytes")
    return det, problems, notes


PROPERTY_DECORATORS = {"property", "LazyProperty", "cached_property", "lazy_property", "functools.cached_property"}


def _first_self_attr(n):
    """X for self.X....;  None otherwise"""
    x = n
    while isinstance(x, (ast.Attribute, ast.Subscript)):
        if isinstance(x, ast.Attribute) and isinstance(x.value, ast.Name) and x.value.id == "self":
            return x.attr
        x = x.value
    return None


def reads_of(fn: _Fn, exprs, det, container_pred, mod_level, mod=None, cname=None):
    """terminal quantities the expressions read, after expanding local names through their assignments and properties of the same class through
    their bodies; expressions in `det` (and parts of them) are not expanded"""
    import builtins
    out, seen = [], set()
    todo = [(e, fn) for e in exprs]
    expanded_props = set()
    while todo:
        e, cur = todo.pop()
        for n in _top_units(e, container_pred):
            d = (_dump(n), id(cur))
            if d in seen:
                continue
            seen.add(d)
            if _covered(n, det):
                continue
            root = _unit(n)
            if root is None:
                out.append(n)
                continue
            nm = root.id
            if nm == "self" and mod is not None and cname:
                attr = _first_self_attr(n)
                g = mod.funcs.get(f"{cname}.{attr}") if attr else None
                if g is not None and any((dotted_name(dd.func if isinstance(dd, ast.Call) else dd) or "").split(".")[-1] in
                                         {x.split(".")[-1] for x in PROPERTY_DECORATORS} for dd in g.decorator_list):
                    if attr not in expanded_props:
                        expanded_props.add(attr)
                        gfn = _Fn(g)
                        todo.extend((st, gfn) for st in g.body if not (isinstance(st, ast.Expr) and isinstance(st.value, ast.Constant)))
                    continue
            if nm in cur.assigns and nm not in cur.params:
                todo.extend((v, cur) for v in cur.assigns[nm])
                continue
            if nm in cur.params:
                out.append(n)
                continue
            if nm in mod_level or hasattr(builtins, nm):
                continue
            out.append(n)
    return out


def _covered(n, det):
    """n is a determined expression or a part of one (config["a"] when config is determined)"""
    x = n
    while True:
        if _dump(x) in det:
            return True
        if isinstance(x, (ast.Attribute, ast.Subscript)):
            x = x.value
        else:
            return False


def _top_units(e, container_pred):
    """maximal name-rooted access chains that are LOADED in e (comprehension / lambda variables excluded)"""
    bound = set()
    for n in ast.walk(e):
        if isinstance(n, ast.comprehension):
            bound |= {t.id for t in ast.walk(n.target) if isinstance(t, ast.Name)}
        elif isinstance(n, ast.Lambda):
            bound |= {a.arg for a in n.args.args}
    out = []

    def visit(n):
        if isinstance(n, (ast.Attribute, ast.Subscript, ast.Name)):
            if container_pred(n):
                return
            r = _unit(n)
            if r is not None:
                if r.id not in bound:
                    # a method call x.y.f(...) reads x.y, not the bound method
                    out.append(n)
                return
        if isinstance(n, ast.Call) and isinstance(n.func, ast.Attribute):
            visit(n.func.value)
            for a in n.args:
                visit(a)
            for k in n.keywords:
                visit(k.value)
            return
        for c in ast.iter_child_nodes(n):
            visit(c)
    visit(e)
    return out


def _ambient_call(mod, e):
    for n in ast.walk(e):
        if isinstance(n, (ast.Call, ast.Attribute)):
            name = dotted_name(n.func if isinstance(n, ast.Call) else n) or ""
            if any(name.startswith(a) or name == a.rstrip(".") for a in AMBIENT):
                return name
            if isinstance(n, ast.Call) and name in ("open", "io.open"):
                a0 = n.args[0] if n.args else None
                if not (isinstance(a0, ast.Call) and (dotted_name(a0.func) or "").endswith("get_data_fname") and all(isinstance(x, ast.Constant) for x in a0.args)):
                    return name + "() of a file that is not packaged data"
    return None


def _guarded_statements(f, uses):
    """statements whose execution depends on a membership test of the memo: the test's branches and, when a branch leaves the function,
    everything after the `if` in the enclosing block"""
    tests = {id(u.node) for u in uses if u.kind == "test"}
    out = []

    def block(stmts):
        for i, st in enumerate(stmts):
            if isinstance(st, ast.If) and any(id(n) in tests for n in ast.walk(st.test)):
                out.extend(st.body)
                out.extend(st.orelse)
                leaves = lambda b: bool(b) and isinstance(b[-1], (ast.Return, ast.Raise, ast.Continue, ast.Break))
                if leaves(st.body) or leaves(st.orelse):
                    out.extend(stmts[i + 1:])
            for fld in ("body", "orelse", "finalbody"):
                sub = getattr(st, fld, None)
                if isinstance(sub, list) and sub and isinstance(sub[0], ast.stmt):
                    block(sub)
            for h in getattr(st, "handlers", []) or []:
                block(h.body)
    block(f.body)
    return out


def stamped_entries(fn: _Fn, f, uses):
    """entries of the form (stamp, value...) that are used only after `entry[0]` has been compared with the stamp of the current call:

        hit = M.get(k)                      (or M[k])
        if hit is None or hit[0] != stamp:  hit = M[k] = (stamp, <computed>)
        ... hit[1] ...

    The look-up key k then only chooses the slot; what decides whether a stored value is used is the stamp.  Returns (stamp expression, value expressions)
    when every store and every consulted entry has this form, else None."""
    stores = [u for u in uses if u.kind == "store"]
    loads = [u for u in uses if u.kind == "load"]
    if not stores or not loads or any(u.kind in ("test", "add") for u in uses):
        return None
    if not all(isinstance(u.value, ast.Tuple) and len(u.value.elts) >= 2 for u in stores):
        return None
    resolve = lambda e: _dump(fn.single(e.id)) if isinstance(e, ast.Name) and fn.single(e.id) is not None else _dump(e)
    stamps = {resolve(u.value.elts[0]) for u in stores}
    if len(stamps) != 1:
        return None
    # locals that hold an entry: bound from a load of the container or from the stored tuple itself
    entry_locals = set()
    for st in ast.walk(f):
        if isinstance(st, ast.Assign):
            names = [t.id for t in st.targets if isinstance(t, ast.Name)]
            if not names:
                continue
            if any(st.value is u.node for u in loads) or any(any(t is u.node for t in st.targets) for u in stores):
                entry_locals |= set(names)
    if not entry_locals:
        return None
    # every load must be bound to such a local (not used in place)
    bound_loads = {id(st.value) for st in ast.walk(f) if isinstance(st, ast.Assign) and any(isinstance(t, ast.Name) for t in st.targets)}
    if any(id(u.node) not in bound_loads for u in loads):
        return None
    # the validating branch: `if <entry> is None or <entry>[0] != stamp:` whose body rebinds the entry local from a store
    validated = set()
    for st in ast.walk(f):
        if not isinstance(st, ast.If):
            continue
        parts = st.test.values if isinstance(st.test, ast.BoolOp) and isinstance(st.test.op, ast.Or) else [st.test]
        for c in parts:
            if isinstance(c, ast.Compare) and len(c.ops) == 1 and isinstance(c.ops[0], ast.NotEq) and isinstance(c.left, ast.Subscript) \
                    and isinstance(c.left.value, ast.Name) and c.left.value.id in entry_locals and isinstance(c.left.slice, ast.Constant) and c.left.slice.value == 0 \
                    and resolve(c.comparators[0]) in stamps:
                rebinds = any(isinstance(b, ast.Assign) and any(isinstance(t, ast.Name) and t.id == c.left.value.id for t in b.targets)
                              and any(any(t is u.node for t in b.targets) for u in stores) for b in st.body)
                if rebinds and not st.orelse:
                    validated.add(c.left.value.id)
    if validated != entry_locals:
        return None
    stamp = stores[0].value.elts[0]
    values = [e for u in stores for e in u.value.elts[1:]]
    return stamp, values


def analyse(mod, q, f, is_container, uses_elsewhere):
    """verdict for one container written in function f (qualname q).  `uses_elsewhere`: occurrences of the container outside f"""
    fn = _Fn(f)
    mod_level = set(mod.globals) | set(mod.imports) | set(mod.classes) | {x for x in mod.funcs if "." not in x}
    uses, other = container_uses(f, is_container)
    if uses_elsewhere:
        return None, f"the container is also used in {uses_elsewhere[0]}"
    if other:
        return None, f"use that is not of memo form: {src(other[0])[:60]}"
    writes = [u for u in uses if u.kind in ("store", "add")]
    if not writes or not any(u.kind in ("test", "load") for u in uses):
        return None, "written but never consulted here"
    keys = {_dump(ast.Tuple(elts=key_components(fn, u.key), ctx=ast.Load())) for u in uses}
    if len(keys) != 1:
        return None, "the container is addressed with more than one key expression"
    comps = key_components(fn, uses[0].key)
    key_name = uses[0].key.id if isinstance(uses[0].key, ast.Name) else None
    stamped = stamped_entries(fn, f, uses)
    if stamped is not None:
        # the slot is chosen by the look-up key, the entry is used only when its stamp equals the stamp of this call: the stamp is the key that matters
        comps = key_components(fn, stamped[0])
        key_name = stamped[0].id if isinstance(stamped[0], ast.Name) else None
    det, problems, notes = determined_by(fn, comps)
    if stamped is not None:
        notes.append("entries carry a stamp that is compared before an entry is used; a stale entry is replaced")
    # what the memoised computation reads
    guarded = _guarded_statements(f, uses)
    exprs = []
    for u in writes:
        if u.kind == "store":
            if u.value is None:
                return None, "store whose value could not be located"
            if stamped is None:
                exprs.append(u.value)
    if stamped is not None:
        exprs.extend(stamped[1])
    is_set = all(u.kind == "add" for u in writes)
    if is_set or guarded:
        # the outcome of everything that a hit skips (raising or not, values returned) must be a function of the key as well
        region = guarded if guarded else []
        if is_set and not guarded:
            return None, "a set that is filled but whose membership decides nothing"
        for st in region:
            for n in ast.walk(st):
                if isinstance(n, (ast.Assign, ast.AugAssign, ast.AnnAssign)):
                    tg = n.targets if isinstance(n, ast.Assign) else [n.target]
                    for t in tg:
                        if not isinstance(t, (ast.Attribute, ast.Subscript)) or is_container(t.value):
                            continue
                        names = {x.id for x in ast.walk(t.value) if isinstance(x, ast.Name)}
                        shared = sorted(x for x in names if x in fn.params or (x not in fn.assigns and x not in mod_level and x not in ("numpy",)))
                        if shared:
                            return "harmful", (f"a hit skips (and a miss performs) the store {src(t)[:50]} = ...: the effect of the call on state it does not own "
                                               f"depends on what was memoised earlier")
                        from .effects import is_fresh_expr
                        stale = sorted(x for x in names if x in fn.assigns and not all(is_fresh_expr(v) for v in fn.assigns[x]))
                        if stale:
                            return None, f"store through the local {stale[0]}, which may alias state the function does not own"
                elif isinstance(n, ast.Call) and isinstance(n.func, ast.Attribute) and n.func.attr in MUTATORS and not is_container(n.func.value) \
                        and not (dotted_name(n.func.value) or "").split(".")[0] in mod.imports:
                    root = _unit(n.func.value)
                    if root is not None and (root.id in fn.params or root.id in ("self", "cls")):
                        return "harmful", f"a hit skips (or a miss performs) {src(n)[:60]}: an update of other state"
                elif isinstance(n, (ast.Global, ast.Nonlocal)):
                    return None, "global / nonlocal inside the memoised region"
            if isinstance(st, ast.Expr) or isinstance(st, (ast.With, ast.Try, ast.If, ast.For, ast.While, ast.Raise, ast.Assert)):
                exprs.append(st)
            elif isinstance(st, ast.Return) and st.value is not None:
                exprs.append(st.value)
            elif isinstance(st, (ast.Assign, ast.AugAssign, ast.AnnAssign)) and getattr(st, "value", None) is not None:
                exprs.append(st.value)
    for e in exprs:
        amb = _ambient_call(mod, e)
        if amb:
            problems.append(f"the memoised computation uses {amb}: not a function of the key")
    if key_name:
        det = det | {_dump(ast.Name(id=key_name, ctx=ast.Load()))}
    undetermined = reads_of(fn, exprs, det, is_container, mod_level, mod, q.split('.')[0] if '.' in q else None)
    und = sorted({src(n) for n in undetermined})
    # `cls` / the class itself is a constant of the program
    und = [u for u in und if u not in ("cls",) and not u.startswith("cls.")]
    if und:
        problems.append(f"the memoised computation reads {', '.join(und[:4])}, which the key ({', '.join(src(c) for c in comps)}) does not determine: "
                        f"a later call with the same key and other {und[0]} gets the earlier result")
    if problems:
        return "harmful", "; ".join(problems)
    return "benign", {"key": [src(c) for c in comps], "determined": sorted(notes), "memoised_expressions": len(exprs),
                      "assumptions": "key components hash and compare by value; called functions are functions of their arguments (ambient sources excluded)"}
