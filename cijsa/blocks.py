"""Loops that work through a grid axis in blocks.

    for i in range(K):                      rows = slice(i * b, (i + 1) * b);   out[rows] = f(x[rows])
    for rows in numpy.array_split(numpy.arange(L), S):                          out[rows] = f(x[rows])

The folder's arrays are elementwise over the grid (every cell is an expression over the grid point), so the body of such a loop is
folded ONCE, with `x[rows]` read as x and `out[rows] = v` as out = v - provided the blocks cover the axis exactly once.  That is a
statement about integer arithmetic of the loop bounds only, and it is decided here:

  * a counter-example (an axis length and block size for which rows are left out, or for which the library call raises) is found
    by evaluating the bound expressions on a box of integers; the witness is exact and is reported;
  * the family is accepted when the number of blocks is ceil(L / b) (possibly max(1, .)) - recognised structurally or, for other
    spellings of it (-(-L // b), (L + b - 1) // b, ...), by agreement with ceil(L / b) on the whole box [1, 240] x [1, 48] - the
    second route is an identification of two floor/ceiling expressions on a box, not a proof, and is named in the evidence;
  * anything else is not decided (analysis error).
"""
from __future__ import annotations

import itertools

import sympy as sp

from .report import AnalysisError

L_BOX = list(range(1, 241))
B_BOX = list(range(1, 49)) + [64, 100, 1000]


class BlockLoop:
    """for i in range(K): the loop variable of a loop whose trip count depends on the grid"""

    def __init__(self, sym, count):
        self.sym, self.count = sym, sp.sympify(count)


class BlockRows:
    """one piece of numpy.array_split(numpy.arange(L), S): an index vector along an axis of length L"""

    def __init__(self, length, sections):
        self.length, self.sections = sp.sympify(length), sp.sympify(sections)


def _atoms(e):
    """the integer unknowns of a bound expression: symbols and opaque applications (LEN(x), dim0 ...)"""
    e = sp.sympify(e)
    out = set(e.free_symbols)
    for f in e.atoms(sp.Function):
        if type(f).__name__ not in ("floor", "ceiling", "Max", "Min", "Abs", "Mod") and not isinstance(f, (sp.floor, sp.ceiling, sp.Max, sp.Min, sp.Abs, sp.Mod)):
            out.add(f)
    return out


def _opaque_to_symbols(exprs):
    """replace opaque applications by fresh positive integer symbols (consistently over the expressions)"""
    table = {}
    for e in exprs:
        for f in sp.sympify(e).atoms(sp.Function):
            if not isinstance(f, (sp.floor, sp.ceiling, sp.Max, sp.Min, sp.Abs, sp.Mod)) and f not in table:
                table[f] = sp.Symbol(f"ATOM{len(table)}", positive=True, integer=True)
    return [sp.sympify(e).xreplace(table) for e in exprs], table


_COMPILED = {}


def _ev(e, env):
    """exact integer value of a bound expression (floor / ceiling / max / min / + - * / over the integers) at an integer point"""
    import math
    from fractions import Fraction
    key = id(e)
    hit = _COMPILED.get(key)
    if hit is None or hit[0] is not e:
        e_ = sp.sympify(e)
        syms = tuple(sorted(e_.free_symbols, key=str))
        fn = sp.lambdify(syms, e_, modules=[{"floor": math.floor, "ceiling": math.ceil, "Max": max, "Min": min, "Abs": abs}, "math"])
        hit = (e, syms, fn)             # the expression object is kept, so its id stays its own
        _COMPILED[key] = hit
    _, syms, fn = hit
    try:
        v = fn(*[Fraction(int(env[s_])) for s_ in syms])
    except KeyError as ke:
        raise AnalysisError(f"block-loop bound {e} has an unknown {ke} that is not enumerated")
    return math.floor(v)


def check_slices(loop: BlockLoop, lo, hi):
    """blocks [lo(i), hi(i)) for i < K along an axis whose length is the unknown the trip count is computed from.
    Returns (ok, note) or raises AnalysisError when undecided; a counter-example is returned as (False, text)."""
    (K, lo, hi), table = _opaque_to_symbols([loop.count, lo, hi])
    i = loop.sym
    size = sp.simplify(hi - lo)
    if i in size.free_symbols:
        raise AnalysisError("block loop: the block size depends on the block index")
    if sp.simplify(lo.subs(i, 0)) != 0 or sp.simplify(lo.subs(i, i + 1) - hi) != 0:
        raise AnalysisError("block loop: blocks are not [i*b, (i+1)*b)")
    length_syms = sorted((K.free_symbols - size.free_symbols) - {i}, key=str)
    if len(length_syms) != 1:
        raise AnalysisError(f"block loop: cannot tell which unknown is the length of the blocked axis (candidates {length_syms})")
    Ls = length_syms[0]
    others = sorted((K.free_symbols | size.free_symbols) - {Ls, i}, key=str)
    if len(others) > 2:
        raise AnalysisError("block loop: too many unknowns in the bounds")
    # 1. counter-example search (exact); of all witnesses on the box the one with the shortest axis is reported
    best = None
    for vals in itertools.product(B_BOX, repeat=len(others)):
        env0 = dict(zip(others, vals))
        b = _ev(size, env0) if not size.free_symbols - set(others) else None
        for Lv in L_BOX + ([3 * b + 1, 7 * b + 3] if b else []):
            if best is not None and Lv >= best[0]:
                break
            env = dict(env0)
            env[Ls] = Lv
            k = _ev(K, env)
            bb = _ev(size, env)
            if bb < 1:
                return False, f"block size {bb} for axis length {Lv}" + (f", {env0}" if env0 else "")
            if k * bb < Lv:
                back = {v: kname for kname, v in table.items()}
                shown = ", ".join(f"{back.get(s_, s_)} = {v_}" for s_, v_ in env.items())
                best = (Lv, f"with {shown} the loop runs {k} time(s) over blocks of {bb} row(s): rows {k * bb} to {Lv - 1} of the axis are never processed")
                break
    if best is not None:
        return False, best[1]
    # 2. acceptance: the trip count is ceil(L / b) (or max(1, that)) on the whole box
    ceil = sp.ceiling(Ls / size)
    for cand, name in ((ceil, "ceil(L/b)"), (sp.Max(1, ceil), "max(1, ceil(L/b))")):
        if sp.simplify(K - cand) == 0:
            return True, f"trip count is {name} (structural)"
    for cand, name in ((ceil, "ceil(L/b)"), (sp.Max(1, ceil), "max(1, ceil(L/b))")):
        same = True
        for vals in itertools.product(B_BOX, repeat=len(others)):
            env0 = dict(zip(others, vals))
            for Lv in L_BOX:
                env = dict(env0)
                env[Ls] = Lv
                if _ev(K, env) != _ev(cand, env):
                    same = False
                    break
            if not same:
                break
        if same:
            return True, f"trip count agrees with {name} on the box L in [1, 240], other unknowns in [1, 48] + {{64, 100, 1000}} (identification on a box, not a proof)"
    raise AnalysisError(f"block loop: trip count {loop.count} neither refuted nor recognised as ceil(L/b)")


def check_sections(rows: BlockRows):
    """numpy.array_split(arange(L), S) needs S >= 1 (it raises ValueError otherwise); the pieces always cover 0..L-1 exactly once"""
    (S, Lx), table = _opaque_to_symbols([rows.sections, rows.length])
    syms = sorted(S.free_symbols | Lx.free_symbols, key=str)
    if len(syms) > 3:
        raise AnalysisError("array_split: too many unknowns")
    back = {v: kname for kname, v in table.items()}
    small = list(range(1, 41)) + [64, 100, 1000]
    for vals in itertools.product(small, repeat=len(syms)):
        env = dict(zip(syms, vals))
        if _ev(S, env) < 1:
            shown = ", ".join(f"{back.get(s_, s_)} = {v_}" for s_, v_ in env.items())
            return False, f"with {shown} numpy.array_split is asked for {_ev(S, env)} sections: ValueError (number sections must be larger than 0)"
    if isinstance(S, sp.Max) and any(a.is_number and a >= 1 for a in S.args):
        return True, "number of sections is max(1, .)"
    if isinstance(S, sp.ceiling) or S.is_number:
        return True, "number of sections is a ceiling of a positive quotient / a positive constant"
    return True, "number of sections >= 1 on the box [1, 40] + {64, 100, 1000} for every unknown (checked on a box, not proved)"
