"""E6 — syntax-directed flow analyses over the statement kinds the repository uses:
must-pass-through (calls executed on every path to a normal return), guard extraction
(path condition of a raise), definite assignment, enclosing try blocks."""
from __future__ import annotations

import ast

from .model import dotted_name, src, body_wo_doc


# ------------------------------------------------------------------ calls in evaluation order
def must_calls_in_expr(node) -> list[str]:
    """dotted names of calls certainly evaluated when `node` is evaluated (short-circuit aware)"""
    out = []

    def visit(n):
        if isinstance(n, ast.BoolOp):
            visit(n.values[0])
            return
        if isinstance(n, ast.IfExp):
            visit(n.test)
            return
        if isinstance(n, (ast.Lambda, ast.ListComp, ast.SetComp, ast.DictComp, ast.GeneratorExp)):
            if not isinstance(n, ast.Lambda):
                visit(n.generators[0].iter)
            return
        if isinstance(n, ast.Call):
            for c in ast.iter_child_nodes(n):
                visit(c)
            name = dotted_name(n.func)
            if name:
                out.append(name)
            return
        for c in ast.iter_child_nodes(n):
            visit(c)

    visit(node)
    return out


class MustPass:
    """ordered list of calls executed on every path reaching each `return` (and the end)"""

    def __init__(self, fd):
        self.returns = []   # (Return node | None for fall-off, [call names in order])
        falls, must = self.block(body_wo_doc(fd), [])
        if falls:
            self.returns.append((None, must))

    def block(self, stmts, must):
        must = list(must)
        for st in stmts:
            falls, must = self.stmt(st, must)
            if not falls:
                return False, must
        return True, must

    def stmt(self, st, must):
        if isinstance(st, ast.Return):
            m = must + (must_calls_in_expr(st.value) if st.value is not None else [])
            self.returns.append((st, m))
            return False, m
        if isinstance(st, ast.Raise):
            return False, must
        if isinstance(st, (ast.Continue, ast.Break)):
            return False, must
        if isinstance(st, ast.If):
            m0 = must + must_calls_in_expr(st.test)
            f1, m1 = self.block(st.body, m0)
            f2, m2 = self.block(st.orelse, m0)
            if f1 and f2:
                common = [c for c in m1 if c in m2]
                return True, common
            if f1:
                return True, m1
            if f2:
                return True, m2
            return False, m0
        if isinstance(st, (ast.For, ast.While)):
            m0 = must + must_calls_in_expr(st.iter if isinstance(st, ast.For) else st.test)
            self.block(st.body, m0)      # returns inside the loop are recorded
            f, m = self.block(st.orelse, m0)
            return True, m0 if f else m0
        if isinstance(st, ast.With):
            m0 = list(must)
            for it in st.items:
                m0 += must_calls_in_expr(it.context_expr)
            return self.block(st.body, m0)
        if isinstance(st, ast.Try):
            f, m = self.block(st.body, must)
            for h in st.handlers:
                self.block(h.body, must)
            f2, m2 = self.block(st.finalbody, must)
            # an exception may skip the rest of the body: only what preceded the try is certain
            return True, m2 if st.handlers else (m if f else must)
        if isinstance(st, (ast.FunctionDef, ast.ClassDef, ast.Import, ast.ImportFrom, ast.Pass, ast.Global, ast.Nonlocal)):
            return True, must
        m = list(must)
        for c in ast.iter_child_nodes(st):
            if isinstance(c, ast.expr):
                m += must_calls_in_expr(c)
        return True, m


# ------------------------------------------------------------------ guards
def raises_with_guards(fd):
    """[(Raise node, [(test expr, polarity)] conjunction of enclosing branch conditions)]
    Early exits (`if c: return/raise/continue`) before a raise in the same block contribute (c, False)."""
    out = []

    def terminates(stmts):
        return bool(stmts) and isinstance(stmts[-1], (ast.Return, ast.Raise, ast.Continue, ast.Break))

    def block(stmts, conds):
        conds = list(conds)
        for st in stmts:
            if isinstance(st, ast.Raise):
                out.append((st, list(conds)))
                return
            if isinstance(st, ast.If):
                block(st.body, conds + [(st.test, True)])
                block(st.orelse, conds + [(st.test, False)])
                if terminates(st.body) and not terminates(st.orelse):
                    conds.append((st.test, False))
                elif terminates(st.orelse) and not terminates(st.body) and st.orelse:
                    conds.append((st.test, True))
            elif isinstance(st, (ast.For, ast.While)):
                block(st.body, conds)
                block(st.orelse, conds)
            elif isinstance(st, ast.With):
                block(st.body, conds)
            elif isinstance(st, ast.Try):
                block(st.body, conds)
                for h in st.handlers:
                    block(h.body, conds)
                block(st.orelse, conds)
                block(st.finalbody, conds)

    block(body_wo_doc(fd), [])
    return out


def enclosing_handlers(fd, target) -> list:
    """except-handlers of try blocks of `fd` whose body contains `target`"""
    hs = []
    for n in ast.walk(fd):
        if isinstance(n, ast.Try):
            for b in n.body:
                if any(x is target for x in ast.walk(b)):
                    hs.extend(n.handlers)
    return hs


# ------------------------------------------------------------------ definite assignment
class DefiniteAssignment:
    """forward must-analysis: reports local names that may be read before being bound.
    Scope: one function; names bound by parameters, assignments, for/with targets, imports,
    nested defs, comprehension variables (own scope), except-as; `global`/`nonlocal` names and
    names never bound locally are not locals and are skipped."""

    def __init__(self, fd, exhaustive=None, nonempty=None, search_hits=None):
        """exhaustive(list of test nodes of an if/elif chain without else) -> True when the domain of the function guarantees
        that one branch is taken; nonempty(iter node of a for loop) -> True when the domain guarantees at least one iteration;
        search_hits(for node) -> True when the domain guarantees that this search loop is left through one of its `break`s"""
        self.fd = fd
        self.exhaustive, self.nonempty, self.search_hits = exhaustive, nonempty, search_hits
        self.locals = self.collect_locals(fd)
        self.problems = []      # (name, node, path description)
        params = {a.arg for a in fd.args.posonlyargs + fd.args.args + fd.args.kwonlyargs}
        if fd.args.vararg:
            params.add(fd.args.vararg.arg)
        if fd.args.kwarg:
            params.add(fd.args.kwarg.arg)
        self.block(fd.body, set(params), [])

    @staticmethod
    def collect_locals(fd):
        names, skip = set(), set()

        def targets(t):
            if isinstance(t, ast.Name):
                names.add(t.id)
            elif isinstance(t, (ast.Tuple, ast.List)):
                for e in t.elts:
                    targets(e)
            elif isinstance(t, ast.Starred):
                targets(t.value)

        def walk(n):
            for c in ast.iter_child_nodes(n):
                if isinstance(c, (ast.FunctionDef, ast.AsyncFunctionDef, ast.ClassDef)):
                    names.add(c.name)
                    continue
                if isinstance(c, ast.Lambda):
                    continue
                if isinstance(c, (ast.ListComp, ast.SetComp, ast.DictComp, ast.GeneratorExp)):
                    continue
                if isinstance(c, (ast.Global, ast.Nonlocal)):
                    skip.update(c.names)
                if isinstance(c, ast.Assign):
                    for t in c.targets:
                        targets(t)
                if isinstance(c, (ast.AugAssign, ast.AnnAssign)):
                    targets(c.target)
                if isinstance(c, ast.NamedExpr):
                    targets(c.target)
                if isinstance(c, (ast.For, ast.AsyncFor)):
                    targets(c.target)
                if isinstance(c, (ast.With, ast.AsyncWith)):
                    for it in c.items:
                        if it.optional_vars is not None:
                            targets(it.optional_vars)
                if isinstance(c, (ast.Import, ast.ImportFrom)):
                    for a in c.names:
                        names.add((a.asname or a.name).split(".")[0])
                if isinstance(c, ast.ExceptHandler) and c.name:
                    names.add(c.name)
                walk(c)

        walk(fd)
        return names - skip

    def reads(self, node, bound, path):
        """check Name loads inside an expression/statement header; names bound by `:=` inside the expression are bound from then
        on (in evaluation order for the common shapes: the walrus is evaluated before what follows it in the same expression)"""
        if node is None:
            return
        walrus = [w.target.id for w in ast.walk(node) if isinstance(w, ast.NamedExpr) and isinstance(w.target, ast.Name)]
        if walrus and isinstance(bound, set):
            self._reads(node, bound | set(walrus), path)
            bound.update(walrus)
            return
        self._reads(node, bound, path)

    def _reads(self, node, bound, path):

        def visit(n, extra):
            if isinstance(n, ast.Name) and isinstance(n.ctx, ast.Load):
                if n.id in self.locals and n.id not in bound and n.id not in extra and not self.bound_under_facts(n.id, bound):
                    self.problems.append((n.id, n, " -> ".join(path) or "entry"))
                return
            if isinstance(n, (ast.ListComp, ast.SetComp, ast.DictComp, ast.GeneratorExp)):
                ex = set(extra)
                for g in n.generators:
                    visit(g.iter, ex)
                    for t in ast.walk(g.target):
                        if isinstance(t, ast.Name):
                            ex.add(t.id)
                    for c in g.ifs:
                        visit(c, ex)
                if isinstance(n, ast.DictComp):
                    visit(n.key, ex)
                    visit(n.value, ex)
                else:
                    visit(n.elt, ex)
                return
            if isinstance(n, ast.Lambda):
                ex = set(extra) | {a.arg for a in n.args.args + n.args.kwonlyargs}
                # a lambda body runs later: names bound anywhere in the function are acceptable
                return
            if isinstance(n, (ast.FunctionDef, ast.AsyncFunctionDef, ast.ClassDef)):
                return
            for c in ast.iter_child_nodes(n):
                visit(c, extra)

        visit(node, set())

    # ---- correlated conditions.  Besides names, the set carries ("fact", test text, names in it) for every `if` test known to hold on
    # the current path, and ("cond", name, test text, names) = "name is bound whenever that test held".  Both are intersected at merges like
    # names (so they survive only where they hold on every path) and dropped as soon as a name they mention is bound again.  A store into
    # a column of a table, `t[<str>] = ...` / `t.loc[:, <str>] = ...`, binds the pseudo-name "col:<t>:<str>", which is what the test
    # `<str> in t.columns` asks for.
    @staticmethod
    def _names_in(node):
        return frozenset(x.id for x in ast.walk(node) if isinstance(x, ast.Name))

    @staticmethod
    def invalidate(bound, names):
        names = set(names)
        for item in [i for i in bound if isinstance(i, tuple) and (i[-1] & names)]:
            bound.discard(item)
        for item in [i for i in bound if isinstance(i, str) and i.startswith("col:") and i.split(":")[1] in names]:
            bound.discard(item)

    def holds(self, text, bound, depth=0):
        if any(isinstance(i, tuple) and i[0] == "fact" and i[1] == text for i in bound):
            return True
        if depth > 3:
            return False
        try:
            t = ast.parse(text, mode="eval").body
        except SyntaxError:
            return False
        if isinstance(t, ast.Compare) and len(t.ops) == 1 and isinstance(t.ops[0], ast.In) and isinstance(t.left, ast.Constant) and isinstance(t.left.value, str) \
                and isinstance(t.comparators[0], ast.Attribute) and t.comparators[0].attr == "columns" and isinstance(t.comparators[0].value, ast.Name):
            return self.bound_under_facts(f"col:{t.comparators[0].value.id}:{t.left.value}", bound, depth + 1)
        return False

    def bound_under_facts(self, name, bound, depth=0):
        if name in bound:
            return True
        return any(isinstance(i, tuple) and i[0] == "cond" and i[1] == name and self.holds(i[2], bound, depth) for i in bound)

    @staticmethod
    def _column_store(t):
        """t[<str>] = ... or t.loc[:, <str>] = ...  ->  pseudo-name"""
        if isinstance(t, ast.Subscript) and isinstance(t.value, ast.Name) and isinstance(t.slice, ast.Constant) and isinstance(t.slice.value, str):
            return f"col:{t.value.id}:{t.slice.value}"
        if isinstance(t, ast.Subscript) and isinstance(t.value, ast.Attribute) and t.value.attr == "loc" and isinstance(t.value.value, ast.Name) \
                and isinstance(t.slice, ast.Tuple) and len(t.slice.elts) == 2 and isinstance(t.slice.elts[1], ast.Constant) and isinstance(t.slice.elts[1].value, str) \
                and isinstance(t.slice.elts[0], ast.Slice) and t.slice.elts[0].lower is None and t.slice.elts[0].upper is None:
            return f"col:{t.value.value.id}:{t.slice.elts[1].value}"
        return None

    def bind(self, t, bound):
        if isinstance(t, ast.Name):
            self.invalidate(bound, {t.id})
            bound.add(t.id)
        elif self._column_store(t):
            bound.add(self._column_store(t))
        elif isinstance(t, (ast.Tuple, ast.List)):
            for e in t.elts:
                self.bind(e, bound)
        elif isinstance(t, ast.Starred):
            self.bind(t.value, bound)

    def block(self, stmts, bound, path):
        """returns (falls_through, bound set at fall-through)"""
        for st in stmts:
            falls, bound = self.stmt(st, bound, path)
            if not falls:
                return False, bound
        return True, bound

    def _if(self, st, bound, path, chain):
        """an if / elif chain; `chain` = the tests of the links above this one"""
        self.reads(st.test, bound, path)
        chain = chain + [st.test]
        t = src(st.test)[:60]
        full, tn = src(st.test), self._names_in(st.test)
        simple = not any(isinstance(x, (ast.Call, ast.NamedExpr, ast.Await, ast.Yield)) for x in ast.walk(st.test))
        f1, b1 = self.block(st.body, (set(bound) | {("fact", full, tn)}) if simple else bound, path + [f"({t}) true"])
        if simple and not (tn & self._assigned_in(st.body)):
            # whatever the taken branch binds is bound whenever the test held (as long as nothing the test mentions is re-bound)
            for nm in [i for i in b1 if isinstance(i, str) and i not in bound]:
                b1.add(("cond", nm, full, tn))
        cond_items = {i for i in b1 if isinstance(i, tuple) and i[0] == "cond" and i[2] == full} if simple else set()
        if len(st.orelse) == 1 and isinstance(st.orelse[0], ast.If):
            f2, b2 = self._if(st.orelse[0], bound, path + [f"({t}) false"], chain)
        elif not st.orelse and self.exhaustive is not None and self.exhaustive(chain):
            f2, b2 = False, bound         # the function's domain guarantees that one link of the chain is taken
        else:
            f2, b2 = self.block(st.orelse, bound, path + [f"({t}) false"])
        if f1 and f2:
            return True, (b1 & b2) | {i for i in cond_items if not (i[-1] & self._assigned_in(st.orelse))}
        if f1:
            return True, b1
        if f2:
            return True, b2
        return False, bound

    @staticmethod
    def _assigned_in(stmts):
        out = set()
        for st in stmts:
            for x in ast.walk(st):
                if isinstance(x, ast.Name) and isinstance(x.ctx, (ast.Store, ast.Del)):
                    out.add(x.id)
                elif isinstance(x, (ast.FunctionDef, ast.ClassDef)):
                    out.add(x.name)
                elif isinstance(x, (ast.Import, ast.ImportFrom)):
                    out.update((a.asname or a.name).split(".")[0] for a in x.names)
        return out

    def stmt(self, st, bound, path):
        falls, out = self._stmt(st, bound, path)
        if isinstance(st, (ast.For, ast.AsyncFor, ast.While, ast.Try, ast.With, ast.AsyncWith)):
            # facts established before a compound statement do not survive a re-binding anywhere inside it
            self.invalidate(out, self._assigned_in([st]))
        return falls, out

    def _stmt(self, st, bound, path):
        bound = set(bound)
        if isinstance(st, (ast.FunctionDef, ast.AsyncFunctionDef, ast.ClassDef)):
            bound.add(st.name)
            return True, bound
        if isinstance(st, (ast.Import, ast.ImportFrom)):
            for a in st.names:
                bound.add((a.asname or a.name).split(".")[0])
            return True, bound
        if isinstance(st, ast.Assign):
            self.reads(st.value, bound, path)
            for t in st.targets:
                if not isinstance(t, (ast.Name, ast.Tuple, ast.List)):
                    self.reads(t, bound, path)
                self.bind(t, bound)
            return True, bound
        if isinstance(st, ast.AnnAssign):
            self.reads(st.value, bound, path)
            if st.value is not None:
                self.bind(st.target, bound)
            return True, bound
        if isinstance(st, ast.AugAssign):
            self.reads(st.value, bound, path)
            self.reads(ast.Name(id=st.target.id, ctx=ast.Load(), lineno=st.lineno, col_offset=0) if isinstance(st.target, ast.Name) else st.target, bound, path)
            self.bind(st.target, bound)
            return True, bound
        if isinstance(st, ast.Return):
            self.reads(st.value, bound, path)
            return False, bound
        if isinstance(st, ast.Raise):
            self.reads(st.exc, bound, path)
            return False, bound
        if isinstance(st, (ast.Continue, ast.Break)):
            return False, bound
        if isinstance(st, ast.If):
            return self._if(st, bound, path, [])
        if isinstance(st, (ast.For, ast.AsyncFor)):
            self.reads(st.iter, bound, path)
            inner = set(bound)
            self.bind(st.target, inner)
            fb, bb = self.block(st.body, inner, path + [f"loop {src(st.target)}"])
            f, b = self.block(st.orelse, bound, path)
            if self.search_hits is not None and any(isinstance(x, ast.Break) for x in ast.walk(st)) and self.search_hits(st):
                return True, self.bound_at_breaks(st, inner, path)      # the loop is left through a break
            if self.nonempty is not None and self.nonempty(st.iter) and fb and not any(isinstance(x, (ast.Break, ast.Continue)) for x in ast.walk(st)):
                return True, bb             # at least one full iteration: what the body binds is bound afterwards
            return True, bound
        if isinstance(st, ast.While):
            self.reads(st.test, bound, path)
            f, b = self.block(st.body, bound, path + ["while body"])
            infinite = isinstance(st.test, ast.Constant) and st.test.value is True
            if infinite:
                # leaves only through break: bound set at the breaks ~ conservatively the body's bindings
                has_break = any(isinstance(x, ast.Break) for x in ast.walk(st))
                return (True, self.bound_at_breaks(st, bound, path)) if has_break else (False, bound)
            return True, bound
        if isinstance(st, (ast.With, ast.AsyncWith)):
            for it in st.items:
                self.reads(it.context_expr, bound, path)
                if it.optional_vars is not None:
                    self.bind(it.optional_vars, bound)
            return self.block(st.body, bound, path)
        if isinstance(st, ast.Try):
            f, b = self.block(st.body, bound, path)
            outs = []
            if f:
                f_e, b_e = self.block(st.orelse, b, path)
                if f_e:
                    outs.append(b_e)
            for h in st.handlers:
                hb = set(bound)
                if h.name:
                    hb.add(h.name)
                fh, bh = self.block(h.body, hb, path + [f"except {src(h.type) if h.type else ''}"])
                if fh:
                    outs.append(bh - ({h.name} if h.name else set()))
            if not outs:
                self.block(st.finalbody, bound, path)
                return False, bound
            res = set.intersection(*outs)
            ff, bf = self.block(st.finalbody, res, path)
            return ff, bf
        if isinstance(st, ast.Expr):
            self.reads(st.value, bound, path)
            return True, bound
        if isinstance(st, (ast.Pass, ast.Global, ast.Nonlocal)):
            return True, bound
        if isinstance(st, ast.Assert):
            self.reads(st.test, bound, path)
            return True, bound
        if isinstance(st, ast.Delete):
            return True, bound
        for c in ast.iter_child_nodes(st):
            if isinstance(c, ast.expr):
                self.reads(c, bound, path)
        return True, bound

    def bound_at_breaks(self, loop, bound, path):
        """names certainly bound when a `while True` loop is left through a break (first iteration view)"""
        result = []

        def block(stmts, b):
            b = set(b)
            for st in stmts:
                if isinstance(st, ast.Break):
                    result.append(set(b))
                    return False, b
                if isinstance(st, ast.If):
                    f1, b1 = block(st.body, b)
                    f2, b2 = block(st.orelse, b)
                    if f1 and f2:
                        b = b1 & b2
                    elif f1:
                        b = b1
                    elif f2:
                        b = b2
                    else:
                        return False, b
                    continue
                if isinstance(st, (ast.Continue, ast.Return, ast.Raise)):
                    return False, b
                if isinstance(st, ast.Assign):
                    for t in st.targets:
                        self.bind(t, b)
                elif isinstance(st, (ast.For, ast.While, ast.With, ast.Try)):
                    pass
            return True, b

        block(loop.body, bound)
        return set.intersection(*result) if result else set(bound)
