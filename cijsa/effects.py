"""E9 / E5 — effects: writes to module-level state, parameter mutation summaries and freshness of
arguments, unordered iteration, ambient inputs, file-open modes."""
from __future__ import annotations

import ast

from .model import Model, Mod, dotted_name, src, member_kind, DEAD_MODULES

MUTATORS = {"append", "extend", "update", "pop", "popitem", "clear", "insert", "remove", "sort", "reverse", "add", "discard",
            "setdefault", "fill", "resize", "itemset", "put", "partition", "define", "load_definitions"}
# numpy.asarray / asanyarray are NOT fresh: they return their argument when it already is an ndarray
NUMPY_VIEW_MAKERS = {"asarray", "asanyarray", "ascontiguousarray", "asfortranarray", "atleast_1d", "atleast_2d", "atleast_3d", "ravel", "reshape", "squeeze",
                     "transpose", "swapaxes", "moveaxis", "rollaxis", "diagonal", "broadcast_to", "broadcast_arrays", "expand_dims", "real", "imag", "view",
                     "split", "array_split", "hsplit", "vsplit", "flip", "fliplr", "flipud", "rot90", "nditer", "lib", "require", "ndarray", "frombuffer"}
FRESH_CALLS = {"copy", "deepcopy", "array", "zeros", "ones", "empty", "DataFrame", "dict", "list", "set", "tuple",
               "read_table", "read_csv", "linspace", "arange", "copy.copy", "copy.deepcopy"}
AMBIENT = ("time.", "datetime.", "random.", "numpy.random.", "uuid.", "secrets.", "os.environ", "os.getcwd", "os.getpid",
           "os.urandom", "socket.", "getpass.", "platform.", "tempfile.",
           # process-wide option state of libraries: set once, it changes what every later call in the process produces (the scoped forms -
           # pandas.option_context, numpy.errstate, numpy.printoptions, warnings.catch_warnings, decimal.localcontext - restore it)
           "pandas.set_option", "pandas.reset_option", "pandas.options.", "numpy.set_printoptions", "numpy.seterr", "numpy.seterrcall", "warnings.simplefilter",
           "warnings.filterwarnings", "locale.setlocale", "os.chdir", "os.umask", "sys.setrecursionlimit", "matplotlib.rcParams", "matplotlib.use", "decimal.setcontext")
UNORDERED_CALLS = {"set", "frozenset", "glob", "glob.glob", "glob.iglob", "os.listdir", "os.scandir", "os.walk"}


def local_names(fd) -> set:
    from .cfg import DefiniteAssignment
    names = DefiniteAssignment.collect_locals(fd)
    names |= {a.arg for a in fd.args.posonlyargs + fd.args.args + fd.args.kwonlyargs}
    if fd.args.vararg:
        names.add(fd.args.vararg.arg)
    if fd.args.kwarg:
        names.add(fd.args.kwarg.arg)
    return names


def is_fresh_expr(n) -> bool:
    """an expression that certainly yields a new object (never an alias of existing state)"""
    if isinstance(n, (ast.BinOp, ast.UnaryOp, ast.Compare, ast.BoolOp, ast.Dict, ast.List, ast.Set, ast.Tuple, ast.ListComp, ast.DictComp,
                      ast.SetComp, ast.JoinedStr, ast.Constant)):
        return True
    if isinstance(n, ast.Call):
        name = dotted_name(n.func) or ""
        last = name.split(".")[-1]
        if name.split(".")[0] in ("numpy", "np", "scipy", "math") and last not in NUMPY_VIEW_MAKERS and "." in name:
            # numpy / scipy functions compute a new array; the exceptions hand back (a view of) their argument
            return not any(kw.arg in ("out", "copy") and not (isinstance(kw.value, ast.Constant) and kw.value.value in (None, True)) for kw in n.keywords)
        if last in FRESH_CALLS or name in FRESH_CALLS:
            # numpy.array(x, copy=False) / x.astype(t, copy=False) hand back their argument
            return not any(kw.arg == "copy" and isinstance(kw.value, ast.Constant) and kw.value.value is False for kw in n.keywords)
        return bool(last) and last[0].isupper()      # constructors
    return False


def module_state_writes(model: Model, mod: Mod):
    """[(function qualname, node, target description)] for stores into module-level (or imported) objects"""
    out = []
    mod_level = set(mod.globals) | {k for k, v in mod.imports.items()}
    for q, f in mod.funcs.items():
        locs = local_names(f)
        declared_global = {n for st in ast.walk(f) if isinstance(st, ast.Global) for n in st.names}
        # aliases: local = <module-level name>  (plain name or attribute of an imported module), without a copy
        alias = {}
        for st in ast.walk(f):
            if isinstance(st, ast.Assign) and len(st.targets) == 1 and isinstance(st.targets[0], ast.Name):
                v = st.value
                root = v
                while isinstance(root, ast.Attribute):
                    root = root.value
                if isinstance(v, (ast.Name, ast.Attribute)) and isinstance(root, ast.Name) and root.id in mod_level \
                        and root.id not in (locs - {st.targets[0].id}) and root.id not in ("self", "cls"):
                    if isinstance(v, ast.Name) or (isinstance(v, ast.Attribute) and root.id in mod.imports):
                        alias[st.targets[0].id] = src(v)

        def base_global(n):
            """name of the module-level object a store target is rooted in, or None"""
            root = n
            while isinstance(root, (ast.Attribute, ast.Subscript)):
                root = root.value
            if not isinstance(root, ast.Name):
                return None
            if root.id in declared_global:
                return root.id
            if root.id in alias:
                return alias[root.id]
            if root.id in mod_level and root.id not in locs:
                return root.id
            return None

        for st in ast.walk(f):
            targets = []
            if isinstance(st, ast.Assign):
                targets = st.targets
            elif isinstance(st, (ast.AugAssign, ast.AnnAssign)):
                targets = [st.target]
            elif isinstance(st, ast.Delete):
                targets = st.targets
            for t in targets:
                for tt in (t.elts if isinstance(t, (ast.Tuple, ast.List)) else [t]):
                    if isinstance(tt, ast.Name):
                        if tt.id in declared_global:
                            out.append((q, st, f"global {tt.id}"))
                    elif isinstance(tt, (ast.Subscript, ast.Attribute)):
                        g = base_global(tt)
                        if g and not (isinstance(tt, ast.Attribute) and isinstance(tt.value, ast.Name) and tt.value.id in ("self", "cls")):
                            out.append((q, st, f"{src(tt)} (module-level object {g})"))
            if isinstance(st, ast.Call) and isinstance(st.func, ast.Attribute) and st.func.attr in MUTATORS:
                g = base_global(st.func.value)
                if g and not is_module_path(model, mod, st.func.value):
                    out.append((q, st, f"{src(st.func)}() on module-level object {g}"))
    return out


def is_module_path(model: Model, mod: Mod, n) -> bool:
    """`numpy`, `numpy.linalg`, `cij.util`: a dotted path that names a module (its attribute calls such as numpy.add(...) or
    numpy.put(...) are library functions, not methods of a shared container)"""
    parts = []
    while isinstance(n, ast.Attribute):
        parts.append(n.attr)
        n = n.value
    if not isinstance(n, ast.Name) or n.id not in mod.imports:
        return False
    entry = mod.imports[n.id]
    if entry[0] == "mod":
        if not parts:
            return True
        kind, _ = model.resolve_import(entry)
        return kind in ("module", "ext") and all(p.islower() or "_" in p for p in parts) and not parts[0][0].isupper() and _is_pkg_path(entry[1], parts[::-1])
    kind, ref = model.resolve_import(entry)
    return kind == "module" and not parts


def _is_pkg_path(root: str, parts) -> bool:
    """root.parts[0]....: True when it is a package/module on disk (located without importing anything)"""
    import importlib.machinery
    import sys
    from pathlib import Path
    cur = None
    for base in sys.path:
        cand = Path(base or ".") / root.replace(".", "/")
        if cand.is_dir() or cand.with_suffix(".py").is_file():
            cur = cand
            break
    if cur is None:
        return root in sys.builtin_module_names or root in getattr(sys, "stdlib_module_names", ())
    for p in parts:
        nxt = cur / p
        if nxt.is_dir() or nxt.with_suffix(".py").is_file() or any(nxt.with_suffix(sfx).is_file() for sfx in importlib.machinery.EXTENSION_SUFFIXES):
            cur = nxt
        else:
            return False
    return True


def shared_object_uses(f, name: str):
    """classify every use of the (imported or module-level) mutable `name` inside function f.
    -> list of (node, kind) with kind in {'copied', 'read', 'mutated', 'escapes'}; one level of local aliasing is followed."""
    parents = {}
    for p in ast.walk(f):
        for c in ast.iter_child_nodes(p):
            parents[id(c)] = p
    READ_METHODS = {"get", "items", "keys", "values", "copy", "__getitem__", "__contains__", "__len__", "__iter__"}
    COPIERS = {"copy.copy", "copy.deepcopy", "dict", "collections.OrderedDict", "OrderedDict", "collections.ChainMap", "list", "tuple", "set", "frozenset",
               "types.MappingProxyType", "MappingProxyType", "json.dumps", "len", "sorted", "str", "repr"}
    out = []
    names = {name}
    # aliases  x = NAME
    for st in ast.walk(f):
        if isinstance(st, ast.Assign) and len(st.targets) == 1 and isinstance(st.targets[0], ast.Name):
            v = st.value
            if (isinstance(v, ast.Name) and v.id == name) or (isinstance(v, ast.Attribute) and v.attr == name):
                names.add(st.targets[0].id)

    def is_use(n):
        return (isinstance(n, ast.Name) and n.id in names and isinstance(n.ctx, ast.Load)) or \
               (isinstance(n, ast.Attribute) and n.attr == name and isinstance(n.ctx, ast.Load))

    for n in ast.walk(f):
        if not is_use(n):
            continue
        if isinstance(n, ast.Name) and isinstance(parents.get(id(n)), ast.Attribute) and parents[id(n)].attr == name and False:
            continue
        par = parents.get(id(n))
        kind = "escapes"
        if isinstance(par, ast.Assign) and par.value is n and len(par.targets) == 1 and isinstance(par.targets[0], ast.Name):
            kind = "read"                                   # plain alias: the alias's own uses are classified
        elif isinstance(par, ast.Call) and n in par.args and (dotted_name(par.func) or "") in COPIERS:
            kind = "copied"
        elif isinstance(par, ast.Dict) and n in par.values and par.keys[par.values.index(n)] is None:
            kind = "copied"                                 # {**NAME, ...}
        elif isinstance(par, ast.keyword) and par.arg is None and isinstance(parents.get(id(par)), ast.Call) \
                and (dotted_name(parents[id(par)].func) or "") in COPIERS:
            kind = "copied"                                 # dict(**NAME)
        elif isinstance(par, ast.BinOp) and isinstance(par.op, ast.BitOr):
            kind = "copied"                                 # NAME | other  (new dict)
        elif isinstance(par, ast.Attribute) and par.value is n:
            gp = parents.get(id(par))
            if isinstance(gp, ast.Call) and gp.func is par:
                kind = "copied" if par.attr == "copy" else ("read" if par.attr in READ_METHODS else ("mutated" if par.attr in MUTATORS else "escapes"))
            else:
                kind = "read"
        elif isinstance(par, ast.Subscript) and par.value is n:
            kind = "read" if isinstance(par.ctx, ast.Load) else "mutated"
        elif isinstance(par, (ast.Compare, ast.For, ast.comprehension)):
            kind = "read"
        elif isinstance(par, ast.Starred):
            kind = "read"
        elif isinstance(par, ast.AugAssign) and par.target is n:
            kind = "mutated"
        out.append((n, kind))
    return out


def class_state_writes(mod: Mod):
    """stores into mutable class-level attributes through self/cls, and mutated mutable default arguments"""
    out = []
    def mutable_value(v):
        """a display or constructor call that yields one mutable object (shared by whoever holds a reference to it)"""
        if isinstance(v, (ast.Dict, ast.List, ast.Set, ast.ListComp, ast.DictComp, ast.SetComp)):
            return True
        if isinstance(v, ast.Call):
            name = dotted_name(v.func) or ""
            last = name.split(".")[-1]
            if name in ("dict", "list", "set", "bytearray") or last in ("defaultdict", "OrderedDict", "deque", "Counter", "zeros", "empty", "ones", "array"):
                return True
            # a repository / library class instance: mutable unless it is a NamedTuple-like record or an enum member
            if last and last[0].isupper() and last not in ("Path", "PurePath", "Fraction", "Decimal") and not last.isupper():
                return last in mod.classes and not any((dotted_name(b) or "").split(".")[-1] in ("NamedTuple", "Enum", "IntEnum", "tuple", "str", "int", "float")
                                                       for b in mod.classes[last].bases)
        return False

    for cname, c in mod.classes.items():
        mutable = {}
        if any((dotted_name(b) or "").split(".")[-1] == "NamedTuple" for b in c.bases):
            continue
        for n in c.body:
            if isinstance(n, ast.Assign) and len(n.targets) == 1 and isinstance(n.targets[0], ast.Name) and mutable_value(n.value):
                mutable[n.targets[0].id] = n
            if isinstance(n, ast.AnnAssign) and isinstance(n.target, ast.Name) and n.value is not None and mutable_value(n.value):
                mutable[n.target.id] = n
        if not mutable:
            continue
        # attributes that the class's own __init__ rebinds to a fresh object, unconditionally and before it uses them: every instance then has
        # its own object under that name, and a store through `self.<attr>` in any method goes there (through cls / the class name it does not)
        shadowed = set()
        init = mod.funcs.get(cname + ".__init__")
        if init is not None and init.args.args and init.args.args[0].arg == "self":
            seen = set()
            for st in init.body:
                if isinstance(st, ast.Assign) and len(st.targets) == 1 and isinstance(st.targets[0], ast.Attribute) and isinstance(st.targets[0].value, ast.Name) \
                        and st.targets[0].value.id == "self" and st.targets[0].attr in mutable and st.targets[0].attr not in seen and is_fresh_expr(st.value) \
                        and not any(isinstance(x, ast.Attribute) and x.attr == st.targets[0].attr for x in ast.walk(st.value)):
                    shadowed.add(st.targets[0].attr)
                seen |= {x.attr for x in ast.walk(st) if isinstance(x, ast.Attribute)}
        for q, f in mod.funcs.items():
            if not q.startswith(cname + "."):
                continue
            rebound = {t.attr for st in ast.walk(f) if isinstance(st, ast.Assign) for t in st.targets
                       if isinstance(t, ast.Attribute) and isinstance(t.value, ast.Name) and t.value.id in ("self", "cls")}
            for st in ast.walk(f):
                tgt = None
                if isinstance(st, ast.Assign) and isinstance(st.targets[0], ast.Subscript):
                    tgt = st.targets[0].value
                elif isinstance(st, ast.Call) and isinstance(st.func, ast.Attribute) and st.func.attr in MUTATORS:
                    tgt = st.func.value
                if isinstance(tgt, ast.Attribute) and isinstance(tgt.value, ast.Name) and tgt.value.id in ("self", "cls", cname) \
                        and tgt.attr in mutable and (tgt.attr not in rebound or q.split(".")[-1] != "__init__"):
                    if tgt.attr in rebound and q.endswith("__init__"):
                        continue
                    if tgt.attr in shadowed and tgt.value.id == "self" and bool(f.args.args) and f.args.args[0].arg == "self" \
                            and not any(isinstance(d, ast.Name) and d.id in ("classmethod", "staticmethod") for d in f.decorator_list):
                        continue
                    out.append((q, st, f"class-level mutable attribute {cname}.{tgt.attr}"))
    # an attribute of the CLASS assigned from inside a method - type(self).x = ..., self.__class__.x = ..., cls.x = ..., ClassName.x = ... -
    # is state shared by every instance (and every later calculation in the process)
    for q, f in mod.funcs.items():
        if "." not in q:
            continue
        cname = q.split(".")[0]
        is_classmethod_like = bool(f.args.args) and f.args.args[0].arg == "cls"
        for st in ast.walk(f):
            targets = st.targets if isinstance(st, ast.Assign) else ([st.target] if isinstance(st, (ast.AugAssign, ast.AnnAssign)) and getattr(st, "value", None) is not None else [])
            for t in targets:
                if not isinstance(t, ast.Attribute):
                    continue
                b = t.value
                through = None
                if isinstance(b, ast.Call) and isinstance(b.func, ast.Name) and b.func.id == "type" and len(b.args) == 1 and isinstance(b.args[0], ast.Name) and b.args[0].id == "self":
                    through = "type(self)"
                elif isinstance(b, ast.Attribute) and b.attr == "__class__" and isinstance(b.value, ast.Name) and b.value.id == "self":
                    through = "self.__class__"
                elif isinstance(b, ast.Name) and b.id == "cls" and is_classmethod_like:
                    through = "cls"
                elif isinstance(b, ast.Name) and b.id == cname and cname in mod.classes:
                    through = cname
                if through:
                    out.append((q, st, f"class attribute {cname}.{t.attr} assigned through {through}"))
    for q, f in mod.funcs.items():
        params = [a.arg for a in f.args.args]
        defaults = dict(zip(reversed(params), reversed(f.args.defaults)))
        kwdefaults = {a.arg: d for a, d in zip(f.args.kwonlyargs, f.args.kw_defaults) if d is not None}
        defaults.update(kwdefaults)
        for p, d in defaults.items():
            if mutable_value(d):
                if p in mutated_params(f):
                    out.append((q, d, f"mutable default argument {p} is mutated"))
                    continue
                # the default object escapes into an attribute of self that some method of the class then mutates
                cname = q.rsplit(".", 1)[0] if "." in q else None
                escaped = set()
                for st in ast.walk(f):
                    if isinstance(st, ast.Assign) and any(isinstance(x, ast.Name) and x.id == p for x in ast.walk(st.value)) and \
                            (isinstance(st.value, ast.Name) or isinstance(st.value, (ast.IfExp, ast.BoolOp))):
                        for t in st.targets:
                            if isinstance(t, ast.Attribute) and isinstance(t.value, ast.Name) and t.value.id in ("self", "cls"):
                                escaped.add(t.attr)
                if cname and escaped:
                    for q2, g in mod.funcs.items():
                        if not q2.startswith(cname + "."):
                            continue
                        for st in ast.walk(g):
                            tgt = None
                            if isinstance(st, (ast.Assign, ast.AugAssign)):
                                t0 = st.targets[0] if isinstance(st, ast.Assign) else st.target
                                if isinstance(t0, ast.Subscript):
                                    tgt = t0.value
                            elif isinstance(st, ast.Call) and isinstance(st.func, ast.Attribute) and st.func.attr in MUTATORS:
                                tgt = st.func.value
                            if isinstance(tgt, ast.Attribute) and isinstance(tgt.value, ast.Name) and tgt.value.id == "self" and tgt.attr in escaped:
                                out.append((q, d, f"mutable default argument {p} (one object for every call) is kept as self.{tgt.attr} and modified in {q2}"))
                                break
                        else:
                            continue
                        break
    return out


def mutated_params(f, summaries=None, configures=None) -> set:
    """parameters mutated in place by f (flow-sensitive for rebinding to a fresh value first)"""
    params = [a.arg for a in f.args.posonlyargs + f.args.args + f.args.kwonlyargs]
    live = set(params) - {"self", "cls"}
    out = set()
    # parameters of immutable type (numeric default or int/float/str/bool annotation): `x += 1` rebinds, never mutates
    immutable = set()
    pos = f.args.posonlyargs + f.args.args
    for a, d in zip(reversed(pos), reversed(f.args.defaults)):
        if isinstance(d, ast.Constant) and isinstance(d.value, (int, float, str, bool)) and d.value is not None:
            immutable.add(a.arg)
    for a in pos + f.args.kwonlyargs:
        if a.annotation is not None and src(a.annotation) in ("int", "float", "str", "bool"):
            immutable.add(a.arg)

    alias_of = {}

    def may_alias(e, live):
        """the live parameter (or alias) whose object - or a part of it - the expression may denote"""
        if isinstance(e, ast.Name):
            return e.id if e.id in live else None
        if isinstance(e, ast.IfExp):
            return may_alias(e.body, live) or may_alias(e.orelse, live)
        if isinstance(e, ast.BoolOp):
            for v in e.values:
                r = may_alias(v, live)
                if r:
                    return r
            return None
        if isinstance(e, (ast.Subscript, ast.Attribute)):
            return may_alias(e.value, live)
        if isinstance(e, ast.NamedExpr):
            return may_alias(e.value, live)
        return None

    class _Out(set):
        def add(self, name):                    # a mutation through a local alias is a mutation of the parameter it aliases
            set.add(self, alias_of.get(name, name))
    out = _Out()

    def visit_block(stmts, live):
        live = set(live)
        for st in stmts:
            # a local bound to (a part of) a live parameter's object is an alias of it
            if isinstance(st, ast.Assign) and len(st.targets) == 1 and isinstance(st.targets[0], ast.Name) and st.targets[0].id not in live:
                root = may_alias(st.value, live)
                if root is not None:
                    check_expr(st.value, live)
                    alias_of[st.targets[0].id] = alias_of.get(root, root)
                    live.add(st.targets[0].id)
                    continue
            # rebinding kills aliasing with the caller's object if the new value is fresh
            if isinstance(st, ast.Assign) and len(st.targets) == 1 and isinstance(st.targets[0], ast.Name) and st.targets[0].id in live:
                check_expr(st.value, live)
                if is_fresh_expr(st.value):
                    live.discard(st.targets[0].id)
                continue
            if isinstance(st, ast.AugAssign):
                root = st.target
                while isinstance(root, (ast.Subscript, ast.Attribute)):
                    root = root.value
                if isinstance(root, ast.Name) and root.id in live and not (root is st.target and root.id in immutable):
                    out.add(root.id)
                check_expr(st.value, live)
                continue
            if isinstance(st, ast.Assign):
                for t in st.targets:
                    for tt in (t.elts if isinstance(t, (ast.Tuple, ast.List)) else [t]):
                        if isinstance(tt, (ast.Subscript, ast.Attribute)):
                            root = tt
                            while isinstance(root, (ast.Subscript, ast.Attribute)):
                                root = root.value
                            if isinstance(root, ast.Name) and root.id in live:
                                # `param.attr = value` re-points an attribute of the caller's object (what the caller could
                                # do inline); every other store changes a value in place
                                if isinstance(tt, ast.Attribute) and isinstance(tt.value, ast.Name):
                                    attr_only.setdefault(root.id, True)
                                else:
                                    attr_only[root.id] = False
                                out.add(root.id)
                check_expr(st.value, live)
                continue
            for fld in ("body", "orelse", "finalbody"):
                sub = getattr(st, fld, None)
                if isinstance(sub, list) and sub and isinstance(sub[0], ast.stmt):
                    visit_block(sub, live)
            for h in getattr(st, "handlers", []) or []:
                visit_block(h.body, live)
            for c in ast.iter_child_nodes(st):
                if isinstance(c, ast.expr):
                    check_expr(c, live)

    def check_expr(e, live):
        for c in ast.walk(e):
            if isinstance(c, ast.Call):
                if isinstance(c.func, ast.Attribute) and c.func.attr in MUTATORS:
                    root = c.func.value
                    while isinstance(root, (ast.Subscript, ast.Attribute)):
                        root = root.value
                    if isinstance(root, ast.Name) and root.id in live:
                        out.add(root.id)
                if summaries:
                    name = (dotted_name(c.func) or "").split(".")[-1]
                    for pos in summaries.get(name, ()):
                        if pos < len(c.args) and isinstance(c.args[pos], ast.Name) and c.args[pos].id in live:
                            out.add(c.args[pos].id)

    attr_only = {}
    visit_block(f.body, live)
    if configures is not None:
        configures.update({p for p in out if attr_only.get(p) is True and not _other_mutation(f, p)})
    return out


def _other_mutation(f, p) -> bool:
    """parameter p is also changed by something other than `p.attr = value` (augmented store, item store, mutator call)"""
    for st in ast.walk(f):
        if isinstance(st, ast.AugAssign):
            root = st.target
            while isinstance(root, (ast.Subscript, ast.Attribute)):
                root = root.value
            if isinstance(root, ast.Name) and root.id == p:
                return True
        if isinstance(st, ast.Call) and isinstance(st.func, ast.Attribute) and st.func.attr in MUTATORS:
            root = st.func.value
            while isinstance(root, (ast.Subscript, ast.Attribute)):
                root = root.value
            if isinstance(root, ast.Name) and root.id == p:
                return True
        if isinstance(st, ast.Assign):
            for t in st.targets:
                for tt in (t.elts if isinstance(t, (ast.Tuple, ast.List)) else [t]):
                    if isinstance(tt, ast.Subscript) or (isinstance(tt, ast.Attribute) and not isinstance(tt.value, ast.Name)):
                        root = tt
                        while isinstance(root, (ast.Subscript, ast.Attribute)):
                            root = root.value
                        if isinstance(root, ast.Name) and root.id == p:
                            return True
    return False


def _setlike(n) -> bool:
    """an expression that certainly is a set or a dict view taking part in set algebra"""
    if isinstance(n, (ast.Set, ast.SetComp)):
        return True
    if isinstance(n, ast.Call):
        name = dotted_name(n.func) or ""
        if name in ("set", "frozenset"):
            return True
        if isinstance(n.func, ast.Attribute) and n.func.attr in ("keys", "items") and not n.args:
            return True
        if isinstance(n.func, ast.Attribute) and n.func.attr in ("union", "intersection", "difference", "symmetric_difference"):
            return True
    if isinstance(n, ast.BinOp) and isinstance(n.op, (ast.BitAnd, ast.BitOr, ast.BitXor)) and (_setlike(n.left) or _setlike(n.right)):
        return True
    return False


def unordered_loops(mod: Mod, known_sets=(), param_sets=None):
    """[(qualname, For node, description)]; known_sets: module-level names that hold sets, param_sets: {qualname: {param: why}}"""
    out = []
    param_sets = param_sets or {}
    for q, f in mod.funcs.items():
        extra = set(known_sets) | set(param_sets.get(q, {}))
        for n in ast.walk(f):
            if isinstance(n, (ast.For, ast.comprehension)):
                it = n.iter
                desc = None
                if isinstance(it, (ast.Set, ast.SetComp)):
                    desc = "set display"
                elif isinstance(it, ast.Call) and (dotted_name(it.func) or "") in UNORDERED_CALLS:
                    desc = dotted_name(it.func)
                elif isinstance(it, ast.BinOp) and isinstance(it.op, (ast.BitAnd, ast.BitOr, ast.BitXor, ast.Sub)) and (_setlike(it.left) or _setlike(it.right)):
                    desc = f"set expression {src(it)[:50]}"       # keys() & keys(), set(...) - set(...): a set, iterated in hash order
                elif isinstance(it, ast.Call) and isinstance(it.func, ast.Attribute) and it.func.attr in ("union", "intersection", "difference", "symmetric_difference") \
                        and (_setlike(it.func.value) or any(_setlike(a_) for a_ in it.args)):
                    desc = f"set expression {src(it)[:50]}"
                elif isinstance(it, ast.Name):
                    # a local bound (once) to such a set expression
                    defs = [st.value for st in ast.walk(f) if isinstance(st, ast.Assign) and len(st.targets) == 1 and isinstance(st.targets[0], ast.Name) and st.targets[0].id == it.id]
                    if not defs and it.id in extra:
                        desc = f"set {it.id} ({param_sets.get(q, {}).get(it.id, 'module-level set')})"
                    if len(defs) == 1 and (_is_set_expr(defs[0]) or (isinstance(defs[0], ast.BinOp) and isinstance(defs[0].op, (ast.BitAnd, ast.BitOr, ast.BitXor, ast.Sub))
                                                                  and (_setlike(defs[0].left) or _setlike(defs[0].right)))):
                        desc = f"set {it.id} = {src(defs[0])[:40]}"
                if desc and isinstance(n, ast.For):
                    if any(n in ast.walk(g) for qq, g in mod.funcs.items() if qq != q and qq.startswith(q + ".")):
                        continue
                    out.append((q, n, desc))
    return out


def order_tainted_iterations(model, mods, modsets=None, paramsets=None):
    """Mappings whose KEY ORDER is the iteration order of an unordered collection, and the places that iterate them.

    A function that fills a dict by keyed stores inside a loop over a set (and returns it) hands back a mapping whose key order depends on
    the interpreter's hash seed; so does a function that returns the result of calling one.  Attributes and locals bound to such a result -
    and their sub-mappings, when the builder recurses - are order-tainted: iterating them (directly or through .items()/.keys()/.values())
    visits the keys in hash order.  Returns [(module name, mod, qualname, node, description)] for every For loop / comprehension over one."""
    modsets, paramsets = modsets or {}, paramsets or {}
    by_simple = {}
    for mname, mod in mods:
        for q, f in mod.funcs.items():
            by_simple.setdefault(q.split(".")[-1], []).append((mname, q))

    def resolve(call, mname, q):
        """(module, qualname) of the package function a call denotes: a nested def of the calling function, a function of the calling module, or -
        for dotted names (cij.io.apply_default_config) - the only function of that simple name in the package; else None"""
        if not isinstance(call, ast.Call):
            return None
        mod_ = dict(mods)[mname]
        if isinstance(call.func, ast.Name):
            nm = call.func.id
            scope = q
            while True:
                if f"{scope}.{nm}" in mod_.funcs:
                    return (mname, f"{scope}.{nm}")
                if "." not in scope:
                    break
                scope = scope.rsplit(".", 1)[0]
            if nm in mod_.funcs:
                return (mname, nm)
            cands = [c for c in by_simple.get(nm, []) if "." not in c[1]]
            return cands[0] if len(cands) == 1 and nm in mod_.imports else None
        nm = (dotted_name(call.func) or "").split(".")[-1]
        cands = [c for c in by_simple.get(nm, []) if "." not in c[1]]
        return cands[0] if nm and len(cands) == 1 and isinstance(call.func, ast.Attribute) and not (isinstance(call.func.value, ast.Name) and call.func.value.id in ("self", "cls")) else None

    builders = {}           # (module, qualname) -> description
    for mname, mod in mods:
        psets = {q_: v for (m_, q_), v in paramsets.items() if m_ == mname}
        for q, loop, desc in unordered_loops(mod, modsets.get(mname, ()), psets):
            f = mod.funcs[q]
            keyed = {st.targets[0].value.id for st in ast.walk(loop) if isinstance(st, ast.Assign) and len(st.targets) == 1 and isinstance(st.targets[0], ast.Subscript)
                     and isinstance(st.targets[0].value, ast.Name)}
            returned = {r.value.id for r in ast.walk(f) if isinstance(r, ast.Return) and isinstance(r.value, ast.Name)}
            if keyed & returned:
                builders[(mname, q)] = f"{mname}:{q} fills it in the iteration order of {desc}"
    changed = True
    while changed:          # functions that return the result of a builder
        changed = False
        for mname, mod in mods:
            for q, f in mod.funcs.items():
                if (mname, q) in builders:
                    continue
                own = [x for x in ast.walk(f) if not any(x in ast.walk(g) for qq, g in mod.funcs.items() if qq != q and qq.startswith(q + "."))]
                local = {st.targets[0].id: resolve(st.value, mname, q) for st in own if isinstance(st, ast.Assign) and len(st.targets) == 1
                         and isinstance(st.targets[0], ast.Name) and resolve(st.value, mname, q) in builders}
                for r in own:
                    if isinstance(r, ast.Return) and r.value is not None:
                        tgt = resolve(r.value, mname, q) if isinstance(r.value, ast.Call) else (local.get(r.value.id) if isinstance(r.value, ast.Name) else None)
                        if tgt in builders:
                            builders[(mname, q)] = builders[tgt]
                            changed = True
                            break
    if not builders:
        return []
    ctx_fn = {}

    def is_builder_call(v, mname=None, q=None):
        return isinstance(v, ast.Call) and resolve(v, mname or ctx_fn["m"], q or ctx_fn["q"]) in builders

    def why_of(v):
        return builders[resolve(v, ctx_fn["m"], ctx_fn["q"])]
    tainted_attrs = {}      # (module, class) -> {attr: why}
    for mname, mod in mods:
        for q, f in mod.funcs.items():
            if "." not in q:
                continue
            cls = q.rsplit(".", 1)[0]
            for st in ast.walk(f):
                if isinstance(st, ast.Assign) and len(st.targets) == 1 and isinstance(st.targets[0], ast.Attribute) and isinstance(st.targets[0].value, ast.Name) \
                        and st.targets[0].value.id == "self" and is_builder_call(st.value, mname, q):
                    tainted_attrs.setdefault((mname, cls), {})[st.targets[0].attr] = builders[resolve(st.value, mname, q)]
    out = []
    for mname, mod in mods:
        for q, f in mod.funcs.items():
            cls = q.rsplit(".", 1)[0] if "." in q else None
            attrs = tainted_attrs.get((mname, cls), {})
            local = {}

            def root_why(e):
                """why the mapping denoted by e (a chain of subscripts / .get() on a tainted attribute or local) is order-tainted, else None"""
                while True:
                    if isinstance(e, ast.Subscript):
                        e = e.value
                    elif isinstance(e, ast.Call) and isinstance(e.func, ast.Attribute) and e.func.attr == "get":
                        e = e.func.value
                    else:
                        break
                if isinstance(e, ast.Attribute) and isinstance(e.value, ast.Name) and e.value.id == "self" and e.attr in attrs:
                    return attrs[e.attr]
                if isinstance(e, ast.Name) and e.id in local:
                    return local[e.id]
                if is_builder_call(e, mname, q):
                    return builders[resolve(e, mname, q)]
                return None
            stmts = sorted([st for st in ast.walk(f) if isinstance(st, ast.Assign)], key=lambda st: (st.lineno, st.col_offset))
            for st in stmts:
                if len(st.targets) == 1 and isinstance(st.targets[0], ast.Name):
                    why = root_why(st.value)
                    if why:
                        local[st.targets[0].id] = why
                    else:
                        local.pop(st.targets[0].id, None)
            for n in ast.walk(f):
                if isinstance(n, (ast.For, ast.comprehension)):
                    it = n.iter
                    if isinstance(it, ast.Call) and isinstance(it.func, ast.Attribute) and it.func.attr in ("items", "keys", "values") and not it.args:
                        it = it.func.value
                    why = root_why(it)
                    if why and (mname, q) not in builders:
                        out.append((mname, mod, q, n, f"{src(n.iter)[:50]} ({why})"))
    return out


ORDER_INSENSITIVE_CONSUMERS = {"set", "frozenset", "sorted", "any", "all", "min", "max", "len", "dict", "collections.Counter", "Counter"}


def _is_set_expr(n, known=()) -> bool:
    # a dict view alone iterates in insertion order; it is a set only as an operand of set algebra (handled by the BinOp case)
    is_view = isinstance(n, ast.Call) and isinstance(n.func, ast.Attribute) and n.func.attr in ("keys", "items", "values") and not n.args
    if _setlike(n) and not is_view:
        return True
    if isinstance(n, ast.Name) and n.id in known:
        return True
    if isinstance(n, ast.BinOp) and isinstance(n.op, (ast.BitAnd, ast.BitOr, ast.BitXor, ast.Sub)) and (_is_set_expr(n.left, known) or _is_set_expr(n.right, known)):
        return True
    return False


def set_typed_names(model, mods):
    """names that certainly hold sets: module-level names bound (only) to set expressions, and parameters that some call
    site in the package binds to a set expression or to such a module-level name.  Returns (module sets {mod: {name}},
    parameter sets {(mod, qualname): {param: description}})."""
    modsets = {}
    for mname, mod in mods:
        names = {}
        for st in mod.tree.body:
            if isinstance(st, ast.Assign) and len(st.targets) == 1 and isinstance(st.targets[0], ast.Name):
                names.setdefault(st.targets[0].id, []).append(st.value)
        modsets[mname] = {k for k, vs in names.items() if all(_is_set_expr(v) for v in vs)}
    # call sites: callee identified by its simple name (function or method); only unambiguous names are used
    by_simple = {}
    for mname, mod in mods:
        for q, f in mod.funcs.items():
            by_simple.setdefault(q.split(".")[-1], []).append((mname, q, f))
    paramsets = {}
    for mname, mod in mods:
        for q, f in mod.funcs.items():
            for c in ast.walk(f):
                if not isinstance(c, ast.Call):
                    continue
                callee = c.func.attr if isinstance(c.func, ast.Attribute) else (c.func.id if isinstance(c.func, ast.Name) else None)
                targets = by_simple.get(callee, [])
                if len(targets) != 1:
                    continue
                tm, tq, tf = targets[0]
                params = [a.arg for a in tf.args.posonlyargs + tf.args.args]
                offset = 1 if params and params[0] in ("self", "cls") and isinstance(c.func, ast.Attribute) else 0
                bound = {}
                for i, a in enumerate(c.args):
                    if i + offset < len(params):
                        bound[params[i + offset]] = a
                for kw in c.keywords:
                    if kw.arg:
                        bound[kw.arg] = kw.value
                for pname, a in bound.items():
                    if _is_set_expr(a, modsets[mname]):
                        paramsets.setdefault((tm, tq), {})[pname] = f"{src(a)[:40]} passed by {q}"
    return modsets, paramsets


def unordered_comprehensions(mod: Mod, known_sets=(), param_sets=None):
    """comprehensions / generator expressions that iterate over a set and hand their items, in set order, to a consumer for
    which the order matters: [(qualname, node, description, consumer)]"""
    out = []
    param_sets = param_sets or {}
    for q, f in mod.funcs.items():
        known = set(known_sets) | set(param_sets.get(q, {}))
        # locals bound once to a set expression
        defs = {}
        for st in ast.walk(f):
            if isinstance(st, ast.Assign) and len(st.targets) == 1 and isinstance(st.targets[0], ast.Name):
                defs.setdefault(st.targets[0].id, []).append(st.value)
        known |= {k for k, vs in defs.items() if all(_is_set_expr(v, known) for v in vs)}
        known -= {k for k, vs in defs.items() if not all(_is_set_expr(v, known) for v in vs)}
        parents = {}
        for p_ in ast.walk(f):
            for c in ast.iter_child_nodes(p_):
                parents[id(c)] = p_
        for n in ast.walk(f):
            if not isinstance(n, (ast.ListComp, ast.GeneratorExp, ast.DictComp, ast.SetComp)):
                continue
            if any(n in ast.walk(g) for qq, g in mod.funcs.items() if qq != q and qq.startswith(q + ".")):
                continue
            gens = [g for g in n.generators if _is_set_expr(g.iter, known) or (isinstance(g.iter, ast.Call) and (dotted_name(g.iter.func) or "") in UNORDERED_CALLS)]
            if not gens:
                continue
            if isinstance(n, (ast.SetComp, ast.DictComp)):
                continue                      # still unordered / keyed
            par = parents.get(id(n))
            consumer = None
            if isinstance(par, ast.Call) and n in par.args:
                consumer = dotted_name(par.func) or src(par.func)
            if consumer in ORDER_INSENSITIVE_CONSUMERS:
                continue
            out.append((q, n, f"set {src(gens[0].iter)[:40]}", consumer or "a sequence"))
    return out


def sequences_in_set_order(mod: Mod, known_sets=(), param_sets=None):
    """list(<set>) / tuple(<set>) / [*<set>] / numpy.array(list(<set>)): a sequence whose order is the set's hash order, made outside an order-insensitive
    consumer (sorted(...), set(...), len(...), min / max / any / all): [(qualname, node, description)].  Whatever is done with it next - rows of a matrix,
    a loop, a joined string - happens in an order that changes with PYTHONHASHSEED"""
    out = []
    param_sets = param_sets or {}
    for q, f in mod.funcs.items():
        known = set(known_sets) | set(param_sets.get(q, {}))
        defs = {}
        for st in ast.walk(f):
            if isinstance(st, ast.Assign) and len(st.targets) == 1 and isinstance(st.targets[0], ast.Name):
                defs.setdefault(st.targets[0].id, []).append(st.value)
        known |= {k for k, vs in defs.items() if all(_is_set_expr(v, known) for v in vs)}
        known -= {k for k, vs in defs.items() if not all(_is_set_expr(v, known) for v in vs)}
        parents = {}
        for p_ in ast.walk(f):
            for c in ast.iter_child_nodes(p_):
                parents[id(c)] = p_
        for n in ast.walk(f):
            if any(n in ast.walk(g) for qq, g in mod.funcs.items() if qq != q and qq.startswith(q + ".")):
                continue
            src_set = None
            if isinstance(n, ast.Call) and (dotted_name(n.func) or "") in ("list", "tuple", "numpy.array", "numpy.asarray") and len(n.args) >= 1 and _is_set_expr(n.args[0], known):
                src_set = n.args[0]
            elif isinstance(n, (ast.List, ast.Tuple)) and len(n.elts) == 1 and isinstance(n.elts[0], ast.Starred) and _is_set_expr(n.elts[0].value, known):
                src_set = n.elts[0].value
            if src_set is None:
                continue
            par = parents.get(id(n))
            if isinstance(par, ast.Call) and n in par.args and (dotted_name(par.func) or src(par.func)) in ORDER_INSENSITIVE_CONSUMERS:
                continue
            if isinstance(par, (ast.For, ast.comprehension)) and par.iter is n:
                continue            # iterated on the spot: judged as a loop / comprehension over the set itself
            out.append((q, n, f"set {src(src_set)[:40]}"))
    return out


def ordered_containers(fd) -> set:
    """names of locals/parameters of fd that certainly are pandas tables or series (their column / row order is what gets
    printed and iterated): annotated so, or bound to a pandas constructor / reader"""
    out = set()
    if fd is None:
        return out
    for a in fd.args.posonlyargs + fd.args.args + fd.args.kwonlyargs:
        if a.annotation is not None and any(t in src(a.annotation) for t in ("DataFrame", "Series")):
            out.add(a.arg)
    for st in ast.walk(fd):
        if isinstance(st, ast.Assign) and len(st.targets) == 1 and isinstance(st.targets[0], ast.Name) and isinstance(st.value, ast.Call):
            name = dotted_name(st.value.func) or ""
            if name.split(".")[-1] in ("DataFrame", "Series", "read_table", "read_csv", "read_fwf") and ("pandas" in name or name.split(".")[0] in ("pd", "pandas")):
                out.add(st.targets[0].id)
    return out


IO_CALLS = {"open", "save_x_tv", "save_x_tp", "save_to_output", "to_csv", "to_string", "savetxt", "savefig", "dump", "print", "echo", "write", "writelines"}


def io_reaching_functions(mods):
    """simple names of the package's functions that (transitively, through calls resolved by simple name) write files or print:
    the order in which such calls are made is observable (which file is written last, the order of the output)"""
    calls = {}
    direct = set()
    for mname, mod in mods:
        for q, f in mod.funcs.items():
            simple = q.split(".")[-1]
            for c in ast.walk(f):
                if isinstance(c, ast.Call):
                    nm = (dotted_name(c.func) or (c.func.attr if isinstance(c.func, ast.Attribute) else "")).split(".")[-1]
                    calls.setdefault(simple, set()).add(nm)
                    if nm in IO_CALLS:
                        direct.add(simple)
    reach = set(direct)
    changed = True
    while changed:
        changed = False
        for fn_, cs in calls.items():
            if fn_ not in reach and cs & reach:
                reach.add(fn_)
                changed = True
    return reach


def _position_table(name, fd) -> bool:
    """`name` is bound once in fd to a mapping from members to their POSITIONS in a sequence ({v: n for n, v in enumerate(seq)}, dict(zip(seq, range(..)))):
    different members have different positions, so a look-up in it can be read back"""
    if fd is None:
        return False
    vals = [st.value for st in ast.walk(fd) if isinstance(st, ast.Assign) and any(isinstance(t, ast.Name) and t.id == name for t in st.targets)]
    if len(vals) != 1:
        return False
    v = vals[0]
    if isinstance(v, ast.DictComp) and len(v.generators) == 1 and isinstance(v.generators[0].iter, ast.Call) and (dotted_name(v.generators[0].iter.func) or "") == "enumerate" \
            and isinstance(v.generators[0].target, ast.Tuple) and len(v.generators[0].target.elts) == 2 and all(isinstance(e, ast.Name) for e in v.generators[0].target.elts) \
            and not v.generators[0].ifs:
        cnt, item = (e.id for e in v.generators[0].target.elts)
        return isinstance(v.value, ast.Name) and v.value.id == cnt and isinstance(v.key, ast.Name) and v.key.id == item
    if isinstance(v, ast.Call) and (dotted_name(v.func) or "") == "dict" and len(v.args) == 1 and isinstance(v.args[0], ast.Call) and (dotted_name(v.args[0].func) or "") == "zip" \
            and len(v.args[0].args) == 2 and isinstance(v.args[0].args[1], ast.Call) and (dotted_name(v.args[0].args[1].func) or "") in ("range", "itertools.count"):
        return True
    return False


def _embedded_loop_vars(key, loop, loop_vars, depth=0, fd=None) -> set:
    """loop variables whose value can be read back from the value of the key expression: the variable itself, a component of a tuple / index tuple / f-string,
    str()/repr() of it, a constant added or subtracted, or a body local bound once to such an expression"""
    if depth > 6:
        return set()
    rec = lambda e: _embedded_loop_vars(e, loop, loop_vars, depth + 1, fd)
    if isinstance(key, ast.Subscript) and isinstance(key.value, ast.Name) and _position_table(key.value.id, fd):
        return rec(key.slice)            # position of the member in a sequence of distinct members
    if isinstance(key, ast.Name):
        if key.id in loop_vars:
            return {key.id}
        values = [st.value for st in ast.walk(loop) if isinstance(st, ast.Assign) and any(isinstance(t, ast.Name) and t.id == key.id for t in st.targets)]
        return rec(values[0]) if len(values) == 1 else set()
    if isinstance(key, (ast.Tuple, ast.List)):
        out = set()
        for e in key.elts:
            out |= rec(e)
        return out
    if isinstance(key, ast.JoinedStr):
        out = set()
        for v in key.values:
            if isinstance(v, ast.FormattedValue):
                out |= rec(v.value)
        return out
    if isinstance(key, ast.BinOp) and isinstance(key.op, (ast.Add, ast.Sub)):
        if isinstance(key.right, ast.Constant):
            return rec(key.left)
        if isinstance(key.left, ast.Constant):
            return rec(key.right)
        return set()
    if isinstance(key, ast.Call) and isinstance(key.func, ast.Name) and key.func.id in ("str", "repr", "tuple") and len(key.args) == 1 and not key.keywords:
        return rec(key.args[0])
    if isinstance(key, ast.Starred):
        return rec(key.value)
    return set()


def _distinct_per_iteration(key, loop, loop_vars, fd=None) -> bool:
    """different members of the collection give different keys: every loop variable can be read back from the key"""
    return _embedded_loop_vars(key, loop, loop_vars, 0, fd) >= set(loop_vars)


def commutative_body(loop: ast.For, fd=None, effectful=()):
    """body consists only of keyed stores X[.. loop vars ..] = value (value not reading X) into containers whose order is not
    observable, per-iteration locals and `continue`-guards; returns (ok, reason)"""
    loop_vars = {n.id for n in ast.walk(loop.target) if isinstance(n, ast.Name)}
    ordered = ordered_containers(fd)
    # plain locals bound in the body: fine when every iteration binds them before reading them (nothing carried over)
    body_locals = {t.id for st in ast.walk(loop) if isinstance(st, ast.Assign) for t in st.targets if isinstance(t, ast.Name)}
    carried = set()
    if body_locals:
        from .cfg import DefiniteAssignment
        fn = ast.FunctionDef(name="body", args=ast.arguments(posonlyargs=[], args=[], kwonlyargs=[], kw_defaults=[], defaults=[]),
                             body=loop.body, decorator_list=[], lineno=loop.lineno, col_offset=0)
        try:
            carried = {name for name, node, path in DefiniteAssignment(fn).problems if name in body_locals}
        except Exception:
            carried = set(body_locals)

    def ok_stmt(st):
        if isinstance(st, (ast.Pass, ast.Continue)):
            return True, ""
        if isinstance(st, ast.Expr) and isinstance(st.value, ast.Call):
            name = dotted_name(st.value.func) or ""
            if name.split(".")[0] in ("logger", "logging", "print"):
                return True, ""
            if name.split(".")[-1] in ("append", "extend", "insert", "write", "writelines", "appendleft"):
                return False, f"order-recording call {name}()"
            last = name.split(".")[-1] or (st.value.func.attr if isinstance(st.value.func, ast.Attribute) else "")
            if effectful and (last in effectful or last in IO_CALLS):
                return False, f"call {src(st.value.func)[:50]}() writes files or prints: the order of these calls is observable"
            return True, ""
        if isinstance(st, ast.If):
            for s in st.body + st.orelse:
                o, why = ok_stmt(s)
                if not o:
                    return o, why
            return True, ""
        if isinstance(st, ast.Assign) and len(st.targets) == 1 and isinstance(st.targets[0], ast.Subscript):
            t = st.targets[0]
            idx_names = {n.id for n in ast.walk(t.slice) if isinstance(n, ast.Name)}
            base = src(t.value)
            reads_base = any(src(n) == base for n in ast.walk(st.value) if isinstance(n, (ast.Name, ast.Attribute)))
            root = t.value
            while isinstance(root, (ast.Attribute, ast.Subscript)):
                root = root.value
            if isinstance(root, ast.Name) and root.id in ordered:
                return False, f"store {src(t)} adds or sets a column/row of the pandas object {root.id}: its column order (printed, iterated later) follows the set order"
            if (idx_names & (loop_vars | (body_locals - carried))) and not reads_base:
                if not _distinct_per_iteration(t.slice, loop, loop_vars, fd):
                    return False, (f"store {src(t)} is keyed by a value derived from the loop variable that need not differ between iterations "
                                   f"(two members of the set can map to one key: the one that comes last in set order wins)")
                return True, ""
            return False, f"store {src(t)} is not keyed by the loop variable or reads the container being built"
        if isinstance(st, ast.Assign) and all(isinstance(t_, ast.Name) for t_ in st.targets):
            names_ = {t_.id for t_ in st.targets}
            if names_ & carried:
                return False, f"local {sorted(names_ & carried)} is read before it is bound in an iteration (carried over from the previous one)"
            return True, ""
        if isinstance(st, ast.AugAssign) and isinstance(st.op, (ast.Add, ast.Mult)):
            return False, f"floating-point accumulation {src(st)[:60]} depends on the iteration order"
        return False, f"statement {src(st)[:60]}"

    for st in loop.body:
        o, why = ok_stmt(st)
        if not o:
            return False, why
    return True, ""


def ambient_uses(mod: Mod):
    out = []
    for q, f in mod.funcs.items():
        for n in ast.walk(f):
            if isinstance(n, (ast.Call, ast.Attribute)):
                name = dotted_name(n.func if isinstance(n, ast.Call) else n) or ""
                kind = None
                head = name.split(".")[0]
                if head in mod.imports and mod.imports[head][0] == "mod":
                    full = mod.imports[head][1] + name[len(head):]
                elif head in mod.imports and mod.imports[head][0] == "from":
                    full = mod.imports[head][1] + "." + mod.imports[head][2] + name[len(head):]
                else:
                    full = name
                if any(full.startswith(a) or full == a.rstrip(".") for a in AMBIENT):
                    out.append((q, n, full))
            if isinstance(n, ast.Call) and isinstance(n.func, ast.Name) and n.func.id == "id":
                out.append((q, n, "id()"))
    # de-duplicate nested attribute/call pairs
    seen, res = set(), []
    for q, n, full in out:
        k = (q, getattr(n, "lineno", 0), full.split("(")[0])
        if k not in seen:
            seen.add(k)
            res.append((q, n, full))
    return res


def open_calls(mod: Mod):
    out = []
    for q, f in mod.funcs.items():
        for n in ast.walk(f):
            if isinstance(n, ast.Call) and (dotted_name(n.func) or "") in ("open", "io.open"):
                mode = None
                if len(n.args) > 1:
                    mode = n.args[1]
                for k in n.keywords:
                    if k.arg == "mode":
                        mode = k.value
                m = mode.value if isinstance(mode, ast.Constant) else ("r" if mode is None else "?")
                out.append((q, n, m))
    return out


CACHE_DECORATORS = {"functools.lru_cache", "functools.cache", "lru_cache", "cache", "functools.cached", "cachetools.cached", "joblib.Memory.cache"}


def process_wide_caches(mod: Mod):
    """functions memoised for the life of the process (functools.lru_cache/cache on a module-level function or a
    method): [(qualname, node, why it is history-dependent)].  A memo is harmless only for a pure function of
    immutable arguments returning an immutable value; it is reported when the function reads a file / the file system
    (the cache key does not contain the file's content) or returns a freshly built mutable container (callers share it)."""
    out = []
    for q, f in mod.funcs.items():
        deco = None
        for d in f.decorator_list:
            name = dotted_name(d.func if isinstance(d, ast.Call) else d) or ""
            if name in CACHE_DECORATORS or name.split(".")[-1] in ("lru_cache", "cache", "memoize", "memoized"):
                deco = name
        if deco is None:
            continue
        reasons = []
        for c in ast.walk(f):
            if isinstance(c, ast.Call):
                nm = dotted_name(c.func) or ""
                if nm in ("open", "io.open") or nm.split(".")[-1] in ("read_table", "read_csv", "load", "safe_load", "loadtxt", "read_text", "glob", "exists", "is_file"):
                    reasons.append(f"reads external state through {nm}()")
        rets = [r.value for r in ast.walk(f) if isinstance(r, ast.Return) and r.value is not None]
        if any(isinstance(r, (ast.List, ast.Dict, ast.Set, ast.ListComp, ast.DictComp)) or
               (isinstance(r, ast.Call) and (dotted_name(r.func) or "").split(".")[-1] in ("list", "dict", "array", "zeros", "DataFrame")) for r in rets):
            reasons.append("returns a mutable container that every caller then shares")
        if isinstance(f.args.args[0].arg if f.args.args else None, str) and f.args.args and f.args.args[0].arg == "self":
            reasons.append("keeps every instance alive and shares results between calculations through self-keyed entries")
        if not reasons:
            reasons.append("its result (and anything reachable from it) is shared by every later call in the process")
        out.append((q, f, f"@{deco}: " + "; ".join(sorted(set(reasons)))))
    return out


INPLACE_METHODS = {"ito", "ito_base_units", "ito_reduced_units", "ito_root_units", "sort", "fill", "resize", "put", "itemset", "partition",
                   "setfield", "byteswap"}
VIEW_WRAPPERS = {"Quantity", "asarray", "asanyarray", "ascontiguousarray", "atleast_1d", "atleast_2d", "ravel", "reshape", "squeeze",
                 "transpose", "view", "diagonal", "getattr"}


def shared_value_expr(n, shared_locals, callbacks=()) -> bool:
    """expression that denotes (a view of / a wrapper around) an object owned by someone else.  `callbacks`: parameters of the
    enclosing function; the result of calling one of them (a resolver handed in by the caller) belongs to whoever owns it."""
    if isinstance(n, ast.IfExp):
        return shared_value_expr(n.body, shared_locals, callbacks) or shared_value_expr(n.orelse, shared_locals, callbacks)
    if isinstance(n, ast.BoolOp):
        return any(shared_value_expr(v, shared_locals, callbacks) for v in n.values)
    if isinstance(n, ast.Call) and isinstance(n.func, ast.Name) and n.func.id in callbacks:
        return True
    if isinstance(n, ast.Attribute):
        if n.attr in ("T", "real", "imag", "magnitude", "m", "values"):
            return shared_value_expr(n.value, shared_locals)
        return not (isinstance(n.value, ast.Name) and n.value.id in ("numpy", "np", "math"))
    if isinstance(n, ast.Name):
        return n.id in shared_locals
    if isinstance(n, ast.Subscript):
        return shared_value_expr(n.value, shared_locals)
    if isinstance(n, ast.Call):
        name = (dotted_name(n.func) or "").split(".")[-1]
        if name in VIEW_WRAPPERS and n.args:
            if name == "getattr":
                return True
            return shared_value_expr(n.args[0], shared_locals)
        if isinstance(n.func, ast.Attribute) and n.func.attr in ("view", "reshape", "ravel", "squeeze", "transpose", "to") and False:
            return shared_value_expr(n.func.value, shared_locals)
    return False


def _elements_of_shared(target, it, shared_locals, callbacks):
    """[(loop variable, description)] for the targets of `for target in it` that are bound to elements of a shared container"""
    def names(t):
        return [t.id] if isinstance(t, ast.Name) else []

    if isinstance(it, ast.Call) and isinstance(it.func, ast.Attribute) and not it.args and it.func.attr in ("items", "values") \
            and shared_value_expr(it.func.value, shared_locals, callbacks):
        what = f"an element of {src(it.func.value)[:50]}"
        if it.func.attr == "values":
            return [(n_, what) for n_ in names(target)]
        if isinstance(target, (ast.Tuple, ast.List)) and len(target.elts) == 2:
            return [(n_, what) for n_ in names(target.elts[1])]
        return []
    if isinstance(it, ast.Call) and isinstance(it.func, ast.Name) and it.func.id in ("reversed", "sorted", "list", "tuple", "iter") and len(it.args) == 1:
        return _elements_of_shared(target, it.args[0], shared_locals, callbacks)
    if isinstance(it, ast.Call) and isinstance(it.func, ast.Name) and it.func.id == "enumerate" and it.args \
            and isinstance(target, (ast.Tuple, ast.List)) and len(target.elts) == 2:
        return _elements_of_shared(target.elts[1], it.args[0], shared_locals, callbacks)
    if isinstance(it, ast.Call) and isinstance(it.func, ast.Name) and it.func.id == "zip" and isinstance(target, (ast.Tuple, ast.List)) \
            and len(target.elts) == len(it.args):
        out = []
        for t_, a_ in zip(target.elts, it.args):
            out += _elements_of_shared(t_, a_, shared_locals, callbacks)
        return out
    if isinstance(it, (ast.Attribute, ast.Name, ast.Subscript)) and shared_value_expr(it, shared_locals, callbacks):
        return [(n_, f"an element of {src(it)[:50]}") for n_ in names(target)]
    return []


def inplace_on_shared(mod: Mod):
    """in-place operations on locals that alias shared values: [(qualname, node, description)]"""
    out = []
    for q, f in mod.funcs.items():
        params = {a.arg for a in f.args.posonlyargs + f.args.args + f.args.kwonlyargs} - {"self", "cls"}
        shared = {}
        slots = {}
        order = [st for st in ast.walk(f) if isinstance(st, (ast.Assign, ast.AugAssign, ast.Expr, ast.For))]
        order.sort(key=lambda st: (st.lineno, st.col_offset))
        for st in order:
            if isinstance(st, ast.For):
                # the loop variable is, in turn, each element held by a shared container: an in-place operation on it changes the
                # owner's element (dict.items()/values(), the container itself, enumerate/zip/reversed/sorted of those)
                for name, why in _elements_of_shared(st.target, st.iter, set(shared), params):
                    shared[name] = why
                continue
            if isinstance(st, ast.Assign) and len(st.targets) == 1 and isinstance(st.targets[0], ast.Name):
                tgt = st.targets[0].id
                if shared_value_expr(st.value, set(shared), params) and not isinstance(st.value, ast.Name):
                    shared[tgt] = src(st.value)[:60]
                elif isinstance(st.value, ast.Name) and st.value.id in shared:
                    shared[tgt] = shared[st.value.id]
                else:
                    shared.pop(tgt, None)
            elif isinstance(st, ast.Assign) and len(st.targets) == 1 and isinstance(st.targets[0], ast.Subscript) \
                    and isinstance(st.targets[0].value, ast.Name) and st.targets[0].value.id not in shared:
                # a slot of a local container: it holds (not copies) whatever is stored into it
                slot = (st.targets[0].value.id, src(st.targets[0].slice))
                if shared_value_expr(st.value, set(shared), params):
                    slots[slot] = src(st.value)[:60]
                else:
                    slots.pop(slot, None)
            elif isinstance(st, ast.AugAssign) and isinstance(st.target, ast.Name) and st.target.id in shared:
                out.append((q, st, f"augmented assignment on {st.target.id} = {shared[st.target.id]}"))
            elif isinstance(st, ast.AugAssign) and isinstance(st.target, ast.Subscript) and isinstance(st.target.value, ast.Name) \
                    and (st.target.value.id, src(st.target.slice)) in slots:
                slot = (st.target.value.id, src(st.target.slice))
                out.append((q, st, f"augmented assignment on {slot[0]}[{slot[1]}] = {slots[slot]}"))
            elif isinstance(st, ast.Expr) and isinstance(st.value, ast.Call) and isinstance(st.value.func, ast.Attribute) \
                    and st.value.func.attr in INPLACE_METHODS:
                root = st.value.func.value
                if isinstance(root, ast.Name) and root.id in shared:
                    out.append((q, st, f"{root.id}.{st.value.func.attr}() on {root.id} = {shared[root.id]}"))
                elif shared_value_expr(root, set(shared)) and not isinstance(root, ast.Name):
                    out.append((q, st, f"{src(st.value.func)}() on a shared value"))
    return out
