"""C12 — results are finite and real on the whole grid for every valid configuration (hazard analysis)."""
from __future__ import annotations

import ast

from ..cfg import DefiniteAssignment
from ..facts import LONG, OFFD
from ..fphazard import Hazard, functions_with_exp, plain
from ..libsum import lib_func, return_arity
from ..model import dotted_name, src, DEAD_MODULES, member_kind as member_kind_
from ..report import AnalysisError, Where
from . import C01, C02, C11

NS = "cij.core.phonon_contribution.nonshear"
LEVEL = "other"
TECHNIQUE = "static analysis: absence of enumerated hazard classes (asymptotic float-hazard domain on the AST, complex-dtype sources, library arity, definite assignment, undefined names)"
EXPLANATION = (
    "Hazard analysis - the clauses are 'no enumerated hazard class is present on the calculation path', not finiteness "
    "itself: (1) every function that evaluates exp()/expm1() is interpreted on the AST, in source evaluation order, over "
    "an asymptotic domain for Q = hbar*omega/kT -> infinity {polynomial, ->0, may-overflow, may-NaN}; no inf/inf, inf-inf "
    "or 0*inf reaches a returned Bose factor; (2) no call whose result dtype is complex for real input (numpy.linalg.eig, "
    "eigvals, roots, emath, cmath, complex literals) occurs in the live core modules; (3) every interpolator is "
    "constructible and extrapolates; (4) thermal parts and the gap are masked at T = 0; (5) every schema-valid method is "
    "dispatched; (6) unpack arity of library results matches the installed library; (7) Gamma acoustic entries are "
    "overwritten before the reduction; (8) main-path well-formedness: definite assignment and no undefined global name in "
    "every function (triaged suppressions listed in the evidence).")
NOT_DECIDED = "finiteness in general, positivity of C_V, positive definiteness of the stiffness, c(T) -> c(0)."
ASSUMPTIONS = ["block loops over a grid axis are folded once; coverage of the axis is refuted by an exact integer witness or accepted when the trip count is ceil(L/b) structurally / on the box [1,240] x ([1,48] + {64,100,1000}) (cijsa/blocks.py)",
               "T-LIB: the temperature grid T_MIN + DT * arange(NT) (qha.tools.arange) is integer-typed when T_MIN and DT are whole numbers: operations that keep an integer element type (numpy.reciprocal without dtype, negative integer powers) are findings",
               "Q = hbar*omega/kT > 0 on entries that survive the Gamma mask and the T = 0 row mask (R01.6, R01.7, R01.9)",
               "T-LIB: numpy.linalg.eig/eigvals/roots, numpy.emath.*, cmath.* return complex dtype; eigh/eigvalsh return real",
               "T-LIB: installed qha polynomial_least_square_fitting returns one array"]

COMPLEX_SOURCES = {"numpy.linalg.eig", "numpy.linalg.eigvals", "scipy.linalg.eig", "scipy.linalg.eigvals", "numpy.roots",
                   "numpy.lib.scimath.sqrt", "numpy.emath.sqrt", "numpy.emath.log", "numpy.emath.power", "cmath.sqrt", "cmath.exp",
                   "cmath.log", "scipy.linalg.schur", "numpy.fft.fft", "scipy.linalg.sqrtm", "scipy.linalg.logm"}
CORE_MODULES = ["cij.core.calculator", "cij.core.full_modulus", "cij.core.tasks", "cij.core.mode_gamma", "cij.core.qha_adapter",
                "cij.core.phonon_contribution.nonshear", "cij.core.phonon_contribution.shear", "cij.util.voigt", "cij.util.fill",
                "cij.util.units", "cij.io.traditional.elast_dat", "cij.io.traditional.qha_input", "cij.io.output.results_writer"]

# X1 triage: one named symbol per entry, with the reason (DESIGN section 6 C12)
# domain assumptions of command functions (instead of suppressing the names today's code happens to use): which option
# parameters are an exactly-one-of group, and which parameters are non-empty lists
X1_DOMAIN = {
    ("cij.cli.extract", "main"): dict(one_of={"temperature", "pressure"}, nonempty={"variables"},
                                      why="extract requires exactly one of -T / -P and at least one variable (C19's domain)"),
    ("cij.cli.geotherm", "main"): dict(one_of=set(), nonempty={"variables"}, why="extract-geotherm requires at least one variable"),
    # the remaining assumptions identify their construct structurally (parameter position, loop shape), never by a local's name
    ("cij.core.mode_gamma", "interpolate_mode_ppoly"): dict(enum_param=3, why="an if/elif chain comparing parameter #3 (the method name) with string constants is "
                                                            "exhaustive: the callee handles exactly the names its only caller dispatches to it (decided by R11.5 dispatch.ppoly)"),
    ("cij.plot.modes", "ModePlotter.plot_modes"): dict(enum_param=2, why="an if/elif chain comparing parameter #2 (n) with constants is exhaustive: n outside {0,1,2} is outside C11's n = 0,1,2"),
    ("cij.io.traditional.qha_input", "read_energy"): dict(file_search=True, why="a search loop over the lines of the opened file that stops at a pattern hit does hit: "
                                                          "a file without a counts line is outside 'well-formed file'"),
}
X1_SUPPRESS = {
    ("cij.plot.quick", "_guess_unit", None): "plotting helper, no property",
}


def r_overflow(ctx, model):
    mod = model.mod(NS)
    n = 0
    for q, f in functions_with_exp(mod):
        cls = q.split(".")[0]
        cref = f"{NS}:{cls}"
        if cls not in mod.classes:
            # a module-level helper: analysed where a class calls it (with the class of the actual argument); it must be called
            called = any(isinstance(c, ast.Call) and isinstance(c.func, ast.Name) and c.func.id == q for g in mod.funcs.values() for c in ast.walk(g))
            if not called and "." not in q:
                raise AnalysisError(f"exp() evaluated in {q}, a function nothing in the module calls")
            if "." in q and q.split(".")[0] not in mod.classes:
                raise AnalysisError(f"exp() evaluated outside a class in {q}")
            continue
        ctx.fn(f"{NS}:{q}")
        n += 1
        hz = Hazard(model, cref)
        r = plain(hz.function(f))
        ctx.check(r != "NANH", f"{q}: no inf/inf, inf-inf, 0*inf for large Q", model.where(f"{NS}:{q}", f), expected="class in {polynomial, ->0, may-overflow}",
                  found=f"{r}: " + "; ".join(hz.trace)[:300] if hz.trace else r,
                  explanation=f"{q} evaluates an expression that is inf/inf (or inf-inf, 0*inf) = NaN once Q = hbar*omega/kT exceeds "
                              f"~709 (low temperature, high frequency); rows with T > 0 are not masked", key=f"{q}.nan-hazard")
    # consumers: thermal expressions must not combine an overflowing factor either
    for cref in (LONG, OFFD):
        for attr in ("thermal_contribution", "isothermal_to_adiabatic"):
            owner, f, kind = model.find_member(cref, attr)
            if f is None:
                raise AnalysisError(f"anchor vanished: {cref}.{attr}")
            hz = Hazard(model, cref)
            env = {}
            sn = f.args.args[0].arg
            res = "P"
            for st in f.body:
                if isinstance(st, ast.Assign) and isinstance(st.targets[0], ast.Name):
                    env[st.targets[0].id] = hz.expr(st.value, env, sn)
                    res = env[st.targets[0].id]
            n += 1
            bad = [k for k, v in env.items() if plain(v) in ("NANH", "OVF")]
            ctx.check(not bad, f"{cref.split(':')[1].split('Elastic')[0]}.{attr}: finite for large Q", model.where(f"{owner}.{attr}", f),
                      expected="no overflowing or NaN intermediate", found=str({k: env[k] for k in bad}) + " " + "; ".join(hz.trace)[:200] if bad else "finite",
                      explanation=f"{attr} combines Bose factors into a value that overflows or is NaN at low temperature", key=f"{cref.split(':')[1][:4]}.{attr}.hazard")
    ctx.floor("functions evaluating exp()", n, 2)


# factorisations that exist only for positive-definite input: they raise LinAlgError for the whole (T, V) stack as soon as one
# grid point is not positive definite, although every modulus is finite there (the property admits such grid corners)
PD_ONLY = {"numpy.linalg.cholesky", "scipy.linalg.cholesky", "scipy.linalg.cho_factor", "scipy.linalg.cho_solve", "scipy.linalg.cholesky_banded",
           "numpy.linalg.cholesky_inv", "scipy.linalg.solveh_banded"}


def r_pd_only(ctx, model):
    n = 0
    found = []
    for mname in CORE_MODULES:
        mod = model.mod(mname)
        for q, f in mod.funcs.items():
            n += 1
            for c in ast.walk(f):
                if isinstance(c, ast.Call):
                    name = dotted_name(c.func) or ""
                    kind, ref = model.resolve_name(mod, name) if name else ("ext", name)
                    full = ref if kind == "ext" else name
                    if full in PD_ONLY or (full.split(".")[-1] == "solve" and any(kw.arg in ("assume_a", "sym_pos") and "pos" in src(kw.value) + (kw.arg or "") for kw in c.keywords)):
                        found.append((mname, q, c, full))
    ctl = ast.parse("import numpy\ndef f(a):\n    return numpy.linalg.cholesky(a)\n")
    if not any(isinstance(c, ast.Call) and dotted_name(c.func) in PD_ONLY for c in ast.walk(ctl)):
        raise AnalysisError("positive control for the positive-definite-only matcher failed")
    if not found:
        ctx.ok(f"no positive-definite-only factorisation in {len(CORE_MODULES)} live modules ({n} functions)", Where("cij/core", "", 0), "0 sites")
    for mname, q, c, full in found:
        mod = model.mod(mname)
        ctx.violation(f"{q}:{full}", Where(mod.rel, q, c.lineno), expected="a general inverse / solve (numpy.linalg.inv, solve)",
                      found=src(c)[:100], explanation=f"{full} raises LinAlgError unless its argument is positive definite at EVERY grid point: a grid corner "
                                                      f"where the stiffness is not positive definite (allowed by the property) aborts the whole calculation",
                      instance=f"{q}: {full}")


def r_complex(ctx, model):
    n = 0
    found = []
    for mname in CORE_MODULES:
        mod = model.mod(mname)
        for q, f in mod.funcs.items():
            n += 1
            for c in ast.walk(f):
                if isinstance(c, ast.Call):
                    name = dotted_name(c.func) or ""
                    kind, ref = model.resolve_name(mod, name) if name else ("ext", name)
                    full = ref if kind == "ext" else name
                    if full in COMPLEX_SOURCES:
                        found.append((mname, q, c, full))
                elif isinstance(c, ast.Constant) and isinstance(c.value, complex):
                    found.append((mname, q, c, "complex literal"))
    ctx.extra["functions_scanned_for_complex_sources"] = n
    # positive control: the dead module still contains eig call sites - the matcher must see them
    dead = model.mods.get("cij.core.modulus_worker")
    if dead is not None:
        ctl = sum(1 for c in ast.walk(dead.tree) if isinstance(c, ast.Call) and (dotted_name(c.func) or "") == "numpy.linalg.eig")
        ctx.extra["positive_control_eig_sites_in_dead_module"] = ctl
    ctl2 = ast.parse("import numpy\ndef f(a):\n    return numpy.linalg.eig(a)[0]\n")
    if not any(isinstance(c, ast.Call) and dotted_name(c.func) in COMPLEX_SOURCES for c in ast.walk(ctl2)):
        raise AnalysisError("positive control for the complex-source matcher failed")
    if not found:
        ctx.ok(f"no complex-dtype source in {len(CORE_MODULES)} live modules ({n} functions)", Where("cij/core", "", 0), "0 sites")
    for mname, q, c, full in found:
        mod = model.mod(mname)
        ctx.violation(f"{q}:{full}", Where(mod.rel, q, c.lineno), expected="real-valued decomposition (numpy.linalg.eigh / eigvalsh)",
                      found=src(c)[:100], explanation=f"{full} returns complex arrays for real input on the installed numpy: "
                                                      f"every modulus derived from it is complex (or the run aborts on the first in-place add)",
                      instance=f"{q}: {full}")


class Proxy:
    """run another property's rule function, relabelling its rule ids and keeping only the wanted ones"""

    def __init__(self, ctx, mapping):
        self.ctx, self.mapping, self.cur = ctx, mapping, None

    def begin_rule(self, rid, text):
        self.cur = rid

    def __getattr__(self, name):
        return getattr(self.ctx, name)

    def _on(self):
        return self.cur in self.mapping

    def ok(self, *a, **k):
        if self._on():
            self.ctx.ok(*a, **k)

    def violation(self, *a, **k):
        if self._on():
            self.ctx.violation(*a, **k)

    def check(self, cond, *a, **k):
        if self._on():
            return self.ctx.check(cond, *a, **k)
        return cond

    def floor(self, *a, **k):
        pass


def r_interp(ctx, model):
    p = Proxy(ctx, {"R11.8"})
    p.cur = "R11.1-3"
    C11.r_helpers(p, model)


def r_nodes(ctx, model):
    C11.r_node_selection(ctx, model)


def r_masks(ctx, model):
    C01.r_mask(ctx, model)
    p = Proxy(ctx, {"x"})
    p.cur = "x"
    # gap masks: reuse C02's evaluation, keep only the mask instances
    px = Reuse(ctx, lambda lab: "T=0" in lab or "T = 0" in lab or "t0mask" in lab, minimum=1)
    C02.r_gap(px, model)
    px.done("C02.r_gap")


class Reuse(Proxy):
    """run another property's rule function under the current rule of this property, keeping the instances whose label
    satisfies `keep` (all of them by default).  Violations raised by the reused rule are kept too.  `done()` fails closed
    when fewer than `minimum` instances were kept (a label changed: the reuse would otherwise pass vacuously)."""

    def __init__(self, ctx, keep=None, minimum=1):
        super().__init__(ctx, set())
        self.keep, self.minimum, self.kept = keep, minimum, 0

    def _wanted(self, label):
        return self.keep is None or bool(self.keep(label or ""))

    def ok(self, instance, *a, **k):
        if self._wanted(instance):
            self.kept += 1
            self.ctx.ok(instance, *a, **k)

    def violation(self, key, *a, **k):
        label = k.get("instance") or key
        if self._wanted(label) or self._wanted(key):
            self.kept += 1
            self.ctx.violation(key, *a, **k)

    def check(self, cond, instance, *a, **k):
        if self._wanted(instance):
            self.kept += 1
            return self.ctx.check(cond, instance, *a, **k)
        return cond

    def floor(self, *a, **k):
        return None

    def done(self, what):
        if self.kept < self.minimum:
            raise AnalysisError(f"reused rule {what}: {self.kept} instance(s) matched the label filter (expected at least {self.minimum})")


def r_dispatch(ctx, model):
    px = Reuse(ctx, lambda lab: "every non-acoustic" in lab or "dispatched" in lab or lab.startswith("loop."), minimum=2)
    C11.r_loop(px, model)
    C11.r_dispatch(px, model)
    px.done("C11.r_loop / C11.r_dispatch")


def r_arity(ctx, model):
    fd = lib_func("qha/fitting.py", "polynomial_least_square_fitting")
    ar = return_arity(fd)
    ctx.libfact(f"installed qha polynomial_least_square_fitting returns arity {sorted(ar)}")
    n = 0
    for mname, mod in model.mods.items():
        if mname in DEAD_MODULES:
            continue
        for q, f in mod.funcs.items():
            for st in ast.walk(f):
                if isinstance(st, ast.Assign) and isinstance(st.value, ast.Call) and \
                        (dotted_name(st.value.func) or "").split(".")[-1] == "polynomial_least_square_fitting":
                    if any(st in ast.walk(g) for qq, g in mod.funcs.items() if qq != q and qq.startswith(q + ".")):
                        continue
                    n += 1
                    tgt = st.targets[0]
                    k = len(tgt.elts) if isinstance(tgt, (ast.Tuple, ast.List)) else 1
                    ctx.check(k == 1 or ar == {k}, f"{mname}:{q} unpack of polynomial_least_square_fitting", Where(mod.rel, q, st.lineno),
                              expected=f"{sorted(ar)} value(s)", found=f"{k} target(s)",
                              explanation="the result of qha's fit is unpacked into a different number of targets than the installed "
                                          "function returns ('too many values to unpack'): the calculation aborts",
                              key=f"{q}.plsf.unpack")
    ctx.floor("call sites of polynomial_least_square_fitting", n, 3)


def r_gamma_store(ctx, model):
    px = Reuse(ctx, lambda lab: "Gamma" in lab or "average_over_modes" in lab or "cell by cell" in lab)
    C01.r_average(px, model)
    # ... and they carry no weight in any contribution, whatever code reduces over the modes (= R01.13: the cells (q = 0, m < 3), whose
    # Bose factors are 0/0, must be absent from the folded zero-point and thermal sums)
    C01.r_cells(px, model)
    px.done("C01.r_average / C01.r_cells")


def x1_hooks(f, dom):
    """domain assumptions of one function as hooks for the definite-assignment walk"""
    def _names(node):
        return {x.id for x in ast.walk(node) if isinstance(x, ast.Name)}
    params = [a.arg for a in f.args.posonlyargs + f.args.args]
    one_of = set(dom.get("one_of", ()))
    enum_name = params[dom["enum_param"]] if dom.get("enum_param") is not None and dom["enum_param"] < len(params) else None

    def exhaustive(chain):
        if one_of:
            # every link tests only option parameters of the one-of group, and together they mention all of them
            used = set()
            for tnode in chain:
                nm = _names(tnode) - {"None", "True", "False"}
                if not nm or not nm <= one_of:
                    break
                used |= nm
            else:
                if used == one_of:
                    return True
        if enum_name is not None:
            # every link compares the enumerated parameter with a constant (== c, in (c, ...))
            def link(t):
                if isinstance(t, ast.BoolOp) and isinstance(t.op, ast.Or):
                    return all(link(v) for v in t.values)
                return isinstance(t, ast.Compare) and len(t.ops) == 1 and isinstance(t.ops[0], (ast.Eq, ast.In)) and isinstance(t.left, ast.Name) \
                    and t.left.id == enum_name and all(isinstance(c, ast.Constant) for c in
                                                       (t.comparators[0].elts if isinstance(t.comparators[0], (ast.Tuple, ast.List, ast.Set)) else t.comparators))
            return all(link(t) for t in chain)
        return False

    def nonempty(it):
        return isinstance(it, ast.Name) and it.id in dom.get("nonempty", ())

    # names whose value derives from the domain variable (the enumerated parameter, the opened file): a binding that is
    # conditional on such a name is conditional on the domain assumption (`getter = next((g for k, g in TABLE if n == k), None)`;
    # `if getter is not None: w = ...` binds w for every n in the domain)
    derived = set()

    opened = set()
    for n in ast.walk(f):
        if isinstance(n, ast.With):
            for it in n.items:
                if isinstance(it.optional_vars, ast.Name) and isinstance(it.context_expr, ast.Call) \
                        and src(it.context_expr.func).split(".")[-1] == "open":
                    opened.add(it.optional_vars.id)

    seeds_ = ({enum_name} if enum_name else set()) | (opened if dom.get("file_search") else set())
    derived |= seeds_
    changed = bool(seeds_)
    while changed:
        changed = False
        for st in ast.walk(f):
            tgt, val = None, None
            if isinstance(st, ast.Assign):
                tgt, val = st.targets, st.value
            elif isinstance(st, (ast.AnnAssign, ast.AugAssign, ast.NamedExpr)) and st.value is not None:
                tgt, val = [st.target], st.value
            elif isinstance(st, (ast.For, ast.comprehension)):
                tgt, val = [st.target], st.iter
            if val is None or not (_names(val) & derived):
                continue
            new_names = {x.id for t in tgt for x in ast.walk(t) if isinstance(x, ast.Name)} - derived
            if new_names:
                derived.update(new_names)
                changed = True
    base_exhaustive = exhaustive

    def exhaustive(chain, base_exhaustive=base_exhaustive):
        if base_exhaustive(chain):
            return True
        return bool(seeds_) and all(_names(t) & (derived - seeds_) for t in chain)

    def search_hits(loop):
        # `for line in <opened file>:` whose breaks are all guarded by a test (a search that stops at a hit)
        if not dom.get("file_search") or not (isinstance(loop.iter, ast.Name) and loop.iter.id in opened):
            return False
        return all(isinstance(st, ast.If) or not any(isinstance(x, ast.Break) for x in ast.walk(st)) for st in loop.body)
    return dict(exhaustive=exhaustive, nonempty=nonempty, search_hits=search_hits)


def r_wellformed(ctx, model):
    """X1 definite assignment + X4 undefined global names over every function of the package"""
    import builtins
    from ..model import Model
    model = Model.raw()         # names are checked on the source as written
    nf = 0
    reported = 0
    suppressed = []
    for mname, mod in sorted(model.mods.items()):
        dead = mname in DEAD_MODULES
        modnames = set(mod.globals) | set(mod.imports) | set(mod.classes) | {q for q in mod.funcs if "." not in q} | set(dir(builtins)) \
            | {"__file__", "__name__", "__version__", "__path__", "__doc__"}
        star_ext = False
        for base in mod.star_imports:
            if base in model.mods:
                o = model.mods[base]
                modnames |= set(o.globals) | set(o.imports) | set(o.classes) | {q for q in o.funcs if "." not in q} | set(getattr(o, "exported_names", ()))
            else:
                star_ext = True
        # names bound at module level by for/with/try
        for n in mod.tree.body:
            for t in ast.walk(n):
                if isinstance(t, ast.Name) and isinstance(t.ctx, ast.Store):
                    modnames.add(t.id)
        seen = set()
        for q, f in mod.funcs.items():
            nf += 1
            dom = X1_DOMAIN.get((mname, q))
            outer_f = f
            if dom is None:
                # a helper defined inside a command function shares its option parameters (closure)
                parts_ = q.split(".")
                for k_ in range(len(parts_) - 1, 0, -1):
                    if (mname, ".".join(parts_[:k_])) in X1_DOMAIN:
                        dom = X1_DOMAIN[(mname, ".".join(parts_[:k_]))]
                        outer_f = mod.funcs[".".join(parts_[:k_])]
                        break
            if dom:
                da = DefiniteAssignment(f, **x1_hooks(outer_f if outer_f is not f and dom.get("one_of") else f, dom))
                suppressed.append(f"{mname}:{q} - domain assumption: {dom['why']}")
            else:
                da = DefiniteAssignment(f)
            outer_locals = set()
            parts = q.split(".")
            for k in range(1, len(parts)):
                outer = mod.funcs.get(".".join(parts[:k]))
                if outer is not None:
                    outer_locals |= DefiniteAssignment.collect_locals(outer) | {a.arg for a in outer.args.posonlyargs + outer.args.args + outer.args.kwonlyargs} \
                        | {a.arg for a in (outer.args.vararg, outer.args.kwarg) if a is not None}
            for name, node, path in da.problems:
                key = (mname, q, name)
                if (mname, q, name) in seen:
                    continue
                seen.add(key)
                why = X1_SUPPRESS.get(key) or X1_SUPPRESS.get((mname, q, None)) or ("dead module: " + DEAD_MODULES[mname] if dead else None)
                if why:
                    suppressed.append(f"{mname}:{q}:{name} - {why}")
                    continue
                reported += 1
                ctx.violation(f"{q}:{name}", Where(mod.rel, q, node.lineno), expected=f"'{name}' bound on every path before it is read",
                              found=f"may be unbound on the path {path}",
                              explanation=f"local variable '{name}' of {q} is read on a path that does not assign it "
                                          f"(UnboundLocalError at run time): path {path}", instance=f"X1 {mname}:{q}:{name}")
            # X4 undefined globals
            locs = da.locals | {a.arg for a in f.args.posonlyargs + f.args.args + f.args.kwonlyargs} | outer_locals
            if f.args.vararg:
                locs.add(f.args.vararg.arg)
            if f.args.kwarg:
                locs.add(f.args.kwarg.arg)
            comp_vars = set()
            for n in ast.walk(f):
                if isinstance(n, ast.comprehension):
                    for t in ast.walk(n.target):
                        if isinstance(t, ast.Name):
                            comp_vars.add(t.id)
                if isinstance(n, ast.Lambda):
                    comp_vars |= {a.arg for a in n.args.args}
                if isinstance(n, (ast.FunctionDef,)) and n is not f:
                    comp_vars |= {a.arg for a in n.args.args + n.args.kwonlyargs} | DefiniteAssignment.collect_locals(n)
            for n in ast.walk(f):
                if isinstance(n, ast.Name) and isinstance(n.ctx, ast.Load) and n.id not in locs and n.id not in comp_vars \
                        and n.id not in modnames and not star_ext:
                    if dead:
                        suppressed.append(f"{mname}:{q}:{n.id} - dead module")
                        continue
                    if mname in ("cij.cli.main", "cij.cli.cij") and n.id == "__version__":
                        continue
                    reported += 1
                    ctx.violation(f"{q}:{n.id}:undefined", Where(mod.rel, q, n.lineno), expected="a defined name", found=f"'{n.id}' is not defined in any enclosing scope",
                                  explanation=f"name '{n.id}' used in {q} is not bound anywhere (NameError at run time)", instance=f"X4 {mname}:{q}:{n.id}")
    # X2 (attribute existence): in a class whose bases are all repository classes (so every attribute it can have is visible) and
    # which has no __getattr__, an attribute read through self that no method assigns, no class body defines and no module-level
    # setattr installs does not exist: AttributeError whenever that method runs
    nclasses = 0
    # attributes stored on some object from outside its class (`task.calculator.modulus = ...`): names stored through anything but self
    stored_elsewhere = set()
    for mname, mod in model.mods.items():
        for x in ast.walk(mod.tree):
            if isinstance(x, ast.Attribute) and isinstance(x.ctx, (ast.Store, ast.Del)) and not (isinstance(x.value, ast.Name) and x.value.id in ("self", "cls")):
                stored_elsewhere.add(x.attr)
            if isinstance(x, ast.Call) and isinstance(x.func, ast.Name) and x.func.id == "setattr" and len(x.args) >= 2 and isinstance(x.args[1], ast.Constant):
                stored_elsewhere.add(x.args[1].value)
    for mname, mod in sorted(model.mods.items()):
        if mname in DEAD_MODULES:
            continue
        for cname in mod.classes:
            cref = f"{mname}:{cname}"
            mro = model.mro(cref)
            if any(c.startswith("ext:") and not c.endswith(("object", "ABC")) for c in mro):
                continue
            if model.find_member(cref, "__getattr__")[1] is not None or model.find_member(cref, "__getattribute__")[1] is not None:
                continue
            nclasses += 1
            defined, reads = set(), {}
            # a mixin / template-method base reads what its subclasses provide: their class bodies and stores count too
            family = list(mro)
            for m2, mod2 in model.mods.items():
                for c2 in mod2.classes:
                    r2 = f"{m2}:{c2}"
                    if r2 != cref and cref in model.mro(r2):
                        family.append(r2)
            for c in family:
                if c.startswith("ext:"):
                    continue
                cm, cq = c.split(":")
                cnode = model.cls(c)
                for st in cnode.body:
                    if isinstance(st, (ast.FunctionDef, ast.AsyncFunctionDef, ast.ClassDef)):
                        defined.add(st.name)
                    for t in (st.targets if isinstance(st, ast.Assign) else ([st.target] if isinstance(st, ast.AnnAssign) else [])):
                        for x in ast.walk(t):
                            if isinstance(x, ast.Name):
                                defined.add(x.id)
                for q2, g in model.mods[cm].funcs.items():
                    if not q2.startswith(cq + ".") or not g.args.args or member_kind_(g) in ("staticmethod", "classmethod"):
                        continue
                    sn = g.args.args[0].arg
                    for x in ast.walk(g):
                        if isinstance(x, ast.Attribute) and isinstance(x.value, ast.Name) and x.value.id == sn:
                            if isinstance(x.ctx, (ast.Store, ast.Del)):
                                defined.add(x.attr)
                            elif c == cref:
                                reads.setdefault(x.attr, (q2, x))
                        if isinstance(x, ast.Call) and isinstance(x.func, ast.Name) and x.func.id in ("setattr", "getattr", "hasattr") and x.args \
                                and isinstance(x.args[0], ast.Name) and x.args[0].id == sn:
                            defined.add("*")
                # installed from module level
                for st in model.mods[cm].tree.body:
                    for x in ast.walk(st):
                        if isinstance(x, ast.Call) and isinstance(x.func, ast.Name) and x.func.id == "setattr" and x.args and isinstance(x.args[0], ast.Name) and x.args[0].id == cq:
                            defined.add("*")
            if "*" in defined:
                continue
            for attr, (q2, node) in sorted(reads.items()):
                if attr in defined or attr.startswith("__") or attr in stored_elsewhere:
                    continue
                reported += 1
                ctx.violation(f"{q2}:self.{attr}:missing", Where(mod.rel, q2, node.lineno), expected=f"an attribute assigned by some method of {cname} (or defined in its class body)",
                              found=f"self.{attr} is read in {q2} but never assigned or defined",
                              explanation=f"{cname}.{attr} does not exist (no method assigns it, the class body does not define it): {q2} raises AttributeError whenever it runs",
                              instance=f"X2 {mname}:{q2}:self.{attr}")
    ctx.extra["classes_checked_X2"] = nclasses
    ctx.extra["functions_checked_X1_X4"] = nf
    ctx.extra["suppressed_by_name"] = suppressed
    if reported == 0:
        ctx.ok(f"definite assignment and defined names in {nf} functions ({len(suppressed)} sites suppressed by name with a reason)",
               Where("cij", "", 0), f"{nf} functions")
    ctx.floor("functions checked", nf, 250)


RULES = [
    ("R12.1", "no inf/inf, inf-inf, 0*inf in any function evaluating exp() (asymptotic hazard domain, source evaluation order)", r_overflow),
    ("R12.2", "no complex-dtype source (eig, eigvals, roots, emath, cmath, complex literal) in the live core modules", r_complex),
    ("R12.3", "every interpolator class is constructible and extrapolates (= R11.8)", r_interp),
    ("R12.4", "thermal parts and the adiabatic gap are zeroed on T = 0 rows (= R01.9, R02.3)", r_masks),
    ("R12.5", "every schema-valid interpolator name is dispatched (= R11.5)", r_dispatch),
    ("R12.6", "unpack arity of qha's fit at every call site", r_arity),
    ("R12.7", "Gamma acoustic entries (0/0 in every Bose factor) are overwritten on a copy before the reduction (= R01.7) and carry no weight in the cell-by-cell fold (= R01.13)", r_gamma_store),
    ("R12.10", "no factorisation that exists only for positive-definite matrices (Cholesky) in the live core modules", r_pd_only),
    ("R12.9", "node selection of the interpolators raises nothing and yields distinct nodes for every volume count 2..16 and order 1..12 (= R11.9)", r_nodes),
    ("R12.8", "main-path well-formedness: definite assignment (X1) and defined names (X4) in every function", r_wellformed),
]
