"""C03 — shear components obtained by strain-energy rotation are exact tensor algebra."""
from __future__ import annotations

import itertools

import sympy as sp

from ..anf import is_zero, short
from ..facts import KeyObj, KEYS21, V2S, voigt_canon, c_intrinsic
from ..linalg import LINALG, const_matrix
from ..model import dotted_name, src
from ..report import AnalysisError
from ..sym import Ev, Obj, Tup, DictV, ArrV, LibV, RaisedV, as_sym, is_sym, explore_branches, path_substitution

SHEAR = "cij.core.phonon_contribution.shear:ShearElasticModulusPhononContribution"
SHMOD = "cij.core.phonon_contribution.shear"
SHEAR_KEYS = [k for k in KEYS21 if int(k[1]) > 3 or int(k[2]) > 3]
LEVEL = "other"
TECHNIQUE = "static analysis: the shear solver folded for each of the 15 shear keys on a fully symbolic tensor (exact eigen-decomposition of the constant fictitious strain, exact rational/radical algebra)"
EXPLANATION = (
    "Static analysis decides C03 by folding the shear solver for every one of the 15 keys carrying a Voigt index 4-6 on a "
    "fully symbolic symmetric tensor (21 free symbols - the complete linear space, not a basis sample): the fictitious "
    "strain is 1 at exactly the key's index pairs; its exact orthonormal eigen-frame T satisfies T^T e T = diag(eigenvalues) "
    "= the rotated fictitious strain used; with the original-frame components C and the exactly rotated components "
    "C'_abcd = T_ia T_jb T_kc T_ld C_ijkl supplied, get_target_elastic_modulus returns exactly C_key; the components it asks "
    "for never include the target, are the ones the energy routine reads (sibling agreement), and in the rotated frame are "
    "all longitudinal/off-diagonal; the number of skipped target terms equals the key's multiplicity; strain_rotated is "
    "diag(T^T diag(e) T) with the trace preserved (a shortcut taken on a tolerance test is followed both ways, with the tested equality "
    "assumed of exactly the quantities compared). On probe strains with round-off-sized and near-tolerance entries the key routine and the "
    "energy routine select the same entries (R03.10).")
NOT_DECIDED = "floating-point accuracy of numpy's eigen-solver and of the energy sums."
ASSUMPTIONS = ["T-LIB: numpy.linalg.eigh returns (ascending eigenvalues, orthonormal eigenvectors as columns); degenerate "
               "eigen-spaces get some orthonormal basis (the analysis uses one; the result is basis-independent by the lemma it verifies)",
               "canonical keys and multiplicities per T-IDX (property C10)"]


def csym(i, j, k, l):
    return sp.Symbol("C_" + voigt_canon(f"{i}{j}{k}{l}"), real=True)


def make(ctx, model, key, log=None):
    intr = dict(LINALG)
    intr = {k: (lambda f: (lambda ev, a, kw: f(ev, a, kw)))(f) for k, f in intr.items()}
    intr["cij.c_"] = c_intrinsic
    ev = Ev(model, {("global", "cij.util:c_"): LibV("cij.c_")}, intr, ctx=ctx)
    e = [sp.Symbol(f"e{i}", positive=True) for i in (1, 2, 3)]
    strain = ArrV(1, (3,), cells={(i,): e[i] for i in range(3)})
    orig = DictV(default=lambda k: (log.append(("orig", k.name)) if log is not None else None) or sp.Symbol("C_" + k.name[1:], real=True))
    obj = Obj(SHEAR, {"key": KeyObj(key), "strain": strain, "calculator": None, "modulus": orig})
    return ev, obj, e


def rotated_tensor(T):
    """C'_{abcd} in the frame whose basis vectors are the columns of T"""
    r3 = (1, 2, 3)

    def comp(a, b, c, d):
        tot = sp.Integer(0)
        for i, j, k, l in itertools.product(r3, repeat=4):
            coef = T[i - 1, a - 1] * T[j - 1, b - 1] * T[k - 1, c - 1] * T[l - 1, d - 1]
            if coef != 0:
                tot += coef * csym(i, j, k, l)
        return sp.expand(tot)
    return comp


def r_solver(ctx, model):
    w = model.where(f"{SHEAR}.get_target_elastic_modulus")
    for key in SHEAR_KEYS:
        log = []
        ev, obj, e = make(ctx, model, key, log)
        (i1, i2), (j1, j2) = V2S[int(key[1])], V2S[int(key[2])]
        # R03.1 fictitious strain
        fs = ev.get_attr(obj, "fictitious_strain")
        ones = {k for k, v in fs.cells.items() if v != 0}
        want = {(i1 - 1, i2 - 1), (i2 - 1, i1 - 1), (j1 - 1, j2 - 1), (j2 - 1, j1 - 1)}
        ok_fs = isinstance(fs, ArrV) and fs.shape == (3, 3) and ones == want and all(fs.get(k) == 1 for k in ones)
        ctx.check(ok_fs, f"{key}: fictitious strain is 1 at exactly the key's index pairs", model.where(f"{SHEAR}.fictitious_strain"), expected=str(sorted(want)),
                  found=str(sorted((k, str(v)) for k, v in fs.cells.items() if v != 0)), explanation=f"the fictitious unit strain of {key} is not the "
                  f"symmetric unit strain on its two index pairs", key=f"{key}.fictitious_strain")
        # R03.6 frame
        T = ev.get_attr(obj, "transformation_matrix")
        fr = ev.get_attr(obj, "fictitious_strain_rotated")
        Tm = sp.Matrix(3, 3, lambda a, b: T.get((a, b)))
        Em = sp.Matrix(3, 3, lambda a, b: fs.get((a, b)))
        Dm = sp.Matrix(3, 3, lambda a, b: fr.get((a, b)))
        orth = (Tm.T * Tm - sp.eye(3)).applyfunc(sp.simplify) == sp.zeros(3)
        diagn = (Tm.T * Em * Tm - Dm).applyfunc(sp.simplify) == sp.zeros(3)
        ctx.check(orth and diagn, f"{key}: T orthonormal and T^T e T = rotated fictitious strain (same decomposition)", model.where(f"{SHEAR}.transformation_matrix"),
                  expected="T^T T = 1, T^T e T = diag(eigenvalues)", found=f"orthonormal {orth}; diagonalises to the strain used {diagn}",
                  explanation=f"{key}: the rotated fictitious strain and the transformation matrix are not eigenvalues and eigenvectors of the same "
                              f"decomposition of the fictitious strain", key=f"{key}.frame")
        # requested keys
        ko = ev.call(ev.get_attr(obj, "get_modulus_keys"), [], {})
        kr = ev.call(ev.get_attr(obj, "get_modulus_keys_rotated"), [], {})
        names_o = [k.name for k in ko.items]
        names_r = [k.name for k in kr.items]
        ctx.check(key not in names_o, f"{key}: the components asked for never include the target", model.where(f"{SHMOD}:get_fictitious_strain_energy_keys"),
                  expected=f"{key} not requested", found=str(sorted(set(names_o))), explanation=f"the shear solver asks for its own target {key} (cyclic dependency)",
                  key=f"{key}.no_target")
        ctx.check(all(int(n[1]) <= 3 and int(n[2]) <= 3 for n in names_r), f"{key}: rotated-frame requests are longitudinal/off-diagonal only", model.where(f"{SHEAR}.get_modulus_keys_rotated"),
                  expected="c_aabb keys", found=str(sorted(set(names_r))), explanation="a shear component is requested in the rotated frame: the dependency chain would not terminate",
                  key=f"{key}.rotated_nonshear")
        # exactness
        comp = rotated_tensor(Tm)
        rlog = []
        obj.attrs["modulus_rotated"] = DictV(default=lambda k: rlog.append(k.name) or comp(*[int(x) for x in k.attrs["standard"].items]))
        del log[:]
        try:
            val = as_sym(ev.call(ev.get_attr(obj, "get_target_elastic_modulus"), [], {}))
        except RaisedV as ex:
            ctx.violation(f"{key}.exact", w, "the target component", f"raises {ex.exc_name}", f"the shear solver raises {ex.exc_name} for {key}")
            continue
        target = sp.Symbol("C_" + key[1:], real=True)
        resid = sp.simplify(sp.expand(val - target))
        ctx.check(resid == 0, f"{key}: solver returns exactly C_{key[1:]} on the symbolic tensor", w, expected=str(target), found=short(sp.simplify(val), 300),
                  explanation=f"with exact rotated-frame and original-frame components supplied the shear solver does not return {key} "
                              f"(residual {short(resid, 160)}): factor 2, multiplicity, strain product or the skipped terms are wrong", key=f"{key}.exact")
        # sibling agreement: keys requested == keys read
        # the same SET of components (how often one is listed or read - once per tensor-index permutation, once per Voigt pair - is immaterial)
        read_o = sorted(n for tag, n in log)
        ctx.check(set(read_o) == set(names_o) and set(rlog) == set(names_r), f"{key}: requested components = components the energy routine reads", model.where(f"{SHMOD}:calculate_fictitious_strain_energy"),
                  expected=f"{len(names_o)} original + {len(names_r)} rotated", found=f"reads {len(read_o)} / {len(rlog)}",
                  explanation="the dependency list handed to the scheduler differs from what the solver reads (KeyError or a stale value)", key=f"{key}.siblings")
        # multiplicity = number of skipped target terms
        allk = ev.call(ev.lookup("get_fictitious_strain_energy_keys", {}, model.mods[SHMOD]), [fs], {})
        skipped = len(allk.items) - len(ko.items)
        mult = int(KeyObj(key).attrs["multiplicity"])
        ctx.check(skipped == mult, f"{key}: skipped target terms = multiplicity", w, expected=str(mult), found=str(skipped),
                  explanation="the number of energy terms carrying the target differs from the multiplicity the result is divided by", key=f"{key}.multiplicity")
        # strain_rotated
        # a shortcut taken on a tolerance test of the strains is followed both ways; on the branch where the test holds the
        # equality it asserts is assumed (of exactly the quantities it compares: one grid position is not the whole grid)
        def fold_sr(decide):
            ev.branch_oracle = decide
            pc = obj.__dict__.get("_prop_cache", {})
            for kk in [kk for kk in pc if kk[1].endswith(".strain_rotated")]:
                del pc[kk]
            try:
                return ev.get_attr(obj, "strain_rotated")
            finally:
                ev.branch_oracle = None
        bad, sr = [], None
        for decisions, sr in explore_branches(fold_sr):
            sub = path_substitution(decisions)
            if sub is None:
                raise AnalysisError(f"{key}: strain_rotated branches on a condition that cannot be assumed symbolically")
            if not isinstance(sr, ArrV) or sr.shape != (3,):
                bad.append(f"returns {short(sr, 60)}")
                continue
            for a in range(3):
                wanta = sum(Tm[i, a] ** 2 * e[i] for i in range(3))
                if not is_zero((as_sym(sr.get((a,))) - wanta).xreplace(sub)):
                    bad.append(f"[{a}] = {sr.get((a,))}" + (f" when {', '.join(c.text for c, o in decisions if o)}" if decisions else ""))
            if not is_zero((sum(as_sym(sr.get((a,))) for a in range(3)) - sum(e)).xreplace(sub)):
                bad.append("trace not preserved")
        tr = sum(e)
        ctx.check(not bad and isinstance(sr, ArrV) and sr.shape == (3,), f"{key}: strain_rotated = diag(T^T diag(e) T), trace preserved", model.where(f"{SHEAR}.strain_rotated"),
                  expected="sum_i T[i,a]^2 e_i", found="; ".join(bad) or "as required", explanation="the axial strain fractions assigned to the rotated frame are not the "
                  "diagonal of the rotated diagonal strain tensor", key=f"{key}.strain_rotated")
    ctx.exhaustive = True
    ctx.floor("shear keys folded", len(SHEAR_KEYS), 15)


def r_siblings_probe(ctx, model):
    """the routine that lists the components a strain needs and the routine that reads them select the same entries of the strain -
    also for entries of round-off size (an eigenvalue that should be 0 comes out of eigh as +-1e-17), small entries on either side
    of the tolerance, and exact zeros: folded on numeric probe matrices"""
    R = sp.Rational
    tiny, below, above = R(-607, 10 ** 20), R(3, 10 ** 9), R(1, 10 ** 7)
    probes = {
        "diagonal with a round-off zero": [[R(1), 0, 0], [0, tiny, 0], [0, 0, R(-1)]],
        "round-off off-diagonal entries": [[R(1), tiny, 0], [tiny, R(-1, 2), -tiny], [0, -tiny, R(-1, 2)]],
        "entries just below / above 1e-8": [[R(1), below, 0], [below, R(-1), above], [0, above, 0]],
        "exact shear strain": [[0, R(1), 0], [R(1), 0, 0], [0, 0, 0]],
    }
    mod = model.mods[SHMOD]
    f_keys = model.func(f"{SHMOD}:get_fictitious_strain_energy_keys")
    f_en = model.func(f"{SHMOD}:calculate_fictitious_strain_energy")
    w = model.where(f"{SHMOD}:calculate_fictitious_strain_energy", f_en)
    intr = dict(LINALG)
    intr = {k: (lambda f: (lambda ev, a, kw: f(ev, a, kw)))(f) for k, f in intr.items()}
    intr["cij.c_"] = c_intrinsic
    bad = []
    for label, rows in probes.items():
        m = ArrV(0, (3, 3), cells={(i, j): sp.sympify(rows[i][j]) for i in range(3) for j in range(3)})
        for target in (None, KeyObj("c44")):
            ev = Ev(model, {("global", "cij.util:c_"): LibV("cij.c_")}, intr, ctx=ctx)
            asked = ev.call_def(f_keys, mod, f"{SHMOD}:get_fictitious_strain_energy_keys", [m, target], {})
            read = []
            resolver = LoggingResolver(read)
            ev.call_def(f_en, mod, f"{SHMOD}:calculate_fictitious_strain_energy", [m, resolver, target], {})
            a_, r_ = sorted({k.name for k in asked.items}), sorted(set(read))
            if a_ != r_:
                bad.append(f"{label}{' (target c44)' if target else ''}: asked for {len(a_)} components, reads {len(r_)}"
                           f" (only asked: {sorted(set(a_) - set(r_))[:3]}, only read: {sorted(set(r_) - set(a_))[:3]})")
    ctx.check(not bad, "components listed = components read on 4 probe strains with round-off-sized and near-tolerance entries", w,
              expected="the same selection of strain entries in get_fictitious_strain_energy_keys and calculate_fictitious_strain_energy",
              found="; ".join(bad[:3]) or "the same components on every probe", explanation="the two sibling routines disagree on which entries of the strain count as "
              "non-zero: a round-off eigenvalue makes the solver read a component that was never requested (KeyError) or skip one that was supplied", key="siblings.probe")


class LoggingResolver:
    """resolve_elastic_modulus stand-in: records the key it is asked for"""

    def __init__(self, log):
        self.log = log

    def sym_call(self, ev, args, kwargs, n, mod):
        self.log.append(args[0].name)
        return sp.Symbol("C_" + args[0].name[1:], real=True)


def r_adiabatic(ctx, model):
    ev, obj, e = make(ctx, model, "c44")
    obj.attrs["value_isothermal"] = sp.Symbol("ISO44")
    v = ev.get_attr(obj, "value_adiabatic")
    ctx.check(v == sp.Symbol("ISO44"), "value_adiabatic is the isothermal value", model.where(f"{SHEAR}.value_adiabatic"), expected="value_isothermal", found=str(v),
              explanation="adiabatic and isothermal values of a shear component differ", key="shear.adiabatic")
    owner, f, kind = model.find_member(SHEAR, "value_isothermal")
    ev2, obj2, e2 = make(ctx, model, "c44")
    obj2.attrs["modulus_rotated"] = DictV(default=lambda k: sp.Symbol("CR_" + k.name[1:]))
    a = as_sym(ev2.get_attr(obj2, "value_isothermal"))
    b = as_sym(ev2.call(ev2.get_attr(obj2, "get_target_elastic_modulus"), [], {}))
    ctx.check(is_zero(a - b), "value_isothermal is the solver's result", model.where(f"{SHEAR}.value_isothermal"), expected="get_target_elastic_modulus()", found=short(a, 120),
              explanation="the shear contribution's isothermal value is not the solved component", key="shear.isothermal")


def r_multiplicity(ctx, model):
    """the multiplicity the solver divides by (voigt.py) equals the class size of T-IDX for the 15 shear keys"""
    from .C10 import mk
    ev = Ev(model, ctx=ctx)
    bad = []
    for key in SHEAR_KEYS:
        o = mk(ev, "ModulusRepresentation", key[1:])
        m = ev.get_attr(o, "multiplicity")
        want = KeyObj(key).attrs["multiplicity"]
        std = ev.get_attr(o, "standard")
        if not (is_sym(m) and m == want) or [int(x) for x in std.items] != [int(x) for x in KeyObj(key).attrs["standard"].items]:
            bad.append(f"{key}: multiplicity {m} (class size {want}), standard {std}")
    ctx.check(not bad, "multiplicity and standard indices of the 15 shear keys as used by the solver", model.where("cij.util.voigt:ModulusRepresentation.multiplicity"),
              expected="4 for c44,c55,c66 and c14..c36 pairs with one shear index, 8 for mixed shear pairs", found="; ".join(bad[:4]) or "as required",
              explanation="the multiplicity the solved shear component is divided by is not the number of tensor entries in its symmetry class", key="multiplicity.voigt")


RULES = [
    ("R03.7", "key.multiplicity / key.standard of voigt.py for the 15 shear keys", r_multiplicity),
    ("R03.1-8", "15 shear keys folded on the symbolic tensor: strain, frame, requests, exactness, sibling agreement, multiplicity, rotated strains", r_solver),
    ("R03.10", "sibling agreement on probe strains: the key routine and the energy routine select the same strain entries (round-off zeros, near-tolerance entries)", r_siblings_probe),
    ("R03.9", "value_isothermal is the solved component; value_adiabatic the same attribute", r_adiabatic),
]
