"""C20 — eigenvector tools: sorting recovers the permutation; conversion restores a basis; loader."""
from __future__ import annotations

import ast
import re

import sympy as sp

from ..anf import is_zero, short
from ..effects import mutated_params
from ..model import dotted_name, src, body_wo_doc
from ..report import AnalysisError, Where
from ..sym import (explore_branches, Ev, Tup, ArrV, RaisedV, BoundLib, LibV, MatchV, Transposed, MatProd, as_sym, is_sym, hkey)

LEVEL = "other"
TECHNIQUE = "static analysis: folding of evec_disp2eig to a normal form, of the overlap matrix of evec_sort on symbolic 2x2 bases, structural rules on the greedy loop, reader folded on reference lines of the matdyn layout"
EXPLANATION = (
    "Static analysis decides: evec_disp2eig returns a*sqrt(repeat(m,3)) / sqrt(diag(conj(a') a'^T)) (normal form over opaque "
    "matrix atoms), copies its argument before the in-place products and raises on a shape mismatch; evec_sort raises on any "
    "dimension mismatch before doing work, builds the overlap as a Hermitian product conj(base) . target^T (rows = base, "
    "columns = target; folded on symbolic 2x2 bases), and its greedy loop runs ndim times, takes the arg-max of |m|, eliminates "
    "the chosen row AND column and stores sorted[row] = items[column]; the matdyn reader, folded on reference lines of the "
    "documented layout, returns (q-coordinates, ((index, THz, cm^-1), complex components)) with counts nq, np, np//3 lines x 3. "
    "evec_disp2eig is also folded cell by cell on concrete shapes (R20.2b: formula per cell, caller's array untouched, six classes of shape "
    "mismatch refused, including sizes divisible by 3N); evec_sort is folded on exact reference bases (6 permutations x 2 orthonormal bases, a "
    "24-vector basis with one crossing, degenerate overlaps); branches on overlap data before the arg-max are explored both ways.")
NOT_DECIDED = ("that the greedy assignment recovers the permutation for every perturbed basis (decided on the folded reference bases only); "
               "robustness of the fixed-column slices to other matdyn versions.")
ASSUMPTIONS = ["matdyn eigenvector layout as in tests/data/pwscf.eig (reference lines written out in the rule)",
               "T-LIB: numpy.unravel_index(argmax(|m|), m.shape) gives (row, column) of the largest entry"]

SORT = "cij.misc.evec_sort:evec_sort"
D2E = "cij.misc.evec_disp2eig:evec_disp2eig"
LOAD = "cij.misc.evec_load"
CONJ, DIAG, REPEAT = sp.Function("CONJ"), sp.Function("DIAG"), sp.Function("REPEAT")


def r_disp2eig(ctx, model):
    f = model.func(D2E)
    w = model.where(D2E, f)
    A, MASS = sp.Symbol("A"), sp.Symbol("MASS", positive=True)
    NAT, M = sp.Symbol("NATOM", positive=True, integer=True), sp.Symbol("MROWS", positive=True, integer=True)

    def einsum(ev, a, k):
        spec = a[0].replace(" ", "") if isinstance(a[0], str) else None
        if spec in ("ij,ij->i", "ik,ik->i") and len(a) == 3:
            return DIAG(MatProd(as_sym(a[1]), Transposed(as_sym(a[2]))))
        raise AnalysisError(f"numpy.einsum({a[0]!r}) is not modelled")

    def real(ev, a, k):
        x = as_sym(a[0])
        # the Hermitian row norm is real and non-negative: real()/abs() of it is the identity
        if getattr(x, "func", None) == DIAG and getattr(x.args[0], "func", None) == MatProd:
            l, r = x.args[0].args
            rt = r.args[0] if getattr(r, "func", None) == Transposed else None
            if rt is not None and (l == CONJ(rt) or rt == CONJ(l)):
                return x
        return sp.Function("REALPART")(x)

    def run(ncols):
        intr = {
            "builtins.len": lambda ev, a, k: NAT, "numpy.repeat": lambda ev, a, k: REPEAT(as_sym(a[0]), as_sym(a[1])),
            "numpy.copy": lambda ev, a, k: a[0], "numpy.conj": lambda ev, a, k: CONJ(as_sym(a[0])), "numpy.conjugate": lambda ev, a, k: CONJ(as_sym(a[0])),
            "numpy.diag": lambda ev, a, k: DIAG(as_sym(a[0])), "numpy.diagonal": lambda ev, a, k: DIAG(as_sym(a[0])),
            "numpy.einsum": einsum, "numpy.real": real, "numpy.abs": real,
        }
        ev = Ev(model, {}, intr, ctx=ctx)
        ev.shape_of = lambda v: Tup([M, ncols])
        return ev.call_def(f, model.mods["cij.misc.evec_disp2eig"], D2E, [A, MASS], {})

    try:
        got = as_sym(run(3 * NAT))
    except RaisedV:
        raise
    except AnalysisError as e:
        # a formulation the whole-matrix normal form cannot read (views, per-atom reshapes, ...): formula, guard and copy are then
        # decided on concrete shapes only (R20.2b), which folds the same source with the stock array transfer functions
        ctx.assume(f"R20.2: whole-matrix normal form not available for this formulation ({e.reason}); evec_disp2eig decided by R20.2b on concrete shapes")
        return
    a1 = A * sp.sqrt(REPEAT(MASS, 3))
    wants = [a1 / sp.sqrt(DIAG(MatProd(CONJ(a1), Transposed(a1)))), a1 / sp.sqrt(DIAG(MatProd(a1, Transposed(CONJ(a1))))),
             a1 / sp.sqrt(DIAG(MatProd(a1, CONJ(Transposed(a1)))))]
    ctx.check(any(is_zero(got - wv) for wv in wants), "evec_disp2eig = a sqrt(m) / sqrt(diag(conj(a sqrt m) (a sqrt m)^T))", w, expected=short(wants[0], 300),
              found=short(got, 300), explanation="the displacement-to-eigenvector conversion is not mass weighting by sqrt(m) per Cartesian "
                                                 "component followed by Hermitian renormalisation of every row", key="disp2eig.formula")
    for bad_cols, label in ((3 * NAT + 1, "3N+1"), (NAT, "N")):
        try:
            r = run(bad_cols)
            ctx.check(False, f"shape guard: {label} columns rejected", w, expected="RuntimeError", found=f"returns {short(r, 80)}",
                      explanation="a displacement matrix whose width is not 3 x (number of masses) is accepted", key=f"disp2eig.guard.{label}")
        except RaisedV as e:
            ctx.ok(f"shape guard: {label} columns rejected", w, e.exc_name)
    ctx.check(not (mutated_params(f) & {a_.arg for a_ in f.args.args[:2]}), "the caller's arrays are copied before the in-place products", w, expected="a fresh copy of the displacement array first",
              found=f"mutated parameters: {sorted(mutated_params(f))}", explanation="evec_disp2eig scales its argument in place: the caller's displacement "
                                                                                    "vectors are silently overwritten", key="disp2eig.copy")


def r_disp2eig_cells(ctx, model):
    """evec_disp2eig folded cell by cell on small concrete shapes with the stock array transfer functions (no intrinsics):
    covers formulations the whole-matrix normal form of R20.2 cannot read (reshaped views, einsum) and the shape guard
    on every mismatch class, including those whose total size happens to be a multiple of 3N"""
    f = model.func(D2E)
    w = model.where(D2E, f)
    modref = model.mods["cij.misc.evec_disp2eig"]

    def run(rows, cols, nmass):
        a = ArrV(0, (rows, cols))
        for i in range(rows):
            for j in range(cols):
                a.cells[(i, j)] = sp.Symbol(f"a{i}_{j}")
        before = dict(a.cells)
        mass = Tup([sp.Symbol(f"m{i}", positive=True) for i in range(nmass)], "list")
        ev = Ev(model, {}, {}, ctx=ctx)
        res = ev.call_def(f, modref, D2E, [a, mass], {})
        ctx.call_sites += ev.call_sites
        return res, a, before, mass.items

    for rows, nat in ((2, 2), (3, 1), (1, 3)):
        res, a, before, mass = run(rows, 3 * nat, nat)
        bad = []
        if not isinstance(res, ArrV) or res.batch or tuple(res.shape) != (rows, 3 * nat):
            bad.append(f"returns {short(res, 80)}")
        else:
            for i in range(rows):
                norm = sum(mass[k // 3] * sp.Abs(a_) ** 2 for k, a_ in ((k, sp.Symbol(f"a{i}_{k}")) for k in range(3 * nat)))
                for j in range(3 * nat):
                    want = sp.Symbol(f"a{i}_{j}") * sp.sqrt(mass[j // 3]) / sp.sqrt(norm)
                    got = as_sym(res.get((i, j))).replace(sp.conjugate, lambda z: sp.Abs(z) ** 2 / z)
                    if not is_zero(sp.simplify(got - want)):
                        bad.append(f"[{i},{j}] = {short(res.get((i, j)), 120)}")
        ctx.check(not bad, f"{rows} vectors of {nat} atoms: row i, column 3a+c = a[i, 3a+c] sqrt(m_a) / sqrt(sum_k |a[i, k]|^2 m_(k div 3))", w,
                  expected="mass weighting per atom (three consecutive columns share a mass), Hermitian renormalisation per row", found="; ".join(bad[:3]) or "as required",
                  explanation="the displacement-to-eigenvector conversion, folded cell by cell, is not mass weighting by sqrt(m) of the atom a column belongs to "
                              "followed by renormalisation of every row", key=f"disp2eig.cells.{rows}x{3 * nat}")
        ctx.check(dict(a.cells) == before, f"{rows} vectors of {nat} atoms: the caller's array is left as it was", w, expected="unchanged cells",
                  found="changed cells " + str(sorted(k for k in before if a.cells.get(k) != before[k])[:4]) if dict(a.cells) != before else "unchanged",
                  explanation="evec_disp2eig scales its argument in place: the caller's displacement vectors are silently overwritten",
                  key=f"disp2eig.cells.copy.{rows}x{3 * nat}")
    # every class of mismatch between the width of the matrix and 3 x (number of masses) is refused
    for rows, cols, nat, label in ((2, 7, 2, "one column too many"), (2, 3, 2, "N instead of 3N columns"), (2, 6, 4, "total size a multiple of 3N (2 x 6, 4 masses)"),
                                   (12, 5, 4, "transposed (12 x 5, 4 masses)"), (4, 3, 2, "4 x 3, 2 masses"), (2, 6, 1, "too few masses")):
        try:
            res, *_ = run(rows, cols, nat)
            ctx.check(False, f"shape guard: {label}", w, expected="RuntimeError", found=f"returns an array of shape {tuple(res.shape)}" if isinstance(res, ArrV) else f"returns {short(res, 80)}",
                      explanation="a displacement matrix whose width is not 3 x (number of masses) is accepted: rows are regrouped across vector boundaries or "
                                  "weighted with the wrong masses without any error", key=f"disp2eig.cells.guard.{rows}x{cols}.{nat}")
        except RaisedV as e:
            ctx.check(e.exc_name == "RuntimeError", f"shape guard: {label}", w, expected="RuntimeError", found=e.exc_name,
                      explanation="a dimension mismatch surfaces as an exception other than the documented RuntimeError", key=f"disp2eig.cells.guard.{rows}x{cols}.{nat}")


def r_sort(ctx, model):
    f = model.func(SORT)
    w = model.where(SORT, f)
    B = [[sp.Symbol(f"B{i}{k}") for k in range(2)] for i in range(2)]
    Tm = [[sp.Symbol(f"T{j}{k}") for k in range(2)] for j in range(2)]
    mk = lambda rows: Tup([Tup(r, "list") for r in rows], "list")
    cap = {}

    def array(ev, a, k):
        v = a[0]
        if isinstance(v, Tup) and all(isinstance(r, Tup) for r in v.items):
            m = ArrV(0, (len(v.items), len(v.items[0].items)))
            for i, r in enumerate(v.items):
                for j, x in enumerate(r.items):
                    m.cells[(i, j)] = as_sym(x)
            return m
        raise AnalysisError("numpy.array of an unexpected value in evec_sort")

    def conj(ev, a, k):
        m = a[0]
        out = ArrV(0, m.shape)
        for kk in [(i, j) for i in range(m.shape[0]) for j in range(m.shape[1])]:
            out.cells[kk] = CONJ(m.get(kk))
        return out

    class Stop(Exception):
        pass

    def argmax(ev, a, k):
        cap["m"] = a[0]
        raise Stop()

    def absf(ev, a, k):
        cap["abs_of"] = a[0]
        return a[0]

    intr = {"numpy.array": array, "numpy.asarray": array, "numpy.conj": conj, "numpy.conjugate": conj, "numpy.argmax": argmax, "numpy.abs": absf, "numpy.absolute": absf}
    # symbolic 2x2 fold up to the first arg-max; branches on the overlap data before it (shortcuts) are followed both ways:
    # whether such a shortcut is right is decided by the folded reference bases below, here every path that reaches the
    # arg-max must present the Hermitian overlap matrix
    def to_argmax(decide):
        cap.pop("m", None)
        ev = Ev(model, {}, intr, ctx=ctx)
        ev.branch_oracle = decide
        try:
            ev.call_def(f, model.mods["cij.misc.evec_sort"], SORT, [Tup(["x0", "x1"], "list"), mk(Tm), mk(B)], {})
        except Stop:
            pass
        return cap.get("m")
    paths = explore_branches(to_argmax)
    reached = [m_ for _, m_ in paths if m_ is not None]
    if not reached or any(not isinstance(m_, ArrV) or m_.shape != (2, 2) for m_ in reached):
        raise AnalysisError("evec_sort: overlap matrix not reached")
    ev = Ev(model, {}, intr, ctx=ctx)
    bad = []
    for m in reached:
        for i in range(2):
            for j in range(2):
                want = sum(CONJ(B[i][k]) * Tm[j][k] for k in range(2))
                alt = sum(B[i][k] * CONJ(Tm[j][k]) for k in range(2))
                if not (is_zero(m.get((i, j)) - want) or is_zero(m.get((i, j)) - alt)):
                    bad.append(f"m[{i},{j}] = {m.get((i, j))}")
    ctx.check(not bad and "abs_of" in cap, "overlap m[i, j] = <base_i | target_j> (Hermitian product; rows = base, columns = target), arg-max of |m|", w,
              expected="sum_k conj(base[i][k]) * target[j][k]", found="; ".join(bad) or "as required",
              explanation="the overlap matrix is not the Hermitian product of base and target vectors with base vectors as rows (missing conjugate, "
                          "conjugate on both, or transposed roles)", key="sort.overlap")
    # dimension guard raises before any work
    for label, args in (("target shorter", [Tup(["x0", "x1"], "list"), mk(Tm[:1]), mk(B)]), ("vector length", [Tup(["x0", "x1"], "list"), mk([r[:1] for r in Tm]), mk([r[:1] for r in B])]),
                        ("items vs vectors", [Tup(["x0", "x1", "x2"], "list"), mk(Tm), mk(B)])):
        ev2 = Ev(model, {}, intr, ctx=ctx)
        try:
            ev2.call_def(f, model.mods["cij.misc.evec_sort"], SORT, args, {})
            ctx.check(False, f"dimension guard: {label}", w, expected="RuntimeError", found="accepted", explanation="a dimension mismatch is accepted",
                      key=f"sort.guard.{label}")
        except Stop:
            ctx.check(False, f"dimension guard: {label}", w, expected="RuntimeError before any work", found="overlap computed",
                      explanation="evec_sort starts working on inputs of inconsistent dimensions", key=f"sort.guard.{label}")
        except RaisedV as e:
            ctx.ok(f"dimension guard: {label}", w, e.exc_name)
    # the greedy assignment, folded on reference bases: an orthonormal 3-vector basis and every one of its 6 permutations,
    # each with arbitrary phases (1, -1, i) and a small perturbation - the overlap magnitudes are constants, so arg-max,
    # elimination and placement are decided by constant folding whichever way the loop is written
    import itertools
    I3 = [[sp.Integer(1 if i == j else 0) for j in range(3)] for i in range(3)]
    # an orthonormal real basis with rational entries (a rotation), so that no vector is axis-aligned
    R3 = [[sp.Rational(2, 3), sp.Rational(-1, 3), sp.Rational(2, 3)], [sp.Rational(2, 3), sp.Rational(2, 3), sp.Rational(-1, 3)], [sp.Rational(-1, 3), sp.Rational(2, 3), sp.Rational(2, 3)]]
    phases = [sp.Integer(1), sp.Integer(-1), sp.I]
    eps = sp.Rational(1, 50)
    bad, n_sc = [], 0

    def num_intr():
        def arr(ev, a, k):
            v = a[0]
            if isinstance(v, ArrV):
                return v
            if isinstance(v, Tup) and all(isinstance(r, Tup) for r in v.items):
                m_ = ArrV(0, (len(v.items), len(v.items[0].items)))
                for i_, r in enumerate(v.items):
                    for j_, x in enumerate(r.items):
                        m_.cells[(i_, j_)] = as_sym(x)
                return m_
            raise AnalysisError("numpy.array of an unexpected value in evec_sort")

        def conj_(ev, a, k):
            m_ = a[0]
            out = ArrV(0, m_.shape)
            for kk in itertools.product(*[range(d) for d in m_.shape]):
                out.cells[kk] = sp.conjugate(as_sym(m_.get(kk)))
            return out

        def abs_(ev, a, k):
            m_ = a[0]
            out = ArrV(0, m_.shape)
            for kk in itertools.product(*[range(d) for d in m_.shape]):
                out.cells[kk] = sp.Abs(as_sym(m_.get(kk)))
            return out

        def argmax_(ev, a, k):
            m_ = a[0]
            if k.get("axis") is not None:
                # per-row / per-column position of the maximum (first one on ties, as numpy)
                ax = int(as_sym(k.get("axis"))) % 2
                if len(m_.shape) != 2:
                    raise AnalysisError("argmax along an axis of something that is not a matrix")
                n_out, n_in = m_.shape[1 - ax], m_.shape[ax]
                out = ArrV(0, (n_out,))
                for o in range(n_out):
                    vals = [sp.sympify(m_.get((i_, o) if ax == 0 else (o, i_))) for i_ in range(n_in)]
                    if not all(v.is_real and v.is_number for v in vals):
                        raise AnalysisError("argmax of a matrix that is not real (magnitudes expected)")
                    out.cells[(o,)] = sp.Integer(max(range(n_in), key=lambda i_: (vals[i_], -i_)))
                return out
            keys = list(itertools.product(*[range(d) for d in m_.shape]))
            vals = [sp.sympify(m_.get(kk)) for kk in keys]
            if not all(v.is_real and v.is_number for v in vals):
                raise AnalysisError("argmax of a matrix that is not real (magnitudes expected)")
            best = max(range(len(keys)), key=lambda i_: (vals[i_], -i_))
            return sp.Integer(best)

        def unravel(ev, a, k):
            flat, shape = int(a[0]), [int(x) for x in ev.iterate(a[1])]
            out = []
            for d in reversed(shape):
                out.append(sp.Integer(flat % d))
                flat //= d
            return Tup(list(reversed(out)), "tuple")
        return {"numpy.array": arr, "numpy.asarray": arr, "numpy.conj": conj_, "numpy.conjugate": conj_, "numpy.abs": abs_, "numpy.absolute": abs_,
                "builtins.abs": abs_, "numpy.argmax": argmax_, "ndarray.argmax": argmax_, "arr.argmax": argmax_, "numpy.unravel_index": unravel}

    for basis_name, basis in (("axis-aligned", I3), ("rotated", R3)):
        for perm in itertools.permutations(range(3)):
            n_sc += 1
            # target vector j is base vector perm[j] times a phase, slightly perturbed towards the next base vector
            target = [[phases[j] * (basis[perm[j]][k_] + eps * basis[(perm[j] + 1) % 3][k_]) for k_ in range(3)] for j in range(3)]
            items = Tup([f"item{j}" for j in range(3)], "list")
            ev3 = Ev(model, {}, num_intr(), ctx=ctx)
            try:
                res = ev3.call_def(f, model.mods["cij.misc.evec_sort"], SORT, [items, mk(target), mk(basis)], {})
            except RaisedV as e:
                bad.append(f"{basis_name} basis, permutation {perm}: raises {e.exc_name}")
                continue
            got = list(res.items) if isinstance(res, Tup) else res
            want = [None] * 3
            for j in range(3):
                want[perm[j]] = f"item{j}"
            if got != want:
                bad.append(f"{basis_name} basis, permutation {perm}: {got} (want {want})")
    # a large set (24 vectors, as for an 8-atom cell) in which only two neighbouring bands crossed - the common case between two
    # neighbouring volumes: almost all overlaps sit on the diagonal, the two that do not must still be exchanged
    NB = 24
    IB = [[sp.Integer(1 if i == j else 0) for j in range(NB)] for i in range(NB)]
    for swap in ((10, 11), None):
        n_sc += 1
        perm = list(range(NB))
        if swap:
            perm[swap[0]], perm[swap[1]] = perm[swap[1]], perm[swap[0]]
        target = [[phases[j % 3] * (IB[perm[j]][k_] + eps * IB[(perm[j] + 1) % NB][k_]) for k_ in range(NB)] for j in range(NB)]
        items = Tup([f"item{j}" for j in range(NB)], "list")
        ev3 = Ev(model, {}, num_intr(), ctx=ctx)
        try:
            res = ev3.call_def(f, model.mods["cij.misc.evec_sort"], SORT, [items, mk(target), mk(IB)], {})
        except RaisedV as e:
            bad.append(f"{NB} vectors, crossing {swap}: raises {e.exc_name}")
            continue
        got = list(res.items) if isinstance(res, Tup) else res
        want = [None] * NB
        for j in range(NB):
            want[perm[j]] = f"item{j}"
        if got != want:
            bad.append(f"{NB} vectors, crossing {swap}: positions {[i for i in range(NB) if not isinstance(got, list) or got[i] != want[i]]} wrong")
    ctx.check(not bad, f"every item lands at the position of its matching base vector ({n_sc} reference bases: 6 permutations x 2 orthonormal 3-vector bases, a 24-vector basis with and without one crossing, phases 1/-1/i, 2 % perturbation)", w,
              expected="sorted[perm[j]] = items[j]; a permutation of the items", found="; ".join(bad[:3]) or f"{n_sc} scenarios as required",
              explanation="the greedy assignment does not recover the permutation: items are placed by the target's position (inverse permutation), only the row or only "
                          "the column of a match is eliminated (an item or a position used twice), the magnitude of the overlap is not used, or it does not run once per item",
              key="sort.reference")
    # a degenerate (non-orthogonal) target set: the result is still a permutation of the items
    Q = sp.Rational
    degs = [("targets nearly parallel", [[Q(1), Q(0), Q(0)], [Q(9, 10), Q(1, 10), Q(0)], [Q(8, 10), Q(0), Q(1, 10)]], I3),
            ("one target shared by two base vectors", [[Q(7, 10), Q(7, 10), Q(0)], [Q(1, 10), Q(0), Q(99, 100)], [Q(0), Q(2, 10), Q(1, 10)]], I3),
            ("one base vector shared by two targets", I3, [[Q(7, 10), Q(7, 10), Q(0)], [Q(1, 10), Q(0), Q(99, 100)], [Q(0), Q(2, 10), Q(1, 10)]])]
    okp, got = True, []
    for dname, tg, bs in degs:
        ev4 = Ev(model, {}, num_intr(), ctx=ctx)
        try:
            res = ev4.call_def(f, model.mods["cij.misc.evec_sort"], SORT, [Tup(["a", "b", "c"], "list"), mk(tg), mk(bs)], {})
            g_ = sorted(str(x) for x in res.items) if isinstance(res, Tup) else None
            if g_ != ["a", "b", "c"]:
                okp = False
                got.append(f"{dname}: {list(res.items) if isinstance(res, Tup) else res}")
        except RaisedV as e:
            okp = False
            got.append(f"{dname}: raises {e.exc_name}")
    got = "; ".join(got) or "a permutation in 3 degenerate scenarios"
    ctx.check(okp, "competing overlaps (3 degenerate scenarios): the result is still a permutation of the items", w, expected="each item exactly once", found=str(got),
              explanation="when several target vectors overlap most with the same base vector an item is dropped or duplicated (a match must eliminate its row and its column)",
              key="sort.permutation")


SAMPLE = """     diagonalizing the dynamical matrix ...

 q =       0.1250     -0.2500      0.3750
 **************************************************************************
     freq (    1) =      -0.018788 [THz] =      -0.626714 [cm-1]
 ( -0.211208  -0.000100    -0.215596  -0.000200     0.041957   0.000300   )
     freq (    2) =       1.500000 [THz] =      50.034600 [cm-1]
 (  0.162956   0.010000    -0.168382   0.020000     0.032739   0.030000   )
     freq (    3) =       2.250000 [THz] =      75.051900 [cm-1]
 ( -0.132579   0.400000    -0.136581  -0.500000     0.027074   0.600000   )
 **************************************************************************
     diagonalizing the dynamical matrix ...

 q =       0.5000      0.0000     -0.5000
 **************************************************************************
     freq (    1) =       3.000000 [THz] =     100.069200 [cm-1]
 (  0.111111   0.222222     0.333333   0.444444     0.555555   0.666666   )
     freq (    2) =       4.000000 [THz] =     133.425600 [cm-1]
 (  0.700000   0.000000     0.000000   0.700000     0.100000  -0.100000   )
     freq (    3) =       5.000000 [THz] =     166.782000 [cm-1]
 (  0.000000   0.000000     1.000000   0.000000     0.000000   0.000000   )
 **************************************************************************
     diagonalizing the dynamical matrix ...

 q =      -0.3333      0.3333      0.0000
 **************************************************************************
     freq (    1) =      -3.701143 [THz] =    -123.456789 [cm-1]
 (  0.250000  -0.250000     0.500000   0.125000    -0.750000   0.000000   )
     freq (    2) =       7.000000 [THz] =     233.494800 [cm-1]
 (  0.000000   0.600000     0.800000   0.000000     0.000000   0.000000   )
     freq (    3) =      30.629400 [THz] =    1021.685287 [cm-1]
 (  0.300000   0.300000     0.300000  -0.300000     0.100000   0.900000   )
 **************************************************************************
"""


class Lines:
    def __init__(self, text):
        self.lines, self.pos = text.splitlines(keepends=True), 0

    def nxt(self):
        if self.pos >= len(self.lines):
            raise RaisedV("StopIteration")
        self.pos += 1
        return self.lines[self.pos - 1]


class RegexV:
    def __init__(self, pat):
        self.pat = pat

    def sym_getattr(self, ev, name, node, mod):
        if name in ("search", "match"):
            return BoundLib("regex.search", self)
        raise ev.err(f"regex attribute {name}", node, mod)


def r_load(ctx, model):
    mod = model.mod(LOAD)
    w = model.where(f"{LOAD}:evec_load")
    lines = Lines(SAMPLE)

    def chain(ev, a, k):
        out = []
        for it in ev.iterate(a[0], None, None):
            out.extend(ev.iterate(it, None, None))
        return Tup(out, "list")

    intr = {
        "builtins.open": lambda ev, a, k: lines, "builtins.next": lambda ev, a, k: a[0].nxt() if isinstance(a[0], Lines) else ev.iterate(a[0])[0],
        "re.compile": lambda ev, a, k: RegexV(a[0]),
        "regex.search": lambda ev, a, k: (lambda m: MatchV(m) if m else None)(re.search(a[0].pat, a[1])),
        "itertools.chain.from_iterable": chain,
    }
    ev = Ev(model, {}, intr, ctx=ctx)
    f = model.func(f"{LOAD}:evec_load")
    try:
        out = ev.call_def(f, mod, f"{LOAD}:evec_load", ["file.eig", sp.Integer(3), sp.Integer(3)], {})
    except RaisedV as e:
        ctx.violation("load.reference", w, expected="the reference block is parsed", found=f"raises {e.exc_name} at {e.where}",
                      explanation=f"the matdyn reader fails on a file in the documented layout ({e.exc_name}): line counts, regexes or column "
                                  f"slices do not fit the layout", instance="reader folded on reference lines")
        return

    def plain(v):
        if isinstance(v, Tup):
            return tuple(plain(x) for x in v.items)
        if is_sym(v):
            return complex(v) if v.has(sp.I) else (int(v) if v.is_Integer else float(v))
        return v

    got = plain(out)
    want = (
        ((0.125, -0.25, 0.375), (
            ((1, -0.018788, -0.626714), (-0.211208 - 0.0001j, -0.215596 - 0.0002j, 0.041957 + 0.0003j)),
            ((2, 1.5, 50.0346), (0.162956 + 0.01j, -0.168382 + 0.02j, 0.032739 + 0.03j)),
            ((3, 2.25, 75.0519), (-0.132579 + 0.4j, -0.136581 - 0.5j, 0.027074 + 0.6j)))),
        ((0.5, 0.0, -0.5), (
            ((1, 3.0, 100.0692), (0.111111 + 0.222222j, 0.333333 + 0.444444j, 0.555555 + 0.666666j)),
            ((2, 4.0, 133.4256), (0.7 + 0j, 0.7j, 0.1 - 0.1j)),
            ((3, 5.0, 166.782), (0j, 1 + 0j, 0j)))),
        ((-0.3333, 0.3333, 0.0), (
            ((1, -3.701143, -123.456789), (0.25 - 0.25j, 0.5 + 0.125j, -0.75 + 0j)),
            ((2, 7.0, 233.4948), (0.6j, 0.8 + 0j, 0j)),
            ((3, 30.6294, 1021.685287), (0.3 + 0.3j, 0.3 - 0.3j, 0.1 + 0.9j)))),
    )

    def close(a, b):
        if isinstance(a, tuple) and isinstance(b, tuple):
            return len(a) == len(b) and all(close(x, y) for x, y in zip(a, b))
        if isinstance(a, tuple) or isinstance(b, tuple):
            return False
        return abs(complex(a) - complex(b)) < 1e-9
    ctx.check(close(got, want), "reader folded on reference lines: (q, ((index, THz, cm-1), complex components)) for nq = 3, np = 3", w,
              expected=str(want)[:300], found=str(got)[:300],
              explanation="the matdyn reader does not return the printed q-coordinates, mode index, THz and cm^-1 frequencies and complex vector "
                          "components in that order (regex groups, unpack order, line counts or column slices)", key="load.reference")
    rest = [l for l in lines.lines[lines.pos:] if l.strip().strip("*")]
    ctx.check(not rest, "the reader consumes the lines of nq blocks (at most a closing separator is left)", w, expected=f"{len(lines.lines)} lines (or all but the last separator)", found=f"{lines.pos} lines",
              explanation="the reader gets out of step with the block structure (header/separator line counts)", key="load.lines")


RULES = [
    ("R20.2", "evec_disp2eig: normal form, shape guard, copy before in-place products", r_disp2eig),
    ("R20.2b", "evec_disp2eig folded cell by cell on concrete shapes: formula, caller's array untouched, every mismatch class refused", r_disp2eig_cells),
    ("R20.1", "evec_sort: dimension guard, Hermitian overlap with base rows, greedy loop with row+column elimination and placement", r_sort),
    ("R20.3", "matdyn reader folded on reference lines of the documented layout", r_load),
]
