"""C18 — run-static reports a consistent static EoS and elasticity table in every mode."""
from __future__ import annotations

import ast
import itertools

import sympy as sp

from .. import units as U
from ..anf import is_zero, short
from ..dfmodel import DFV, SeqV, DF_LIB, Printed, df_wrap, grad
from ..facts import KeyObj, KEYS21, voigt_canon, c_intrinsic
from ..libsum import lib_func, positional_params, return_arity, numba_signature_readonly_intolerant
from ..model import dotted_name, src, body_wo_doc
from ..opaque import linear, homogeneous, F
from ..report import AnalysisError
from ..sym import Ev, Obj, Tup, DictV, LibV, UnitReg, as_sym, is_sym, Indexed, indexed, is_indexed, ArrV, RaisedV

REF = "cij.cli.static:main"
P = dict(positive=True)
VOLS, ENER, VOLS2 = sp.symbols("VOLS ENER VOLS2", **P)      # phonon-file volumes/energies, static-table volumes
NV, NTV, VR, PMIN, DP, CM, CELLM = sp.symbols("NV NTV VR PMIN DP CM CELLM", **P)
AU = U.Ry / U.bohr ** 3
GPA = U.UNIT_TABLE["GPa"]
ANG3 = U.UNIT_TABLE["angstrom"] ** 3
GCM3 = U.g / U.UNIT_TABLE["cm"] ** 3
KMS = U.UNIT_TABLE["km"] / U.s

LEVEL = "other"
EXPLANATION = (
    "Static analysis decides, by normalising cli/static.py:main once per enumerated option set (3 modes x with/without "
    "static table x system x cellmass) into one exact expression per output column (quantity calculus; fits, splines, "
    "gradient and v2p as opaque atoms with their linear/scale roles): P = -grad(F_fit)/grad(V), F and V per mode, "
    "units A^3/eV/GPa/g cm^-3, each column converted exactly once, moduli = fit of the table at the row volume with the "
    "shared reference volume and default order 2, VRH and velocity formulas against the tensor-generated references, "
    "pressure grid, system/cellmass options, library arity and read-only-array conformance.")
NOT_DECIDED = "numerical agreement of fits and splines; accuracy of numpy.gradient; v2p interpolation accuracy."
ASSUMPTIONS = ["input units: volumes bohr^3, energies Ry (phonon file), static moduli GPa, cell mass g/mol",
               "T-LIB: qha polynomial_least_square_fitting(xs, ys, new_xs, order) returns fitted values (one array)",
               "T-LIB: qha v2p, calculate_eulerian_strain read from the installed sources",
               "T-LIB: pandas>=3 Series.to_numpy() may return a read-only view; numba-typed functions reject those"]


# ------------------------------------------------------------------ intrinsics
_STRAIN_CHECKED = []


def strain_of(ev, v0, vs):
    """qha's Eulerian strain f = ((v0 / v)^(2/3) - 1) / 2 (the installed source is folded once and compared with that form), kept as the atom
    EULERIAN(v0, v) with a common unit factor of the two volumes cancelled"""
    if not _STRAIN_CHECKED:
        fd = lib_func("qha/grid_interpolation.py", "calculate_eulerian_strain")
        names, _ = positional_params(fd)
        rets = [s for s in body_wo_doc(fd) if isinstance(s, ast.Return)]
        if len(rets) != 1 or len(names) != 2:
            raise AnalysisError("installed calculate_eulerian_strain has an unrecognised body")
        a_, b_ = sp.symbols("v0_ v_", positive=True)
        got = as_sym(ev.eval(rets[0].value, {names[0]: a_, names[1]: b_}, None))
        if sp.simplify(got - ((a_ / b_) ** sp.Rational(2, 3) - 1) / 2) != 0:
            raise AnalysisError("installed calculate_eulerian_strain is not ((v0/v)^(2/3) - 1)/2")
        _STRAIN_CHECKED.append(True)
    return linear("EULERIAN", [sp.sympify(v0), sp.sympify(vs)], None, same_scale_groups=((0, 1),))


def fit_abscissae(xs, xn):
    """the pair (fitted abscissae, evaluation abscissae) of a full polynomial least-squares fit, reduced to what the fit depends on: a polynomial fit of full
    degree is unchanged by a common affine map of both, and the Eulerian strains of two reference volumes differ by such a map (f' = a f + (a - 1)/2,
    a = (v0'/v0)^(2/3)).  Strains with one and the same reference are therefore rewritten to the canonical reference; different references stay as they are"""
    xs, xn = sp.sympify(xs), sp.sympify(xn)
    E_ = F("EULERIAN")
    if xs.func == E_ and xn.func == E_ and xs.args[0] == xn.args[0]:
        # the reference drops out altogether; what remains are the two sets of volumes (a common unit factor of theirs cancelled)
        from ..opaque import scalar_part
        ref = sp.Symbol("ANY_COMMON_REFERENCE_VOLUME", positive=True)
        a_, b_ = xs.args[1] * xs.args[0] ** 0, xn.args[1]
        # undo the per-atom scaling by the reference's unit factor: both atoms were scaled by the same reference, so the ratio of their volumes is intact
        c_, _ = scalar_part(a_)
        return E_(ref, sp.cancel(a_ / c_)), E_(ref, sp.cancel(b_ / c_))
    return xs, xn


def strain_intr(ev, a, k):
    return strain_of(ev, as_sym(a[0]), as_sym(a[1]))


def plsf_intr(ev, a, k):
    fd = lib_func("qha/fitting.py", "polynomial_least_square_fitting")
    names, required = positional_params(fd)
    b = dict(zip(names, a))
    for kk, v in k.items():
        if kk not in names or kk in b:
            raise AnalysisError(f"polynomial_least_square_fitting called with bad keyword {kk}")
        b[kk] = v
    for r in names[:3]:
        if r not in b:
            raise AnalysisError(f"polynomial_least_square_fitting call lacks {r}")
    order = b.get("order", sp.Integer(3))
    xs_, xn_ = fit_abscissae(as_sym(b["xs"]), as_sym(b["new_xs"]))
    val = linear("FIT", [xs_, as_sym(b["ys"]), xn_, as_sym(order)], 1)
    ar = return_arity(fd)
    if ar == {1}:
        return val
    if ar == {2}:
        return Tup([sp.Symbol("FITCOEF"), val])
    raise AnalysisError(f"installed polynomial_least_square_fitting returns arities {ar}")


class Batch1:
    def __init__(self, expr):
        self.expr = expr

    def sym_subscript(self, ev, idx, n, mod):
        if is_sym(idx) and idx == 0:
            return self.expr
        raise ev.err("index other than [0] into a one-row v2p result", n, mod)


def unrow_rev(x):
    """x = rest * indexed(base, '::-1') -> (rest * base, 'idx[::-1]')"""
    x = sp.sympify(x)
    idx = [t for t in sp.Mul.make_args(x) if is_indexed(t)]
    rest = sp.Mul(*[t for t in sp.Mul.make_args(x) if not is_indexed(t)])
    if len(idx) != 1:
        return None, None
    return rest * idx[0].args[0], str(idx[0].args[1])


def v2p_intr(ev, a, k):
    names, _ = positional_params(lib_func("qha/v2p.py", "v2p"))
    b = dict(zip(names, a))
    b.update(k)
    from ..sym import ArrV
    fa, pa = b["func_of_t_v"], b["p_of_t_v"]
    if isinstance(fa, ArrV) and isinstance(pa, ArrV):
        # several functions interpolated in one call: row r of the result is v2p1d(row r of the functions, row r of the pressures)
        if not (fa.batch == pa.batch == 1 and fa.batch_last and pa.batch_last and len(fa.shape) == 1 and fa.shape == pa.shape):
            raise AnalysisError("v2p: function and pressure rows of different shapes")
        pn_ = as_sym(b["desired_pressures"])
        out = ArrV(1, fa.shape, batch_last=True)
        for r in range(fa.shape[0]):
            fb, fi = unrow_rev(as_sym(fa.get((r,))))
            pb, pi = unrow_rev(as_sym(pa.get((r,))))
            if fb is None or pb is None or fi != pi or fi != "idx[::-1]":
                raise AnalysisError(f"v2p: row {r} of the functions and of the pressures are not reversed alike ({fi} vs {pi})")
            out.cells[(r,)] = linear("V2P1D", [fb, pb, pn_], 0, same_scale_groups=((1, 2),))
        return out
    f, p, pn = (as_sym(b[x]) for x in ("func_of_t_v", "p_of_t_v", "desired_pressures"))

    def unrow(x):
        c, r = sp.sympify(x).as_coeff_Mul()
        rest = sp.Mul(*[t for t in sp.Mul.make_args(x) if not is_indexed(t)])
        idx = [t for t in sp.Mul.make_args(x) if is_indexed(t)]
        if len(idx) != 1:
            return None, None
        return rest * idx[0].args[0], str(idx[0].args[1])

    fb, fi = unrow(f)
    pb, pi = unrow(p)
    if fb is None or pb is None or fi != pi or fi != "idx[None,::-1]":
        raise AnalysisError(f"v2p1d: the function and pressure rows are not reversed/broadcast alike ({fi} vs {pi})")
    return Batch1(linear("V2P1D", [fb, pb, pn], 0, same_scale_groups=((1, 2),)))


def make_inputs():
    vol = Obj("cij.io.traditional.qha_input:VolumeData", {"volume": VOLS / U.bohr ** 3, "energy": ENER / U.Ry})
    input01 = Obj("cij.io.traditional.qha_input:QHAInputData", {"nv": NV, "volumes": SeqV(vol)})
    ev2 = Obj("cij.io.traditional.elast_dat:ElastVolumeData", {
        "volume": VOLS2 / U.bohr ** 3,
        "static_elastic_modulus": DictV({KeyObj(k): sp.Symbol(f"CST_{k[1:]}", real=True) / GPA for k in KEYS21})})
    input02 = Obj("cij.io.traditional.elast_dat:ElastData", {"cellmass": CELLM / (U.g / U.mol), "volumes": SeqV(ev2)})
    return input01, input02


_CACHE = {}


def run_main(ctx, model, interp, with_table, system=None, cellmass=None, sample=None):
    key = (interp, with_table, system, str(cellmass), str(sample))
    if key not in _CACHE:
        _CACHE[key] = _run_main(ctx, model, interp, with_table, system, cellmass, sample)
    return _CACHE[key]


def _run_main(ctx, model, interp, with_table, system=None, cellmass=None, sample=None):
    input01, input02 = make_inputs()
    captured = {}

    def write(ev, a, k):
        captured["out"] = a[0]

    def fill(ev, a, k):
        df = a[0]
        captured["fill_args"] = (a, k)
        if not isinstance(df, DFV):
            raise AnalysisError("fill_cij is not applied to the table")
        out = df.copy()
        for kk in KEYS21:
            out.cols[kk] = sp.Symbol(f"FILLED_{kk}", real=True)
        return out

    intr = {
        "cij.io.traditional.qha_input:read_energy": lambda ev, a, k: input01,
        "cij.io.traditional.elast_dat:read_elast_data": lambda ev, a, k: input02,
        "cij.util.fill:fill_cij": fill,
        "qha.grid_interpolation.calculate_eulerian_strain": strain_intr,
        "qha.fitting.polynomial_least_square_fitting": plsf_intr,
        "qha.v2p.v2p": v2p_intr,
        "sys.stdout.write": write,
        "cij.c_": c_intrinsic,
    }
    for kname, fn in DF_LIB.items():
        intr[kname] = df_wrap(fn)
        intr["builtins." + kname] = intr[kname]
    seeds = {("global", "cij.util.units:units"): UnitReg(), ("global", "cij.util:c_"): LibV("cij.c_")}
    ev = Ev(model, seeds, intr, ctx=ctx)
    ev.grid_scalars = {VR, NTV, PMIN, DP}
    f = model.func(REF)
    mod = model.mods["cij.cli.static"]
    kwargs = dict(input01="input01", input02=("elast.dat" if with_table else None), interp=interp, ntv=NTV, cellmass=cellmass,
                  v_ratio=VR, p_min=PMIN, delta_p=DP, delta_p_sample=sample, system=system)
    ev.call_def(f, mod, REF, [], kwargs)
    out = captured.get("out")
    if not isinstance(out, Printed) or not isinstance(out.df, DFV):
        raise AnalysisError("main does not print a table with sys.stdout.write(df.to_string())")
    ctx.call_sites += ev.call_sites
    captured["ev"] = ev
    return out.df, captured


# ------------------------------------------------------------------ reference
def at0(x):
    return indexed(x, (sp.Integer(0),))


class R:
    """reference columns (physical quantities) per mode"""

    def __init__(self, ev, interp):
        s = lambda v0, vs: strain_of(ev, v0, vs)
        self.xs = s(at0(VOLS), VOLS)
        self.VG = homogeneous("LINSPACE", [F("MIN")(VOLS) / VR, F("MAX")(VOLS) * VR, NTV], (0, 1))
        self.xg = s(at0(VOLS), self.VG)
        self.FG = linear("FIT", [fit_abscissae(self.xs, self.xg)[0], ENER, fit_abscissae(self.xs, self.xg)[1], sp.Integer(2)], 1)
        self.PG = -grad(self.FG) / grad(self.VG)
        if interp == "none":
            self.V, self.Fc = VOLS, ENER
            self.P = linear("SPLINE", [self.VG, self.PG, VOLS], 1, same_scale_groups=((0, 2),))
        elif interp == "volume":
            self.V, self.Fc, self.P = self.VG, self.FG, self.PG
        else:
            self.P = homogeneous("LINSPACE", [PMIN * GPA, (PMIN + DP * (NTV - 1)) * GPA, NTV], (0, 1))
            self.V = linear("V2P1D", [self.VG, self.PG, self.P], 0, same_scale_groups=((1, 2),))
            self.Fc = linear("V2P1D", [self.FG, self.PG, self.P], 0, same_scale_groups=((1, 2),))
            # "the fitted energy at the reported volume" read literally: the fit of the input energies evaluated at V(P) (instead of F(V) carried to the pressure grid
            # by the same interpolation as V) - both are the property's F column
            xv = s(at0(VOLS), self.V)
            self.Fc_alt = linear("FIT", [fit_abscissae(self.xs, xv)[0], ENER, fit_abscissae(self.xs, xv)[1], sp.Integer(2)], 1)
        self.x2 = s(at0(VOLS2), VOLS2)
        self.xr = s(at0(VOLS2), self.V)

    def modulus(self, key):
        x2_, xr_ = fit_abscissae(self.x2, self.xr)
        return linear("FIT", [x2_, sp.Symbol(f"CST_{key[1:]}", real=True), xr_, sp.Integer(2)], 1)


def vrh_reference(C, S):
    r3 = (1, 2, 3)
    Ciijj = sum(C(i, i, j, j) for i in r3 for j in r3)
    Cijij = sum(C(i, j, i, j) for i in r3 for j in r3)
    Siijj = sum(S(i, i, j, j) for i in r3 for j in r3)
    Sijij = sum(S(i, j, i, j) for i in r3 for j in r3)
    KV, GV = Ciijj / 9, (3 * Cijij - Ciijj) / 30
    KR, GR = 1 / Siijj, 15 / (6 * Sijij - 2 * Siijj)
    return {"bm_V": KV, "bm_R": KR, "bm_VRH": (KV + KR) / 2, "G_V": GV, "G_R": GR, "G_VRH": (GV + GR) / 2}


def eq(a, b):
    return a == b or is_zero(sp.sympify(a) - sp.sympify(b))


# ------------------------------------------------------------------ rules
def r_eos(ctx, model):
    """V, F, P per mode, units, pressure sign and grid"""
    w = model.where(REF)
    for interp in ("none", "volume", "pressure"):
        df, cap = run_main(ctx, model, interp, with_table=False)
        ev = Ev(model)
        ref = R(ev, interp)
        want = {"V": ref.V / ANG3, "F": ref.Fc / U.eV, "P": ref.P / GPA}
        ctx.check(set(df.cols) == set(want), f"mode {interp}: columns without static table", w, expected=str(sorted(want)),
                  found=str(sorted(df.cols)), explanation="the EoS table must have exactly the columns V, F, P",
                  key=f"{interp}.columns")
        for col, wv in want.items():
            if col not in df.cols:
                continue
            got = df.cols[col]
            ctx.check(eq(got, wv) or (col == "F" and hasattr(ref, "Fc_alt") and eq(got, ref.Fc_alt / U.eV)), f"mode {interp}: column {col}", w, expected=short(wv, 400), found=short(got, 400),
                      explanation=f"run-static -I {interp}: column {col} is not "
                                  + {"V": "the reported volume in A^3", "F": "the fitted (input, in mode none) energy at the reported volume in eV",
                                     "P": "-dF_fit/dV of the second-order finite-strain fit in GPa"}[col],
                      key=f"{interp}.{col}")


def r_sampling(ctx, model):
    """--delta-p-sample keeps every k-th row of the pressure-mode table, k the integer NEAREST to delta_p_sample/delta_p
    (the quotient of two decimal floats such as 0.3/0.1 lies just below the integer: truncation or floor division loses a row)"""
    w = model.where(REF)
    DPS = sp.Symbol("DPSAMPLE", positive=True)
    for interp in ("pressure", "volume", "none"):
        df, cap = run_main(ctx, model, interp, with_table=False, sample=DPS)
        got = getattr(df, "sampled", None)
        if interp == "pressure":
            from ..dfmodel import nearest_int_form
            ok = got is not None and nearest_int_form(got) == DPS / DP
            ctx.check(ok, "pressure mode: rows kept every round(delta_p_sample / delta_p)", w, expected="df.iloc[::round(delta_p_sample/delta_p)]",
                      found=f"step {got}", explanation="the sampled rows do not sit at multiples of delta_p_sample: the step is not the integer nearest to "
                      "delta_p_sample/delta_p (truncation/floor of a float quotient such as 0.3/0.1 = 2.9999999999999996 gives 2)", key="sampling.step")
        else:
            ctx.check(got is None, f"mode {interp}: --delta-p-sample does not thin the table", w, expected="no sampling", found=f"step {got}",
                      explanation="rows are dropped in a mode that has no pressure grid", key=f"sampling.{interp}")


def r_table(ctx, model):
    """density, moduli, VRH, velocities with a static table; system and cellmass options"""
    w = model.where(REF)
    for interp in ("none", "volume", "pressure"):
        df, cap = run_main(ctx, model, interp, with_table=True)
        ev = Ev(model)
        ref = R(ev, interp)
        rho = CELLM / (U.NA * ref.V)
        # the EoS columns are the same with and without a static table (the table's own volumes must not reach the energy fit)
        gotF = df.cols.get("F")
        ctx.check(gotF is not None and (eq(gotF, ref.Fc / U.eV) or (hasattr(ref, "Fc_alt") and eq(gotF, ref.Fc_alt / U.eV))), f"mode {interp}: column F with a static table", w,
                  expected=short(ref.Fc / U.eV, 300), found=short(gotF, 300) if gotF is not None else "missing",
                  explanation=f"run-static -I {interp} with a static table: column F is not the fit of the INPUT energies over the INPUT volumes at the reported volume "
                              f"(the table's volume column, or another rebound name, reaches the energy fit)", key=f"{interp}.F.table")
        ctx.check("density" in df.cols and eq(df.cols.get("density", 0), rho / GCM3), f"mode {interp}: density", w,
                  expected=short(rho / GCM3), found=short(df.cols.get("density", "missing")),
                  explanation="density is not (cell mass in g/mol)/(N_A V) in g/cm^3 at the row's volume", key=f"{interp}.density")
        bad = []
        for k in KEYS21:
            got = df.cols.get(k)
            if got is None or not eq(got, ref.modulus(k) / GPA):
                bad.append(f"{k}: {short(got, 120) if got is not None else 'missing'}")
        ctx.check(not bad, f"mode {interp}: 21 modulus columns = fit of the table at the row volume", w,
                  expected="FIT(strain(V2[0],V2), c_ij [GPa], strain(V2[0], V_row), order 2)", found="; ".join(bad[:3]) or "as required",
                  explanation="a modulus column is not the second-order finite-strain fit of the static table evaluated at "
                              "the row's volume (shared reference volume, GPa)", key=f"{interp}.moduli")
        M = lambda i, j, k, l: ref.modulus("c" + voigt_canon(f"{i}{j}{k}{l}")) / GPA
        # the inverse: entries are INV symbols of the assembled matrix (assembly checked by R18.4b)
        vr = None
        if "bm_V" in df.cols:
            syms = sorted({s for c in ("bm_R", "G_R") if c in df.cols for s in df.cols[c].free_symbols if s.name.startswith("INV")},
                          key=lambda s: s.name)
            tag = syms[0].name.split("_")[0] if syms else None

            def S(i, j, k, l):
                key = voigt_canon(f"{i}{j}{k}{l}")
                a, b = int(key[0]) - 1, int(key[1]) - 1
                fac = (1 if i == j else 2) * (1 if k == l else 2)
                return sp.Symbol(f"{tag}_{a}_{b}", real=True) / fac

            vr = vrh_reference(M, S)
        for col in ("bm_V", "bm_R", "bm_VRH", "G_V", "G_R", "G_VRH"):
            got = df.cols.get(col)
            ok = got is not None and vr is not None and eq(got, vr[col])
            ctx.check(ok, f"mode {interp}: {col}", w, expected=short(vr[col], 200) if vr else "?", found=short(got, 300) if got is not None else "missing",
                      explanation=f"{col} is not the Voigt-notation form of the tensor definition (C07) applied to the row's moduli",
                      key=f"{interp}.{col}")
        if vr:
            vel = {"v_p": (vr["bm_VRH"] + sp.Rational(4, 3) * vr["G_VRH"]) * GPA / rho / KMS ** 2,
                   "v_s": vr["G_VRH"] * GPA / rho / KMS ** 2, "v_phi": vr["bm_VRH"] * GPA / rho / KMS ** 2}
            for col, wv in vel.items():
                got = df.cols.get(col)
                ok = got is not None and eq(sp.expand(got ** 2), sp.expand(wv))
                ctx.check(ok, f"mode {interp}: {col}", w, expected=f"sqrt({short(wv, 160)})", found=short(got, 300) if got is not None else "missing",
                          explanation=f"{col}: rho*v^2 is not the corresponding modulus, or the unit is not km/s", key=f"{interp}.{col}")
    df, cap = run_main(ctx, model, "volume", with_table=True, system="cubic")
    a, k = cap.get("fill_args", ((), {}))
    ok = len(a) >= 1 and isinstance(a[0], DFV) and ((len(a) > 1 and a[1] == "cubic") or k.get("system") == "cubic")
    ctx.check(ok, "system option: fill_cij(df, system) applied and its result used", w, expected="df = fill_cij(df, system)",
              found=f"args={[type(x).__name__ if not isinstance(x, str) else x for x in a]} kwargs={list(k)}",
              explanation="an explicit crystal system is not handed to fill_cij together with the table", key="system.fill")
    used = any(s.name.startswith("FILLED_") for s in df.cols.get("bm_V", sp.Integer(0)).free_symbols)
    ctx.check(used, "system option: VRH computed from the filled table", w, expected="VRH columns depend on fill_cij's result",
              found=short(df.cols.get("bm_V", "missing"), 200), explanation="the filled components do not reach the averages", key="system.used")
    df, cap = run_main(ctx, model, "volume", with_table=True, cellmass=CM / (U.g / U.mol))
    ev = Ev(model)
    ref = R(ev, "volume")
    ctx.check(eq(df.cols.get("density", 0), CM / (U.NA * ref.V) / GCM3), "cellmass option overrides the table's cell mass", w,
              expected="cellmass/(N_A V) in g/cm^3", found=short(df.cols.get("density", "missing")),
              explanation="--cellmass does not replace the static table's cell mass in the density", key="cellmass")
    # --cellmass without a static table: the density column is still reported, in g/cm^3, in every mode
    for interp in ("none", "volume", "pressure"):
        df, cap = run_main(ctx, model, interp, with_table=False, cellmass=CM / (U.g / U.mol))
        ref = R(Ev(model), interp)
        ctx.check(eq(df.cols.get("density", 0), CM / (U.NA * ref.V) / GCM3), f"{interp}: --cellmass without a static table gives the density in g/cm^3", w,
                  expected="cellmass/(N_A V) in g/cm^3", found=short(df.cols.get("density", "missing")),
                  explanation="with --cellmass and no static table the density column is missing or not converted to g/cm^3", key=f"cellmass.notable.{interp}")


def r_assembly(ctx, model):
    """the 6x6 matrix inverted in run-static is the symmetric assembly of the c_ij columns"""
    w = model.where(REF)
    df, cap = run_main(ctx, model, "volume", with_table=True)
    invs = getattr(cap["ev"], "inversions", [])
    if len(invs) != 1:
        raise AnalysisError(f"run-static: expected one matrix inversion, found {len(invs)}")
    m = invs[0].sym_of
    ref = R(Ev(model), "volume")
    bad = []
    for i in range(6):
        for j in range(6):
            want = ref.modulus("c" + voigt_canon(f"{i + 1}{j + 1}")) / GPA
            if not eq(m.get((i, j)), want):
                bad.append(f"[{i},{j}]")
    ctx.check(not bad and tuple(m.shape) == (6, 6), "inverted matrix = symmetric assembly of the c_ij columns", w,
              expected="cij[:, i, j] = column c<min(i,j)+1><max(i,j)+1>", found=", ".join(bad[:8]) or "as required",
              explanation="the stiffness matrix inverted for the Reuss averages is not the full symmetric tensor of the row",
              key="static.assembly")
    cut = getattr(invs[0], "truncated", None)
    ctx.check(cut is None, "the compliances behind the Reuss averages are the inverse itself, for every conditioning of the row's tensor", w,
              expected="numpy.linalg.inv (or a pseudo-inverse with a cut-off of machine-precision size)", found=f"pseudo-inverse with cut-off {cut}" if cut is not None else "an inverse",
              explanation=f"the row's stiffness is inverted by a pseudo-inverse that drops every eigenvalue below {cut} x the largest one: for a table with a soft shear mode "
                          f"the compliance of that mode is set to zero, and bm_R, G_R, the Hill values and the velocities no longer follow from the row's moduli",
              key="static.inverse-truncated")


def r_library(ctx, model):
    """arity / unpack / read-only conformance of the qha calls in run-static"""
    f = model.func(REF)
    w = model.where(REF)
    fd = lib_func("qha/fitting.py", "polynomial_least_square_fitting")
    ar = return_arity(fd)
    ctx.libfact(f"installed polynomial_least_square_fitting returns arity {sorted(ar)}; numba-typed: {numba_signature_readonly_intolerant(fd)}")
    n = 0
    # the command function and every other function / method of its module (the fit may live in a helper)
    smod = model.mods[REF.split(":")[0]]
    scopes = [f] + [g for q_, g in smod.funcs.items() if g is not f and not any(g is x for x in ast.walk(f))]
    for st in (x for sc in scopes for x in ast.walk(sc)):
        if isinstance(st, ast.Assign) and isinstance(st.value, ast.Call) and \
                (dotted_name(st.value.func) or "").split(".")[-1] == "polynomial_least_square_fitting":
            n += 1
            tgt = st.targets[0]
            k = len(tgt.elts) if isinstance(tgt, (ast.Tuple, ast.List)) else 1
            ctx.check(k == 1 or ar == {k}, "unpack arity of polynomial_least_square_fitting", model.where(REF, st),
                      expected=f"{sorted(ar)} value(s)", found=f"{k} target(s)",
                      explanation="the result of qha's fit is unpacked into a different number of targets than the installed "
                                  "function returns: run-static aborts", key="static.plsf.unpack")
    ctx.floor("calls of polynomial_least_square_fitting in run-static", n, 1)
    # read-only views must not reach the numba-typed fit: every .to_numpy() whose result flows into
    # fit_modulus' value argument must ask for a copy
    if numba_signature_readonly_intolerant(fd):
        defs = {}
        for st in ast.walk(f):
            if isinstance(st, ast.Assign) and len(st.targets) == 1 and isinstance(st.targets[0], ast.Name):
                defs.setdefault(st.targets[0].id, []).append(st.value)
        nsite = 0
        for c in ast.walk(f):
            if isinstance(c, ast.Call) and isinstance(c.func, ast.Name) and c.func.id == "fit_modulus" and len(c.args) >= 3:
                arg = c.args[2]
                if isinstance(arg, ast.Name):
                    for d in defs.get(arg.id, []):
                        for call in ast.walk(d):
                            if isinstance(call, ast.Call) and isinstance(call.func, ast.Attribute) and call.func.attr == "to_numpy":
                                nsite += 1
                                kw = {k.arg: k.value for k in call.keywords}
                                okc = isinstance(kw.get("copy"), ast.Constant) and kw["copy"].value is True
                                wrapped = any(isinstance(p, ast.Call) and (dotted_name(p.func) or "") in ("numpy.array", "numpy.copy")
                                              and any(x is call for x in ast.walk(p)) for p in ast.walk(d))
                                ctx.check(okc or wrapped, f"{arg.id}: writable array handed to the compiled fit", model.where(REF, call),
                                          expected=".to_numpy(copy=True) (or numpy.array(...))", found=src(call),
                                          explanation="a read-only pandas view reaches qha's numba-typed fit, which has no "
                                                      "signature for read-only arrays: run-static aborts on every input",
                                          key=f"static.readonly.{arg.id}")
        ctx.extra["readonly_sites"] = nsite


RULES = [
    ("R18.1-3,6", "V, F, P columns per mode: values, units (A^3, eV, GPa), pressure sign, pressure grid, converted once", r_eos),
    ("R18.6b", "--delta-p-sample: every round(delta_p_sample/delta_p)-th row, pressure mode only", r_sampling),
    ("R18.4-5,7,9", "density, 21 modulus columns, six VRH columns, three velocities per mode; system and cellmass options", r_table),
    ("R18.4b", "matrix inverted for the Reuss averages is the symmetric assembly of the modulus columns", r_assembly),
    ("R18.8,10", "library conformance: unpack arity of the qha fit; no read-only view reaches the compiled fit", r_library),
]
