"""C17 — input files round-trip: phonon data write/read, static table parse, fill output."""
from __future__ import annotations

import ast
import re

import sympy as sp

from ..facts import c_intrinsic, KeyObj
from ..model import dotted_name, src
from ..report import AnalysisError, Where
from ..sym import Ev, Tup, Obj, DictV, LibV, RaisedV, BoundLib, MatchV, as_sym, is_sym, open_kw, kw_accept, whitespace_sep
from .C20 import Lines

QI = "cij.io.traditional.qha_input"
ED = "cij.io.traditional.elast_dat"
LEVEL = "other"
TECHNIQUE = "static analysis: writer and readers folded on reference data of every count shape (no data-dependent branching: checked), comparing field wiring; command output structure"
EXPLANATION = (
    "Static analysis decides the writer/reader field wiring: write_energy folded on a reference data set with pairwise "
    "distinct values (counts nv=2, nq=2, np=3) produces text that read_energy, folded on it, parses back to the same counts, "
    "pressures, volumes, energies, q-coordinates, frequencies and weights (to the written precision); neither function "
    "branches on data values (only on counts and line kinds); read_elast_data folded on reference tables (with and without "
    "lattice block, upper-case / prefixed column names, reordered columns) returns the tabulated reference volume, count, "
    "cell mass, per-volume components under canonical keys and the lattice rows; `cij fill` echoes line 1 and 2, hands "
    "exactly N+1 lines to the table parser, prints the filled table without index and echoes the rest; every reader, writer and re-emitter "
    "of these formats opens its file with one text encoding (R17.6).")
NOT_DECIDED = "round-trip equality for values outside the written precision/width (formatting overflow above 1e5 is a numerical matter)."
ASSUMPTIONS = ["documented formats of the phonon data file and static table (reference texts written out in the rule)",
               "T-LIB: pandas.read_table/read_csv return the double nearest to the printed number only with float_precision='round_trip' (pandas documentation; the "
               "default and 'high' converters are off by one unit in the last place for some 16-17 digit numbers, demonstrated by seeded/C17K)"]


def nt(cls, fields, values):
    o = Obj(cls, dict(zip(fields, values)))
    o.attrs["__fields__"] = list(fields)
    return o


def R(x):
    return sp.nsimplify(repr(x), rational=True)


def sample_data(extreme=False):
    if extreme:
        return extreme_data()
    vols = []
    val = [0]

    def nxt(base):
        val[0] += 1
        return R(round(base + val[0] * 1.001, 4))
    for iv in range(2):
        qps = []
        for iq in range(2):
            coord = Tup([R(round(0.125 * (iq + 1) + 0.01 * k, 4)) for k in range(3)])
            modes = Tup([nxt(100.0 * (iv + 1)) for _ in range(3)], "list")
            qps.append(nt(f"{QI}:QPointData", ["coord", "modes"], [coord, modes]))
        vols.append(nt(f"{QI}:VolumeData", ["pressure", "volume", "energy", "q_points"],
                       [R(-12.5 + 40 * iv), R(1100.125 - 77.5 * iv), R(-1234.567891 - iv), Tup(qps, "list")]))
    weights = Tup([nt(f"{QI}:QPointWeight", ["coord", "weight"], [Tup([R(0.125 * (i + 1) + 0.01 * k) for k in range(3)]), R(2.0 + 4 * i)]) for i in range(2)], "list")
    return nt(f"{QI}:QHAInputData", ["nv", "nq", "np", "nm", "na", "weights", "volumes"],
              [sp.Integer(2), sp.Integer(2), sp.Integer(3), sp.Integer(4), sp.Integer(5), weights, Tup(vols, "list")])


def extreme_data():
    """values of either sign with magnitudes up to 1e5 (the property's range), 1 volume x 1 q-point x 3 modes"""
    qp = nt(f"{QI}:QPointData", ["coord", "modes"], [Tup([R(0.0), R(-0.5), R(0.3333)]), Tup([R(-35.25), R(99999.5), R(0.000125)], "list")])
    vol = nt(f"{QI}:VolumeData", ["pressure", "volume", "energy", "q_points"], [R(-12000.5), R(98765.4321), R(-15234.123456), Tup([qp], "list")])
    weights = Tup([nt(f"{QI}:QPointWeight", ["coord", "weight"], [Tup([R(0.0), R(-0.5), R(0.3333)]), R(48.0)])], "list")
    return nt(f"{QI}:QHAInputData", ["nv", "nq", "np", "nm", "na", "weights", "volumes"],
              [sp.Integer(1), sp.Integer(1), sp.Integer(3), sp.Integer(1), sp.Integer(1), weights, Tup([vol], "list")])


def plain(v):
    if isinstance(v, Tup):
        return tuple(plain(x) for x in v.items)
    if isinstance(v, Obj) and "__fields__" in v.attrs:
        return tuple(plain(v.attrs[f]) for f in v.attrs["__fields__"])
    if isinstance(v, DictV):
        return {getattr(k, "name", k): plain(x) for k, x in v.d.items()}
    if is_sym(v):
        if not v.is_number:
            return str(v)           # an expression that is not the tabulated number (an opaque atom survived): compares unequal to it
        return int(v) if v.is_Integer else float(v)
    return v


def close(a, b, tol=5e-7, absolute=False):
    if isinstance(a, dict) and isinstance(b, dict):
        return a.keys() == b.keys() and all(close(a[k], b[k], tol, absolute) for k in a)
    if isinstance(a, tuple) and isinstance(b, tuple):
        return len(a) == len(b) and all(close(x, y, tol, absolute) for x, y in zip(a, b))
    if isinstance(a, (tuple, dict)) or isinstance(b, (tuple, dict)):
        return False
    if isinstance(a, (int, float)) and isinstance(b, (int, float)):
        return abs(a - b) <= tol * (1.0 if absolute else max(1.0, abs(b)))
    return a == b


class OutFile:
    def __init__(self):
        self.text = ""

    def sym_getattr(self, ev, name, node, mod):
        if name in ("write", "writelines"):
            return BoundLib(f"outfile.{name}", self)
        raise ev.err(f"file attribute {name}", node, mod)


def io_intrinsics(files, opened):
    def open_(ev, a, k):
        name = a[0] if isinstance(a[0], str) else getattr(a[0], "text", str(a[0]))
        mode = a[1] if len(a) > 1 else k.get("mode", "r")
        open_kw(k)
        opened.append((name, mode))
        if mode in ("w", "wt"):
            files[name] = OutFile()
            return files[name]
        if name not in files:
            raise RaisedV("FileNotFoundError")
        f = files[name]
        return Lines(f.text if isinstance(f, OutFile) else f)

    def writelines(ev, a, k):
        for line in ev.iterate(a[1], None, None):
            if not isinstance(line, str):
                raise AnalysisError("writelines of a non-constant line")
            a[0].text += line
        return None

    def write(ev, a, k):
        if not isinstance(a[1], str):
            raise AnalysisError("write of a non-constant string")
        a[0].text += a[1]
        return None

    def read_rest(ev, a, k):
        f = a[0]
        rest = "".join(f.lines[f.pos:])
        f.pos = len(f.lines)
        return rest

    return {
        "builtins.open": open_, "outfile.writelines": writelines, "outfile.write": write,
        "builtins.next": lambda ev, a, k: a[0].nxt(),
        "lines.readline": lambda ev, a, k: a[0].nxt() if a[0].pos < len(a[0].lines) else "",
        "lines.read": read_rest,
        "builtins.map": lambda ev, a, k: __import__("cijsa.sym", fromlist=["lib_map"]).lib_map(ev, a, k, None, None),
    }


def patch_lines():
    """Lines objects as file objects: iteration/next share one cursor; readline/read methods"""
    def sym_getattr(self, ev, name, node, mod):
        if name in ("readline", "read"):
            return BoundLib(f"lines.{name}", self)
        raise ev.err(f"file attribute {name}", node, mod)
    Lines.sym_getattr = sym_getattr
    Lines.sym_next = lambda self, ev: self.nxt()


COUNT_FIELDS = {"nv", "nq", "np", "nm", "na"}      # fields of the data record that hold counts (part of the record's interface)


def data_dependent_branches(f, data_params=()):
    """branch conditions may depend on line kinds (strings, pattern hits) and counts, never on parsed values: a forward taint
    over the function and its nested helpers.  Sources: float()/complex() conversions, map(float, ...), numpy calls, and every
    attribute of a data parameter other than the count fields; taint flows through assignments, loop and comprehension targets."""
    tainted = set(data_params)

    def is_data(e):
        for x in ast.walk(e):
            if isinstance(x, ast.Name) and x.id in tainted:
                # a count field read off a data record is not a value
                return True
            if isinstance(x, ast.Call):
                fn = src(x.func)
                if fn in ("float", "complex") or fn.split(".")[0] in ("numpy", "np", "math"):
                    return True
                if fn == "map" and x.args and src(x.args[0]) in ("float", "complex"):
                    return True
        return False

    def strip_counts(e):
        """the expression with `<data>.n?` count reads removed (they do not carry values)"""
        class T(ast.NodeTransformer):
            def visit_Attribute(self, n):
                if n.attr in COUNT_FIELDS:
                    return ast.Constant(0)
                return self.generic_visit(n)
        import copy
        return T().visit(copy.deepcopy(e))

    def targets(t):
        return {x.id for x in ast.walk(t) if isinstance(x, ast.Name)}

    changed = True
    while changed:
        changed = False
        for n in ast.walk(f):
            new = set()
            if isinstance(n, ast.Assign) and is_data(strip_counts(n.value)):
                for t in n.targets:
                    new |= targets(t)
            elif isinstance(n, (ast.AnnAssign, ast.AugAssign)) and n.value is not None and is_data(strip_counts(n.value)):
                new |= targets(n.target)
            elif isinstance(n, (ast.For, ast.comprehension)) and is_data(strip_counts(n.iter)):
                new |= targets(n.target)
            elif isinstance(n, ast.NamedExpr) and is_data(strip_counts(n.value)):
                new |= targets(n.target)
            if not new <= tainted:
                tainted |= new
                changed = True
    bad = []
    for n in ast.walk(f):
        tests = []
        if isinstance(n, (ast.If, ast.While, ast.IfExp, ast.Assert)):
            tests.append(n.test)
        elif isinstance(n, ast.comprehension):
            tests.extend(n.ifs)
        for t in tests:
            if is_data(strip_counts(t)):
                bad.append(src(t)[:60])
    return bad


def r_energy(ctx, model):
    patch_lines()
    wf = model.func(f"{QI}:write_energy")
    rf = model.func(f"{QI}:read_energy")
    w = model.where(f"{QI}:write_energy", wf)
    for label, data in (("regular counts nv=2 nq=2 np=3", sample_data()), ("either sign, magnitudes up to 1e5", sample_data(extreme=True))):
        files, opened = {}, []
        ev = Ev(model, {}, io_intrinsics(files, opened), ctx=ctx)
        ev.call_def(wf, model.mods[QI], f"{QI}:write_energy", ["out.dat", data], {})
        text = files["out.dat"].text if "out.dat" in files else ""
        ctx.check(bool(text) and opened and opened[0] == ("out.dat", "w"), f"write_energy writes one file, truncating ({label})", w, expected="open(fname, 'w')", found=str(opened),
                  explanation="the writer does not create its file in truncate mode", key=f"energy.write.{label[:7]}")
        ev2 = Ev(model, {}, {**io_intrinsics({"out.dat": text}, []), **text_table_intrinsics()}, ctx=ctx)
        try:
            back = ev2.call_def(rf, model.mods[QI], f"{QI}:read_energy", ["out.dat"], {})
        except RaisedV as e:
            ctx.violation(f"energy.roundtrip.{label[:7]}", model.where(f"{QI}:read_energy", rf), expected="the written file is readable", found=f"raises {e.exc_name} at {e.where}",
                          explanation=f"read_energy fails on the file write_energy produces for data with {label} ({e.exc_name})", instance=f"write -> read ({label})")
            continue
        got, want = plain(back), plain(data)
        # the wide-magnitude reference values are representable at the written precision (6 / 4 decimals): "to the written
        # precision" is an ABSOLUTE tolerance of half a unit in the last written decimal, whatever the magnitude
        ctx.check(close(got, want, 1e-6, absolute=True) if "1e5" in label else close(got, want, 5e-7), f"read_energy(write_energy(data)) == data ({label})", model.where(f"{QI}:read_energy", rf),
                  expected=str(want)[:300], found=str(got)[:300],
                  explanation="a field changes place or value in the write/read round trip of the phonon data file (regex groups, field order of "
                              "the records, loop counts, separators or the weight block)", key=f"energy.roundtrip.{label[:7]}")
    for ref in ("write_energy", "read_energy", "_read_volume_data", "_read_weights"):
        f = model.func(f"{QI}:{ref}")
        bad = data_dependent_branches(f, data_params=[a.arg for a in f.args.args[1:2]] if ref == "write_energy" else ())
        ctx.check(not bad, f"{ref}: no branch on parsed values", model.where(f"{QI}:{ref}", f), expected="conditions on line kinds and counts only", found=str(bad),
                  explanation="the reader/writer branches on data values: agreement on reference data sets does not carry over", key=f"energy.{ref}.branches")


TABLE_A = """title line kept
1234.500000  2  100.250000
V  c11  C12  Cij44  c2311
1100.0  300.5  110.25  80.125  -3.5
1000.0  350.5  120.25  90.125  -4.5
 lattice_a lattice_b lattice_c
10.1 10.2 10.3
9.1 9.2 9.3
"""
# TABLE_A with its columns in another order and case: a shear-coupling column first, the longitudinal one in the middle (C13: column order is presentation)
TABLE_D = """title line kept
1234.500000  2  100.250000
V  C2311  cij44  C11  c21
1100.0  -3.5  80.125  300.5  110.25
1000.0  -4.5  90.125  350.5  120.25
 lattice_a lattice_b lattice_c
10.1 10.2 10.3
9.1 9.2 9.3
"""
TABLE_B = """another title
987.000000 3 55.500000
vol c33 c13
900.0 1.0 2.0
800.0 3.0 4.0
700.0 5.0 6.0
"""


TABLE_C = """rows listed by increasing volume
 950.000000  3  77.700000
V c11 c12
 800.0  410.5  150.25
 900.0  350.5  130.25
1000.0  300.5  110.25
 lattice_a lattice_b lattice_c
8.1 8.2 8.3
9.1 9.2 9.3
10.1 10.2 10.3
"""


class TextBuffer:
    """io.StringIO(text)"""

    def __init__(self, text):
        self.text = text


class ParsedRows:
    """pandas.read_table(buffer, sep=whitespace, header=None): the whitespace-separated fields of every line as numbers"""

    def __init__(self, rows):
        self.rows = rows

    def sym_getattr(self, ev, name, node, mod):
        from ..sym import BoundLib
        if name in ("to_numpy", "values"):
            return BoundLib("parsedrows.same", self) if name == "to_numpy" else self
        if name == "tolist":
            return BoundLib("parsedrows.tolist", self)
        raise ev.err(f"attribute {name} of a parsed text table", node, mod)


def _float_dtype_ok(v):
    name = v if isinstance(v, str) or v is None else getattr(v, "name", repr(v))
    return v is None or any(t in str(name) for t in ("float", "double"))


def text_table_intrinsics():
    from ..sym import lib_float

    def stringio(ev, a, k):
        if not (len(a) == 1 and isinstance(a[0], str)):
            raise AnalysisError("io.StringIO of something that is not text read from the file")
        return TextBuffer(a[0])

    def read_table(ev, a, k):
        buf = a[0]
        if not isinstance(buf, TextBuffer):
            raise AnalysisError("pandas.read_table of something that is not a text buffer of the file's lines")
        sep = k.get("sep", k.get("delimiter"))
        if sep not in (r"\s+",) and not k.get("delim_whitespace"):
            raise AnalysisError(f"pandas.read_table with separator {sep!r}")
        if k.get("header", "infer") is not None:
            raise AnalysisError("pandas.read_table that takes the first row as a header")
        for other in ("index_col", "names", "dtype", "engine", "skiprows", "comment"):
            if k.get(other) is not None:
                raise AnalysisError(f"pandas.read_table with {other}=")
        prec = k.get("float_precision")
        rows = []
        for line in buf.text.splitlines():
            if not line.strip():
                continue
            vals = [lib_float(ev, [tok], {}, None, None) for tok in line.split()]
            if prec != "round_trip":
                # pandas' default ('fast') and 'high' number parsers are not correctly rounded: about one full-precision number in six comes back one
                # unit in the last place off; only float_precision="round_trip" (Python's own conversion) returns the tabulated double
                vals = [sp.Function("PANDAS_INEXACT_FLOAT_PARSE")(v) for v in vals]
            rows.append(Tup(vals, "list"))
        return ParsedRows(rows)

    def loadtxt(ev, a, k):
        """numpy.loadtxt(list of lines, dtype=float[, ndmin]): whitespace-separated numbers; a single row (or column) is squeezed to one dimension unless ndmin asks otherwise"""
        from ..sym import ArrV
        src_ = a[0]
        max_rows = k.get("max_rows")
        if hasattr(src_, "nxt"):
            # a cursor over the lines of an open file: with max_rows=n exactly n data lines are taken from it (blank lines are skipped and not counted), the rest stays unread
            if max_rows is None:
                raise AnalysisError("numpy.loadtxt on the open file without max_rows (it would read to the end of the file)")
            n_ = int(as_sym(max_rows))
            lines_ = []
            while len(lines_) < n_:
                try:
                    l = src_.nxt()
                except RaisedV:
                    break
                if l.strip():
                    lines_.append(l)
        else:
            lines_ = [l for l in (ev.iterate(src_, None, None) if not isinstance(src_, TextBuffer) else src_.text.splitlines()) if isinstance(l, str) and l.strip()]
            if max_rows is not None:
                lines_ = lines_[:int(as_sym(max_rows))]
        if not _float_dtype_ok(k.get("dtype", a[1] if len(a) > 1 else None)):
            raise AnalysisError("numpy.loadtxt with a non-floating dtype")
        for other in ("comments", "delimiter", "converters", "skiprows", "unpack"):
            if k.get(other) is not None and not (other == "unpack" and k.get(other) is False):
                raise AnalysisError(f"numpy.loadtxt with {other}=")
        ndmin = k.get("ndmin", sp.Integer(0))
        ndmin = int(ndmin) if ndmin is not None else 0
        rows = [[lib_float(ev, [tok], {}, None, None) for tok in l.split()] for l in lines_]
        usecols = k.get("usecols")
        if usecols is not None:
            cols_ = [int(as_sym(c_)) for c_ in (ev.iterate(usecols, None, None) if not is_sym(usecols) else [usecols])]
            try:
                rows = [[r[c_] for c_ in cols_] for r in rows]
            except IndexError:
                raise RaisedV("ValueError")
        if not rows or len({len(r) for r in rows}) != 1:
            raise RaisedV("ValueError")
        nr, nc = len(rows), len(rows[0])
        shape = [nr, nc]
        if ndmin < 2:
            shape = [d for d in shape if d != 1]                # squeeze
            while len(shape) < ndmin:
                shape.insert(0, 1)
        out = ArrV(0, tuple(shape))
        flat = [v for r in rows for v in r]
        import itertools as _it
        for key, v in zip(_it.product(*[range(d) for d in shape]), flat):
            out.cells[key] = v
        return out if shape else flat[0]

    return {"io.StringIO": stringio, "pandas.read_table": read_table, "pandas.read_csv": read_table, "numpy.loadtxt": loadtxt, "numpy.genfromtxt": loadtxt,
            "parsedrows.same": lambda ev, a, k: (k.all() if hasattr(k, "all") else None, a[0])[1],
            "parsedrows.tolist": lambda ev, a, k: Tup(list(a[0].rows), "list")}


def r_elast(ctx, model):
    patch_lines()
    f = model.func(f"{ED}:read_elast_data")
    w = model.where(f"{ED}:read_elast_data", f)
    wants = {
        "a.dat": (1234.5, 2, 100.25, ((1100.0, {"c11": 300.5, "c12": 110.25, "c44": 80.125, "c14": -3.5}), (1000.0, {"c11": 350.5, "c12": 120.25, "c44": 90.125, "c14": -4.5})),
                  ((10.1, 10.2, 10.3), (9.1, 9.2, 9.3))),
        "b.dat": (987.0, 3, 55.5, ((900.0, {"c33": 1.0, "c13": 2.0}), (800.0, {"c33": 3.0, "c13": 4.0}), (700.0, {"c33": 5.0, "c13": 6.0})), ()),
        # rows in increasing-volume order: row k of the table stays paired with row k of the lattice block
        "c.dat": (950.0, 3, 77.7, ((800.0, {"c11": 410.5, "c12": 150.25}), (900.0, {"c11": 350.5, "c12": 130.25}), (1000.0, {"c11": 300.5, "c12": 110.25})),
                  ((8.1, 8.2, 8.3), (9.1, 9.2, 9.3), (10.1, 10.2, 10.3))),
    }
    # the table without lattice block again, as editors leave it: one empty line after the table, and a line holding only blanks
    wants["d.dat"] = wants["a.dat"]
    wants["b-blank.dat"] = wants["b.dat"]
    wants["b-spaces.dat"] = wants["b.dat"]
    for name, text in (("a.dat", TABLE_A), ("b.dat", TABLE_B), ("c.dat", TABLE_C), ("d.dat", TABLE_D), ("b-blank.dat", TABLE_B + "\n"), ("b-spaces.dat", TABLE_B + "   \n")):
        intr = io_intrinsics({name: text}, [])
        intr["cij.c_"] = c_intrinsic
        intr.update(text_table_intrinsics())
        ev = Ev(model, {("global", "cij.util:c_"): LibV("cij.c_")}, intr, ctx=ctx)
        try:
            out = ev.call_def(f, model.mods[ED], f"{ED}:read_elast_data", [name], {})
        except RaisedV as e:
            ctx.violation(f"elast.{name}", w, "the reference table is parsed", f"raises {e.exc_name} at {e.where}", f"read_elast_data fails on a well-formed table ({e.exc_name})")
            continue
        got = plain(out)
        ctx.check(close(got, wants[name]), f"read_elast_data on reference table {name} ({'without' if name.startswith('b') else 'with'} lattice block{', rows by increasing volume' if name == 'c.dat' else ', columns reordered' if name == 'd.dat' else ''})", w,
                  expected=str(wants[name])[:300], found=str(got)[:300],
                  explanation="the static table is not parsed into (reference volume, count, cell mass, per-volume components under canonical keys, "
                              "lattice rows): header field order, volume column, key/column pairing or the lattice block", key=f"elast.{name}")


def click_params(fdef):
    """click decorators of a command -> {parameter name: {'kind': option|argument, 'names': [...], <keyword ast nodes>}}"""
    out = {}
    for d in fdef.decorator_list:
        if not isinstance(d, ast.Call):
            continue
        kind = (dotted_name(d.func) or "").rsplit(".", 1)[-1]
        if kind not in ("option", "argument"):
            continue
        names = [a.value for a in d.args if isinstance(a, ast.Constant) and isinstance(a.value, str)]
        long = [n for n in names if n.startswith("--")] or names
        if not long:
            continue
        pname = long[0].lstrip("-").replace("-", "_").lower()
        explicit = [n for n in names if not n.startswith("-")]
        if kind == "option" and explicit:
            pname = explicit[0]
        out[pname] = dict(kind=kind, names=names, **{k.arg: k.value for k in d.keywords if k.arg})
    return out


def pandas_python_parser_lookahead() -> int:
    """lines pandas' python engine pulls from its source after the header before it parses anything: the `_next_line()` calls in PythonParser._get_index_name
    of the INSTALLED pandas (the lines are kept in the parser's buffer, so they are gone from a handle the caller keeps reading)"""
    import ast as _ast, importlib.util as _iu
    spec = _iu.find_spec("pandas.io.parsers.python_parser")
    if spec is None or not spec.origin:
        raise AnalysisError("installed pandas python parser not found")
    tree = _ast.parse(open(spec.origin).read())
    for fn in _ast.walk(tree):
        if isinstance(fn, _ast.FunctionDef) and fn.name == "_get_index_name":
            n_ = sum(1 for c in _ast.walk(fn) if isinstance(c, _ast.Call) and isinstance(c.func, _ast.Attribute) and c.func.attr == "_next_line")
            if n_ >= 1:
                return n_
    raise AnalysisError("PythonParser._get_index_name of the installed pandas does not have the expected shape")


TABLE_ONE = """one volume only
77.000000  1  12.500000
V  c11  C12  Cij44  c2311
1100.0  300.5  110.25  80.125  -3.5
 lattice_a lattice_b lattice_c
10.1 10.2 10.3
"""


def fold_fillcmd(ctx, model, table=None):
    """`cij fill` folded on reference table A with one marker per command-line option; what reaches fill_cij is bound to
    fill_cij's own signature, so positional, keyword and **kwargs forwarding are judged alike"""
    patch_lines()
    ref = "cij.cli.fill:main"
    f = model.func(ref)
    out = []
    cap = {}

    class SIO:
        def __init__(self, text=""):
            self.text = text

        def sym_getattr(self, ev, name, node, mod):
            return BoundLib(f"sio.{name}", self)

    table = TABLE_A if table is None else table

    class InTable(str):
        """the table as parsed from the file (what is handed to fill_cij): compares equal to the marker 'TABLE'"""
        cols = table.splitlines()[2].split()

        def sym_getattr(self, ev, name, node, mod):
            if name == "copy":
                return BoundLib("intable.copy", self)
            if name == "columns":
                return Tup(list(self.cols), "list")
            if name == "to_string":
                return BoundLib("intable.to_string", self)
            raise ev.err(f"attribute {name} of the parsed table", node, mod)

        def sym_subscript(self, ev, idx, n, mod):
            if isinstance(idx, Tup) and all(isinstance(c, str) for c in idx.items):
                return Mixed("columns of the unfilled input table")
            raise ev.err("subscript on the parsed table", n, mod)

    class Mixed:
        """a table that is not (only) what fill_cij returned"""
        def __init__(self, what):
            self.what = what

        def sym_getattr(self, ev, name, node, mod):
            if name == "to_string":
                return BoundLib("mixed.to_string", self)
            if name == "columns":
                return Tup(list(InTable.cols), "list")
            raise ev.err(f"attribute {name} of a re-assembled table", node, mod)

    class Filled:
        """the table fill_cij returns: the columns of the input table in their order (the volume column first), filled components appended"""
        def __init__(self, cols=None):
            self.cols = list(cols) if cols is not None else table.splitlines()[2].split() + ["c22", "c33"]

        def sym_getattr(self, ev, name, node, mod):
            if name == "to_string":
                return BoundLib("filled.to_string", self)
            if name == "columns":
                return Tup(list(self.cols), "list")
            if name == "copy":
                return BoundLib("filled.copy", self)
            raise ev.err(name, node, mod)

        def sym_subscript(self, ev, idx, n, mod):
            if isinstance(idx, Tup) and all(isinstance(c, str) for c in idx.items):
                if not set(idx.items) <= set(self.cols):
                    raise RaisedV("KeyError")
                return Filled(idx.items)            # a table with these columns, in this order
            raise ev.err("subscript on the filled table", n, mod)

    params = click_params(f)
    opts = {p: ("in.dat" if p == "input02" else f"OPT_{p}") for p in params}
    fill = model.func("cij.util.fill:fill_cij")
    fill_params = [a.arg for a in fill.args.args]

    def fill_cij(ev, a, k):
        if len(a) > len(fill_params):
            raise RaisedV("TypeError")
        bound = dict(zip(fill_params, a))
        for kk, v in k.items():
            if kk in bound or kk not in fill_params:
                raise RaisedV("TypeError")
            bound[kk] = v
        cap["fill"] = bound
        return Filled()

    def read_table(ev, a, k):
        src_ = a[0] if a else k.get("filepath_or_buffer")
        nrows = k.get("nrows")
        engine = k.get("engine")
        if hasattr(src_, "nxt"):
            # the parser is given the open file itself: what it takes from the handle is gone for whoever reads the handle afterwards.  The C engine (the default)
            # fills a 256 KiB buffer - a static table is consumed whole; the python engine reads line by line but pulls `lookahead` lines after the header before
            # it parses anything (installed source), so header + max(nrows, lookahead) lines are gone
            if nrows is None or engine != "python":
                taken = []
                while True:
                    try:
                        taken.append(src_.nxt())
                    except RaisedV:
                        break
            else:
                want_ = 1 + max(int(as_sym(nrows)), pandas_python_parser_lookahead())
                taken = []
                while len(taken) < want_:
                    try:
                        taken.append(src_.nxt())
                    except RaisedV:
                        break
            text_ = "".join(taken[:1 + int(as_sym(nrows))] if nrows is not None else taken)
        else:
            text_ = getattr(src_, "text", None)
            if nrows is not None and isinstance(text_, str):
                text_ = "".join(text_.splitlines(keepends=True)[:1 + int(as_sym(nrows))])
        cap.update(table_text=text_, read_kw={kk: k.get(kk) for kk in ("header", "index_col", "sep", "delim_whitespace")})
        return InTable("TABLE")

    intr = io_intrinsics({"in.dat": table}, [])
    intr.update({
        "sys.stdout.write": lambda ev, a, k: out.append(a[0]) or None,
        "io.StringIO": lambda ev, a, k: SIO(a[0] if a else ""), "sio.write": lambda ev, a, k: setattr(a[0], "text", a[0].text + a[1]), "sio.seek": lambda ev, a, k: cap.setdefault("seek", []).append(a[1]),
        "pandas.read_table": read_table, "pandas.read_csv": read_table,
        "cij.util.fill:fill_cij": fill_cij,
        "filled.to_string": lambda ev, a, k: cap.update(to_string=dict(k), printed_cols=list(a[0].cols)) or "<FILLED TABLE>",
        "filled.copy": lambda ev, a, k: Filled(a[0].cols),
        "intable.copy": lambda ev, a, k: InTable("TABLE"),
        "intable.to_string": lambda ev, a, k: cap.update(to_string=dict(k), printed_cols=list(InTable.cols)) or "<UNFILLED INPUT TABLE>",
        "mixed.to_string": lambda ev, a, k: cap.update(to_string=dict(k), printed_cols=list(InTable.cols)) or f"<TABLE RE-ASSEMBLED FROM {a[0].what}>",
        "pandas.concat": lambda ev, a, k: (k.all(), Mixed("pieces: " + ", ".join(getattr(x, "what", type(x).__name__) for x in ev.iterate(a[0], None, None))))[1],
    })
    ev = Ev(model, {}, intr, ctx=ctx)
    try:
        ev.call_def(f, model.mods["cij.cli.fill"], ref, [], dict(opts))
    except RaisedV as e:
        cap["raised"] = e.exc_name
    return f, out, cap, opts, fill_params


def r_fillcmd(ctx, model):
    ref = "cij.cli.fill:main"
    # a table with one volume (N = 1) first: whatever reads ahead of the rows it needs shows there
    for tag, tbl in (("one-volume", TABLE_ONE),):
        f1, out1, cap1, _, _ = fold_fillcmd(ctx, model, tbl)
        w1 = model.where(ref, f1)
        if "raised" in cap1:
            ctx.violation(f"fillcmd.raises.{tag}", w1, "cij fill completes on a well-formed table", f"raises {cap1['raised']}", f"the fill command raises {cap1['raised']} on a well-formed static table with one volume")
            continue
        ls = tbl.splitlines(keepends=True)
        n1 = int(ls[1].split()[1])
        text1 = "".join(x for x in out1 if isinstance(x, str))
        want1 = ls[0] + ls[1] + "<FILLED TABLE>\n" + "".join(ls[3 + n1:])
        ctx.check(text1 == want1 and cap1.get("table_text") == "".join(ls[2:3 + n1]), f"cij fill on a {tag} table: header lines + filled table + remainder (lattice block) unchanged", w1,
                  expected=repr(want1)[:300], found=repr(text1)[:300] + f"; parsed {cap1.get('table_text')!r}"[:200],
                  explanation="on a table with a single volume the fill command loses or repeats lines: the rest of the file (the lattice block and its header line) is not re-emitted as it was - "
                              "a parser that is handed the open file takes more lines from it than the rows it returns", key=f"fillcmd.structure.{tag}")
    f, out, cap, opts, fill_params = fold_fillcmd(ctx, model)
    w = model.where(ref, f)
    if "raised" in cap:
        ctx.violation("fillcmd.raises", w, "cij fill completes on a well-formed table", f"raises {cap['raised']}", f"the fill command raises {cap['raised']} on a well-formed static table")
        return
    lines = TABLE_A.splitlines(keepends=True)
    text = "".join(x for x in out if isinstance(x, str))
    want = lines[0] + lines[1] + "<FILLED TABLE>\n" + "".join(lines[5:])
    ctx.check(text == want, "cij fill output = header lines + filled table + remainder (lattice block) unchanged", w, expected=repr(want)[:300], found=repr(text)[:300],
              explanation="the fill command does not re-emit the two header lines, the filled table and the rest of the file in that order", key="fillcmd.structure")
    ctx.check(cap.get("table_text") == "".join(lines[2:5]), "exactly the column-name line and the N volume rows go to the table parser", w, expected=repr("".join(lines[2:5])),
              found=repr(cap.get("table_text")), explanation="the number of rows handed to the table parser is not N+1 with N read from field 2 of line 2",
              key="fillcmd.rows")
    pc = cap.get("printed_cols") or []
    allc = TABLE_A.splitlines()[2].split() + ["c22", "c33"]
    ctx.check(bool(pc) and pc[0] == allc[0] and sorted(pc) == sorted(allc), "the printed table keeps the volume column first and every column of the filled table", w,
              expected=f"first column {allc[0]!r}; columns {sorted(allc)}", found=f"printed columns {pc}",
              explanation="the fill command prints the filled table with its columns rearranged or dropped: the static-table reader takes the FIRST column as the volume, "
                          "so with these labels (upper-case component names sort before 'V') volumes and components are mis-parsed", key="fillcmd.columns")
    bound = cap.get("fill", {})
    wrong = [f"{p} <- {bound.get(p)!r}" for p in fill_params[1:] if p in opts and bound.get(p) != opts[p]]
    wrong += [f"{p} <- {v!r}" for p, v in bound.items() if p not in opts and p != fill_params[0]]
    ok = bound.get(fill_params[0]) == "TABLE" and not wrong and {"system", "ignore_rank", "ignore_residuals", "drop_atol"} <= set(bound)
    rk = cap.get("read_kw", {})
    read_ok = (rk.get("header") in (None, "infer") or rk.get("header") == 0) and rk.get("index_col") in (None, False) \
        and (whitespace_sep(rk.get("sep")) or rk.get("delim_whitespace") is True)
    ctx.check(ok and cap.get("to_string", {}).get("index") is False and read_ok, "table parsed with a header row and no index column, filled with the like-named options, printed without index", w,
              expected="read_table(header=0, index_col=None, sep=whitespace); every option reaches the like-named fill_cij parameter; to_string(index=False)",
              found=f"fill_cij receives {bound}; mismatched: {wrong}; to_string {cap.get('to_string')}; read {rk}",
              explanation="the table is parsed/printed with an extra index column, or a command-line option reaches a different parameter of fill_cij "
                          "(or none) than the one it is named after", key="fillcmd.options")


def r_encodings(ctx, model):
    """text files of the traditional formats are opened with one encoding by every reader, writer and re-emitter: the explicit encodings of the
    package's open() calls on those files agree (a file written by write_energy is read back by read_energy; `cij fill` echoes the header lines of
    the file read_elast_data parses).  An open() without an encoding follows the locale and is accepted next to an explicit UTF-8 one (every
    supported platform's text default decodes ASCII, the documented content); a different explicit encoding is not"""
    import ast as _ast
    sites = []
    for mname in ("cij.io.traditional.elast_dat", "cij.io.traditional.qha_input", "cij.cli.fill"):
        mod = model.mods.get(mname)
        if mod is None:
            raise AnalysisError(f"anchor vanished: module {mname}")
        for q, f in mod.funcs.items():
            for c in _ast.walk(f):
                if isinstance(c, _ast.Call) and isinstance(c.func, _ast.Name) and c.func.id == "open":
                    enc = next((k.value for k in c.keywords if k.arg == "encoding"), c.args[3] if len(c.args) > 3 else None)
                    if enc is None:
                        val = None
                    elif isinstance(enc, _ast.Constant) and isinstance(enc.value, str):
                        val = enc.value.lower().replace("_", "-").replace("utf8", "utf-8")
                    else:
                        raise AnalysisError(f"{mname}:{q}: open() with an encoding that is not a constant")
                    sites.append((mod, q, c, val))
    ctx.floor("open() calls of the traditional-format readers/writers and of cij fill", len(sites), 3)
    explicit = {v for _, _, _, v in sites if v is not None}
    ref_enc = "utf-8" if "utf-8" in explicit or not explicit else sorted(explicit)[0]
    for mod, q, c, val in sites:
        ctx.check(val in (None, ref_enc), f"{mod.name}:{q} opens its text file with the common encoding", Where(mod.rel, q, c.lineno),
                  expected=f"encoding={ref_enc!r} (or none)", found=f"encoding={val!r}",
                  explanation=f"{q} decodes its file as {val!r} while the other readers and writers of the same formats use {ref_enc!r}: non-ASCII text (units, "
                              f"formulae in the header lines) is read back or re-emitted as different characters", key=f"encoding.{q}")


RULES = [
    ("R17.1-2", "phonon data: write_energy -> read_energy field wiring on reference data; no data-dependent branching", r_energy),
    ("R17.3,5", "static table reader on reference tables (lattice block, key spellings)", r_elast),
    ("R17.4", "cij fill re-emission structure", r_fillcmd),
    ("R17.6", "one text encoding for every reader, writer and re-emitter of the traditional formats", r_encodings),
]
