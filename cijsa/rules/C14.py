"""C14 — deterministic and isolated: hash seed, working directory, process history."""
from __future__ import annotations

import ast

from ..effects import (set_typed_names, unordered_comprehensions, inplace_on_shared, process_wide_caches, module_state_writes, class_state_writes, mutated_params, unordered_loops, commutative_body, ambient_uses,
                       open_calls, is_fresh_expr, local_names)
from ..libsum import parse_lib
from ..model import Model, Mod, dotted_name, src, DEAD_MODULES, member_kind
from ..report import AnalysisError, Where
from . import C09
from .C12 import Proxy, Reuse

LEVEL = "other"
TECHNIQUE = "static analysis: effects (writes to module/class-level state, parameter-mutation summaries and argument freshness, unordered iteration commutativity, ambient inputs, file modes)"
EXPLANATION = (
    "Static analysis decides the absence of the enumerated sources of history/seed/working-directory dependence: no "
    "function writes a module-level or imported mutable object, a mutable class attribute or a mutable default argument - except into a memo table "
    "whose key determines, by content, everything its entries are computed from (cijsa/memo.py: keys by value, repr() of plain data, shape + element type + bytes "
    "of an array, or entries validated by such a stamp; id() / partial keys are reported with the quantity the key misses); "
    "the keyword table of a result writer is written while the writer is constructed and by no other method, directly or through an alias (R14.8, a who-may-write table); "
    "functions that mutate a parameter are called with fresh values only and no cached property value is stored into; every "
    "iteration over an unordered collection - or over a mapping whose key order was inherited from one (the merged configuration) - has a "
    "commutative body (keyed stores only when different members give different keys) and no sequence is made from a set outside an order-insensitive consumer; no ambient source (time, random, environment, cwd, id) "
    "is used in the package outside the allow-listed CLI logging set-up; the crystal-system lookup cannot be shadowed by a "
    "working-directory entry; every file written on the output path is opened with 'w' (installed qha writers included) and "
    "the appending qha writer is not reachable; shear inputs are assigned before use. Positive-control fixtures for each "
    "zero-count rule are analysed on every run.")
NOT_DECIDED = "byte identity of the files across hash seeds, idempotence of filling, equality of repeated reads (numerical)."
ASSUMPTIONS = ["dict iteration order is insertion order (language guarantee); set/glob order is unspecified",
               "memo tables: key components hash and compare by value; functions called inside a memoised computation are functions of their arguments (ambient sources excluded)",
               "T-LIB: qha.basic_io.out.save_x_tp/save_x_tv open the file with 'w'; save_to_output with 'a' (installed source)"]

LIVE_SKIP = set(DEAD_MODULES)
PARAM_MUTATION_ALLOWED = {
    ("cij.io.traditional.elast_dat", "apply_symetry_on_elast_data", "input"):
        "documented in-place API; its only caller passes the calculator's own, freshly parsed table",
}


def live_modules(model):
    return [(n, m) for n, m in sorted(model.mods.items()) if n not in LIVE_SKIP]


FIXTURE = '''
import time, random, os
REGISTRY = {}
CACHE = []
class K:
    table = {}
    def put(self, k, v):
        self.table[k] = v
def register(name, value):
    REGISTRY[name] = value
def remember(x, seen=[]):
    seen.append(x)
    return seen
def stamp():
    return time.time() + random.random()
def where():
    return os.getcwd()
def total(values):
    s = 0.0
    for v in set(values):
        s += v
    return s
def total2(values):
    return sum(v for v in set(values))
def scale(a, f):
    a *= f
    return a
def log(p):
    with open(p, "a") as fp:
        fp.write("x")
def rescale(base, prop):
    q = units.Quantity(getattr(base, prop), "GPa")
    q.ito("kbar")
    return q.magnitude
import functools
@functools.lru_cache(maxsize=None)
def load(path):
    with open(path) as fp:
        return [l for l in fp]
'''


def fixture_mod():
    import tempfile, pathlib
    from .. import model as mm
    m = object.__new__(Mod)
    m.name, m.rel, m.src = "fixture", "selftest/fixture.py", FIXTURE
    m.tree = ast.parse(FIXTURE)
    m.path = pathlib.Path("fixture.py")
    m.imports, m.funcs, m.classes, m.globals, m.star_imports = {}, {}, {}, {}, []
    m._index()
    return m


def memo_verdict(model, mod, q, desc):
    """is the shared object a write was found on a content-keyed memo table (cijsa.memo)?  (verdict, info)"""
    from .. import memo
    f = mod.funcs.get(q)
    c = _shared_container(model, mod, q, desc)
    if f is None or c is None:
        return None, ""
    return memo.analyse(mod, q, f, c[0], c[1])


def _shared_container(model, mod, q, desc):
    """(predicate recognising the container in an AST, its uses outside q) for a write description of module_state_writes / class_state_writes"""
    import re as _re
    f = mod.funcs.get(q)
    if f is None:
        return None
    m1 = _re.search(r"module-level object (\w+)", desc)
    m2 = _re.search(r"class-level mutable attribute (\w+)\.(\w+)", desc)
    if m1 and m1.group(1) in mod.globals:
        g = m1.group(1)
        is_c = lambda n: isinstance(n, ast.Name) and n.id == g
        elsewhere = [q2 for q2, f2 in mod.funcs.items() if f2 is not f and not q2.startswith(q + ".") and not q.startswith(q2 + ".")
                     and any(is_c(n) for n in ast.walk(f2))]
        for mn2, mod2 in model.mods.items():
            if mod2 is not mod and g in mod2.imports and str(mod2.imports[g]).find(mod.name.split(".")[-1]) >= 0:
                elsewhere.append(mn2)
    elif m2:
        cname, attr = m2.group(1), m2.group(2)
        is_c = lambda n: isinstance(n, ast.Attribute) and n.attr == attr and isinstance(n.value, ast.Name) and n.value.id in ("self", "cls", cname)
        elsewhere = [q2 for q2, f2 in mod.funcs.items() if f2 is not f and any(isinstance(n, ast.Attribute) and n.attr == attr for n in ast.walk(f2))]
        for mn2, mod2 in model.mods.items():
            if mod2 is not mod and any(isinstance(n, ast.Attribute) and n.attr == attr for n in ast.walk(mod2.tree)):
                elsewhere.append(mn2)
    else:
        return None
    return is_c, elsewhere


def r_module_state(ctx, model):
    fx = fixture_mod()
    ctl = module_state_writes(model, fx) + class_state_writes(fx)
    kinds = {d.split(" ")[0] for _, _, d in ctl}
    if not (any("REGISTRY" in d for _, _, d in ctl) and any("class-level" in d for _, _, d in ctl) and any("default argument" in d for _, _, d in ctl)):
        raise AnalysisError(f"positive control for module/class-state writes failed: {[d for _, _, d in ctl]}")
    ctx.extra["positive_controls_module_state"] = len(ctl)
    n = 0
    total = 0
    n_memo = 0
    for mname, mod in live_modules(model):
        n += len(mod.funcs)
        for q, node, desc in module_state_writes(model, mod) + class_state_writes(mod):
            verdict, info = memo_verdict(model, mod, q, desc)
            if verdict == "benign":
                n_memo += 1
                ctx.ok(f"{q}: {desc.split(' (')[0]} is a memo table keyed by content", Where(mod.rel, q, getattr(node, "lineno", 0)),
                       f"key ({', '.join(info['key'])}) determines everything the memoised computation reads; {'; '.join(info['determined'])}; assumptions: {info['assumptions']}")
                continue
            total += 1
            if verdict == "harmful":
                ctx.violation(f"{q}:{desc.split(' (')[0]}", Where(mod.rel, q, getattr(node, "lineno", 0)), expected="a memo shared by the process is keyed by everything its entries were computed from",
                              found=desc, explanation=f"{q} keeps results in {desc.split(' (')[0]} for the life of the process, and {info}", instance=f"{mname}:{q}")
                continue
            ctx.violation(f"{q}:{desc.split(' (')[0]}", Where(mod.rel, q, getattr(node, "lineno", 0)), expected="no store into module-level / class-level / default-argument state",
                          found=desc, explanation=f"{q} writes {desc}: state shared by every calculation in the process, so a result can "
                                                  f"depend on calculations performed earlier", instance=f"{mname}:{q}")
    ctl_cache = process_wide_caches(fx)
    if len(ctl_cache) != 1:
        raise AnalysisError("positive control for process-wide caches failed")
    for mname, mod in live_modules(model):
        for q, node, desc in process_wide_caches(mod):
            total += 1
            ctx.violation(f"{q}:process-wide-cache", Where(mod.rel, q, node.lineno), expected="no memo that outlives a calculation",
                          found=desc, explanation=f"{q} is memoised for the life of the process ({desc}): a later calculation in the same process "
                                                  f"gets what an earlier one computed (or modified), whatever the files contain now", instance=f"{mname}:{q}:cache")
    if total == 0:
        ctx.ok(f"no write to module-level, class-level or default-argument state in {n} functions", Where("cij", "", 0), f"{n} functions")
    # imported library mutables (qha's DEFAULT_SETTINGS): every use in every live function is a copy or a read
    from ..effects import shared_object_uses
    n_uses = 0
    bad = []
    where = None
    from ..libsum import lib_global_is_mutable
    import functools
    is_mut = functools.lru_cache(None)(lib_global_is_mutable)
    for mname, mod in live_modules(model):
        # the model spells every external name by its canonical dotted path (qha.settings.DEFAULT_SETTINGS)
        for q, f in mod.funcs.items():
            shared = set()
            for node in ast.walk(f):
                if isinstance(node, ast.Attribute):
                    d = dotted_name(node)
                    if d and d.count(".") >= 1 and d.split(".")[0] in mod.imports and mod.imports[d.split(".")[0]][0] == "mod" \
                            and d.rsplit(".", 1)[1].isupper() and is_mut(d):
                        shared.add(d.rsplit(".", 1)[1])
            for nm in sorted(shared):
                for node, kind in shared_object_uses(f, nm):
                    n_uses += 1
                    where = where or Where(mod.rel, q, node.lineno)
                    if kind in ("mutated", "escapes"):
                        bad.append((Where(mod.rel, q, node.lineno), f"{q}: {nm} {kind} [{src(node)}]"))
    ref = "cij.core.qha_adapter:QHACalculatorAdapter._load_qha_calculator"
    f = model.func(ref)
    ctx.check(not bad and n_uses >= 1, "imported library defaults (qha DEFAULT_SETTINGS) are only read or copied, never updated in place or handed on", bad[0][0] if bad else model.where(ref, f),
              expected="copy.copy(DEFAULT_SETTINGS) / dict(DEFAULT_SETTINGS) / {**DEFAULT_SETTINGS, ...} before the user settings are merged in",
              found="; ".join(b for _, b in bad[:3]) or f"{n_uses} use(s), all copies or reads",
              explanation="the library's default-settings dictionary is updated in place: settings of one calculation leak into the next",
              key="DEFAULT_SETTINGS.copy")


def r_param_mutation(ctx, model):
    fx = fixture_mod()
    if "a" not in mutated_params(fx.funcs["scale"]) or "seen" not in mutated_params(fx.funcs["remember"]):
        raise AnalysisError("positive control for parameter mutation failed")
    # summaries: function name -> positions of mutated parameters
    summaries = {}
    table = {}
    for mname, mod in live_modules(model):
        for q, f in mod.funcs.items():
            mp = mutated_params(f)
            if mp:
                params = [a.arg for a in f.args.args]
                off = 1 if params and params[0] in ("self", "cls") else 0
                table[(mname, q)] = mp
                summaries.setdefault(q.split(".")[-1], set()).update(params.index(p) - off for p in mp if p in params)
    # second pass: transitive (one level)
    for mname, mod in live_modules(model):
        for q, f in mod.funcs.items():
            mp = mutated_params(f, summaries)
            if mp - table.get((mname, q), set()):
                table[(mname, q)] = mp
    # repository functions that hand back a freshly created object (every return is a fresh expression or a local bound to one)
    fresh_returning = set()
    for mname, mod in live_modules(model):
        for q, f in mod.funcs.items():
            rets = [r for r in ast.walk(f) if isinstance(r, ast.Return) and r.value is not None]
            if not rets:
                continue
            fl = {st.targets[0].id for st in ast.walk(f) if isinstance(st, ast.Assign) and len(st.targets) == 1 and isinstance(st.targets[0], ast.Name) and is_fresh_expr(st.value)}
            rebound_unfresh = {st.targets[0].id for st in ast.walk(f) if isinstance(st, ast.Assign) and len(st.targets) == 1 and isinstance(st.targets[0], ast.Name) and not is_fresh_expr(st.value)}
            params_ = {a.arg for a in f.args.args}
            if all(is_fresh_expr(r.value) or (isinstance(r.value, ast.Name) and r.value.id in fl - rebound_unfresh - params_) for r in rets):
                fresh_returning.add(q.split(".")[-1])
    ctx.extra["functions_mutating_a_parameter"] = sorted(f"{m}:{q}({', '.join(sorted(p))})" for (m, q), p in table.items())
    n_sites = 0
    for (mname, q), params in sorted(table.items()):
        mod = model.mods[mname]
        f = mod.funcs[q]
        short = q.split(".")[-1]
        plist = [a.arg for a in f.args.args]
        off = 1 if plist and plist[0] in ("self", "cls") else 0
        for p in sorted(params):
            if (mname, q, p) in PARAM_MUTATION_ALLOWED:
                ctx.ok(f"{q}({p}) mutates its argument: allowed by name", Where(mod.rel, q, f.lineno), PARAM_MUTATION_ALLOWED[(mname, q, p)])
                continue
            conf = set()
            direct = mutated_params(f, None, configures=conf)
            if p in conf and p in direct:
                # only `p.attr = value`: re-points attributes of the caller's object - exactly what the caller could write inline
                # (and inline attribute stores are judged by the typestate rule R14.7, not as value mutation)
                ctx.ok(f"{q}({p}) only re-points attributes of its argument (no in-place change of a value)", Where(mod.rel, q, f.lineno), "attribute stores only")
                continue
            pos = plist.index(p) - off
            # every call site in the package passes a fresh value
            for cm, cmod in live_modules(model):
                for cq, cf in cmod.funcs.items():
                    fresh_locals = set()
                    for st in ast.walk(cf):
                        if isinstance(st, ast.Assign) and len(st.targets) == 1 and isinstance(st.targets[0], ast.Name) and is_fresh_expr(st.value):
                            fresh_locals.add(st.targets[0].id)
                        if isinstance(st, ast.Assign) and isinstance(st.value, ast.Call) and (dotted_name(st.value.func) or "").split(".")[-1] in ({"fill_cij", "read_table", "DataFrame"} | fresh_returning):
                            for t in st.targets:
                                if isinstance(t, ast.Name):
                                    fresh_locals.add(t.id)
                    for c in ast.walk(cf):
                        if isinstance(c, ast.Call) and (dotted_name(c.func) or "").split(".")[-1] == short and not (cm == mname and cq == q):
                            if short in ("update", "append") or (isinstance(c.func, ast.Attribute) and short in ("items", "keys")):
                                continue
                            arg = c.args[pos] if pos < len(c.args) else next((k.value for k in c.keywords if k.arg == p), None)
                            if arg is None:
                                continue
                            n_sites += 1
                            def local_root(e):
                                # a selection / view / method result of a fresh local (df.iloc[order], df[cols], df.T, df.sort_values(...)):
                                # whatever it aliases was created in this function and is known to nobody else
                                while True:
                                    if isinstance(e, (ast.Attribute, ast.Subscript)):
                                        e = e.value
                                    elif isinstance(e, ast.Call) and isinstance(e.func, ast.Attribute):
                                        e = e.func.value
                                    else:
                                        return e
                            root_ = local_root(arg)
                            ok = is_fresh_expr(arg) or (isinstance(root_, ast.Name) and root_.id in fresh_locals and root_.id not in {a.arg for a in cf.args.args}) \
                                or (isinstance(arg, ast.Call) and (dotted_name(arg.func) or "").split(".")[-1] in fresh_returning)
                            ctx.check(ok, f"{cm}:{cq} calls {short}() with a fresh {p}", Where(cmod.rel, cq, c.lineno), expected="a freshly created object (copy, constructor, arithmetic result)",
                                      found=src(arg), explanation=f"{short}() mutates its argument '{p}' in place; this call site passes an object that "
                                                                  f"is shared (attribute, parameter, cached value), so a cached result or the caller's data changes",
                                      key=f"{cq}->{short}({p})")
    ctx.extra["call_sites_of_mutating_functions"] = n_sites
    # no store into a cached/plain property value through self.<prop>[...] or augmented assignment
    n = 0
    for mname, mod in live_modules(model):
        if not mname.startswith("cij.core"):
            continue
        for cname, c in mod.classes.items():
            cref = f"{mname}:{cname}"
            for q, f in mod.funcs.items():
                if not q.startswith(cname + "."):
                    continue
                for st in ast.walk(f):
                    tgt = None
                    if isinstance(st, ast.Assign):
                        tgt = next((t for t in st.targets if isinstance(t, ast.Subscript)), None)
                    elif isinstance(st, ast.AugAssign):
                        tgt = st.target
                    if tgt is None:
                        continue
                    root = tgt
                    while isinstance(root, ast.Subscript):
                        root = root.value
                    if isinstance(root, ast.Attribute) and isinstance(root.value, ast.Name) and root.value.id == "self":
                        n += 1
                        owner, mem, kind = model.find_member(cref, root.attr)
                        ctx.check(kind not in ("property", "lazy"), f"{q}: store into self.{root.attr}", Where(mod.rel, q, st.lineno),
                                  expected="a plain instance container being built", found=f"self.{root.attr} is a {kind}" if kind else "instance attribute",
                                  explanation=f"{q} stores into the value returned by the (cached) property {root.attr}: later reads of that result differ",
                                  key=f"{q}:self.{root.attr}")
    ctx.floor("stores through self.<attr>[...] in cij.core", n, 1)
    # in-place operations (pint .ito(), ndarray.sort/fill, augmented assignment) on values obtained from attributes / getattr
    fxm = fixture_mod()
    if not inplace_on_shared(fxm):
        raise AnalysisError("positive control for in-place operations on shared values failed")
    hits = 0
    for mname, mod in live_modules(model):
        if not (mname.startswith("cij.core") or mname.startswith("cij.io.output") or mname.startswith("cij.util")):
            continue
        for q, node, desc in inplace_on_shared(mod):
            hits += 1
            ctx.violation(f"{q}:inplace:{desc.split(' on ')[0]}", Where(mod.rel, q, node.lineno), expected="a copy (or an out-of-place operation)",
                          found=desc, explanation=f"{q} modifies in place a value it obtained from an attribute / property of another object ({desc}): the "
                                                  f"owner's (cached) result changes, so what is read or written later depends on what was written before",
                          instance=f"{mname}:{q}:inplace")
    if hits == 0:
        ctx.ok("no in-place operation on values obtained from attributes in cij.core / cij.io.output / cij.util", Where("cij", "", 0), "0 sites")


def r_unordered(ctx, model):
    fx = fixture_mod()
    fl = unordered_loops(fx)
    if len(fl) != 1 or commutative_body(fl[0][1])[0]:
        raise AnalysisError("positive control for order-dependent set iteration failed")
    n = 0
    fc = unordered_comprehensions(fx)
    if not fc:
        raise AnalysisError("positive control for order-dependent consumption of a set failed")
    modsets, paramsets = set_typed_names(model, list(live_modules(model)))
    from ..effects import io_reaching_functions
    io_reach = io_reaching_functions(list(live_modules(model)))
    for mname, mod in live_modules(model):
        psets = {q_: v for (m_, q_), v in paramsets.items() if m_ == mname}
        for q, node, desc, consumer in unordered_comprehensions(mod, modsets.get(mname, ()), psets):
            n += 1
            ctx.violation(f"{q}:{desc}:{consumer}", Where(mod.rel, q, node.lineno), expected="an ordered collection (or an order-insensitive consumer: set, sorted, any, all, min, max, len)",
                          found=f"{consumer}({src(node)[:70]})", explanation=f"{q} hands the items of an unordered collection ({desc}), in hash order, to {consumer}: sums of "
                          f"floating-point terms, lists and joined strings then depend on the interpreter's hash seed (PYTHONHASHSEED) in their last digits or their order",
                          instance=f"{mname}:{q}:{desc}")
        from ..effects import sequences_in_set_order
        for q, node, desc in sequences_in_set_order(mod, modsets.get(mname, ()), psets):
            n += 1
            ctx.violation(f"{q}:{desc}:sequence", Where(mod.rel, q, node.lineno), expected="sorted(<set>), or the original sequence with repeats dropped in first-occurrence order",
                          found=src(node)[:80], explanation=f"{q} turns an unordered collection ({desc}) into a sequence: its order is the hash order of the members, which changes with "
                          f"PYTHONHASHSEED for strings and for objects hashed through strings (sympy expressions); the rows of a matrix built from it, the terms of a sum, the lines of a file "
                          f"come in another order in another interpreter, and least-squares solutions and floating-point sums differ in their last digits", instance=f"{mname}:{q}:{desc}:sequence")
        for q, loop, desc in unordered_loops(mod, modsets.get(mname, ()), psets):
            n += 1
            ok, why = commutative_body(loop, mod.funcs.get(q))
            ctx.check(ok, f"{mname}:{q} iterates over {desc}: commutative body", Where(mod.rel, q, loop.lineno), expected="keyed stores by the loop variable only",
                      found=why or src(loop)[:100], explanation=f"{q} iterates over an unordered collection ({desc}) and its body is order-dependent: "
                                                                f"output depends on the interpreter's hash seed / directory order ({why})", key=f"{q}:{desc}")
        # [0] of an unordered result
        for q, f in mod.funcs.items():
            for s in ast.walk(f):
                if isinstance(s, ast.Subscript) and isinstance(s.value, ast.Call) and (dotted_name(s.value.func) or "") in ("set", "glob", "glob.glob", "os.listdir", "list") \
                        and mname.startswith("cij.core"):
                    inner = s.value
                    if (dotted_name(inner.func) or "") == "list" and not (inner.args and isinstance(inner.args[0], ast.Call) and (dotted_name(inner.args[0].func) or "") in ("set",)):
                        continue
                    n += 1
                    ctx.violation(f"{q}:index-of-unordered", Where(mod.rel, q, s.lineno), expected="no positional pick from an unordered collection",
                                  found=src(s)[:80], explanation="an element is picked by position from an unordered collection", instance=f"{mname}:{q}")
    # mappings whose key order is the iteration order of a set (the merged configuration): iterating them is iterating the set
    from ..effects import order_tainted_iterations
    for mname, mod, q, node, desc in order_tainted_iterations(model, list(live_modules(model)), modsets, paramsets):
        n += 1
        if isinstance(node, ast.For):
            ok, why = commutative_body(node, mod.funcs.get(q), effectful=io_reach)
        else:
            ok, why = False, "a comprehension over it produces its items in that order"
        ctx.check(ok, f"{mname}:{q} iterates over {desc}: commutative body", Where(mod.rel, q, getattr(node, "lineno", getattr(node.iter, "lineno", 0))),
                  expected="look-ups by key, or a body whose effect does not depend on the order", found=why or src(node)[:100],
                  explanation=f"{q} iterates over a mapping whose key order is hash-seed dependent ({desc}) and its body is order-dependent ({why}): which file is written last, "
                              f"or in which order results are produced, changes with PYTHONHASHSEED", key=f"{q}:tainted-order:{src(node.iter)[:40]}")
    ctx.floor("iterations over unordered collections (positive control keeps the matcher honest)", n, 1)


AMBIENT_ALLOWED = {}


def r_ambient(ctx, model):
    fx = fixture_mod()
    if len(ambient_uses(fx)) < 3:
        raise AnalysisError("positive control for ambient inputs failed")
    n = 0
    hits = 0
    for mname, mod in live_modules(model):
        n += len(mod.funcs)
        benign = {}
        for q_, node_, desc_ in module_state_writes(model, mod) + class_state_writes(mod):
            if memo_verdict(model, mod, q_, desc_)[0] == "benign":
                benign.setdefault(q_, []).append(_shared_container(model, mod, q_, desc_)[0])
        for q, node, full in ambient_uses(mod):
            if full == "id()" and q in benign:
                # an address that only chooses the slot of a memo table whose entries are validated by content (R14.1) does not reach any result
                f_ = mod.funcs[q]
                slot_only = any((isinstance(x, ast.Subscript) and x.slice is node and any(p_(x.value) for p_ in benign[q])) or
                                (isinstance(x, ast.Call) and isinstance(x.func, ast.Attribute) and x.func.attr == "get" and x.args and x.args[0] is node and any(p_(x.func.value) for p_ in benign[q]))
                                for x in ast.walk(f_))
                if slot_only:
                    continue
            hits += 1
            setter = any(t in full for t in ("set_option", "reset_option", "pandas.options", "set_printoptions", "seterr", "simplefilter", "filterwarnings", "setlocale", "chdir", "umask",
                                             "setrecursionlimit", "rcParams", "matplotlib.use", "setcontext"))
            ctx.violation(f"{q}:{full}", Where(mod.rel, q, node.lineno), expected="no ambient input and no process-wide state set", found=full,
                          explanation=(f"{q} sets process-wide state of a library ({full}) and does not restore it: everything formatted or computed later in the same process "
                                       f"(a second table, a second calculation) comes out differently from a fresh run") if setter else
                          f"{q} reads {full}: the result depends on time, randomness, environment or the working directory",
                          instance=f"{mname}:{q}:{full}")
    if hits == 0:
        ctx.ok(f"no ambient source (time, random, environ, getcwd, uuid, id) in {n} functions", Where("cij", "", 0), f"{n} functions")


def r_cwd(ctx, model):
    px = Reuse(ctx, lambda lab: lab.startswith("directory named") or "directory" in lab, minimum=1)
    C09.r_file(px, model)
    px.done("C09.r_file")
    # packaged data are located through the package, not the working directory: each reader folded on the file-system model
    # (paths carry their anchor); every file it opens or probes must be anchored in the package
    from ..fsmodel import FS, PathV
    from ..sym import Ev, DictV, Obj, Opaque, RaisedV
    for ref, args in (("cij.io.config.validate:validate_config", [DictV({})]), ("cij.io.config.config:apply_default_config", [DictV({})]),
                      ("cij.io.output.results_writer:_load_writer_rules_file", None)):
        f = model.func(ref)
        ctx.fn(ref)
        fs = FS(missing="opaque")
        intr = fs.intrinsics()
        for parser in ("yaml.load", "yaml.safe_load", "yaml.full_load", "yaml.unsafe_load", "json.load", "json.loads"):
            intr[parser] = lambda ev, a, k: (k.all(), DictV({}))[1]
        ev = Ev(model, {}, intr, ctx=ctx)
        ev.lenient = True
        a = args if args is not None else []
        try:
            ev.call_def(f, model.mods[ref.split(":")[0]], ref, list(a), {})
        except RaisedV:
            pass
        touched = [(op, pth) for op, pth, _ in fs.log]
        # _load_writer_rules_file takes the file name from its caller: the caller must hand it a packaged path
        if ref.endswith("_load_writer_rules_file") and f.args.args:
            mod_ = model.mods[ref.split(":")[0]]
            callers = [c for fn_ in list(mod_.funcs.values()) + [mod_.tree] for c in ast.walk(fn_) if isinstance(c, ast.Call) and (dotted_name(c.func) or "").split(".")[-1] == "_load_writer_rules_file"]
            for c in callers:
                if not c.args and not c.keywords:
                    continue            # the default: folded above
                ok_arg = c.args and isinstance(c.args[0], ast.Call) and (dotted_name(c.args[0].func) or "").split(".")[-1] == "get_data_fname"
                if not ok_arg and c.args and isinstance(c.args[0], ast.Name):
                    owner = next((fn_ for fn_ in mod_.funcs.values() if c in ast.walk(fn_)), mod_.tree)
                    defs = [st.value for st in ast.walk(owner) if isinstance(st, ast.Assign) and isinstance(st.targets[0], ast.Name) and st.targets[0].id == c.args[0].id]
                    ok_arg = bool(defs) and all(isinstance(d, ast.Call) and (dotted_name(d.func) or "").split(".")[-1] == "get_data_fname" for d in defs)
                if not ok_arg:
                    touched.append(("open", PathV(src(c.args[0]) if c.args else "?", "cwd")))
        bad = [f"{op} {pth!r}" for op, pth in touched if pth.anchor != "packaged"]
        ctx.check(bool(touched) and not bad, f"{ref.split(':')[1]} reads packaged data through get_data_fname only", model.where(ref, f),
                  expected="every file opened or probed is located inside the package (cij.data.get_data_fname)",
                  found="; ".join(bad) or f"{len(touched)} access(es), all packaged: {sorted({pth.text for _, pth in touched})}",
                  explanation="a packaged data file is looked up relative to the working directory (or a working-directory entry is probed first)", key=f"packaged.{ref.split(':')[1]}")
    # the input files named in the settings file are looked up next to the settings file, never in the working directory
    ref = "cij.core.calculator:Calculator._load"
    f = model.func(ref)
    ctx.fn(ref)
    for names in (("input01", "elast.dat"), ("sub/input01", "../shared/elast.dat")):
        fs = FS(missing="opaque", probe=lambda p_, kind: False if p_.anchor == "cwd" else None)      # nothing of that name in the cwd today; a probe is logged
        intr = fs.intrinsics(arg_anchor="cwd")
        seen = {}
        cfg = DictV({"qha": DictV({"input": names[0], "settings": DictV({})}), "elast": DictV({"input": names[1], "settings": DictV({})})})
        intr.update({
            "cij.io.config.config:read_config": lambda ev, a, k: seen.setdefault("config", a[0]) and cfg,
            "cij.io.config.config:apply_default_config": lambda ev, a, k: a[0],
            "cij.io.traditional.qha_input:read_energy": lambda ev, a, k: seen.setdefault("input01", a[0]) and Opaque("qha_input"),
            "cij.io.traditional.elast_dat:read_elast_data": lambda ev, a, k: seen.setdefault("input02", a[0]) and Opaque("elast_data"),
            "cij.core.qha_adapter:QHACalculatorAdapter": lambda ev, a, k: Opaque("adapter"),
        })
        ev = Ev(model, {(("cij.core.qha_adapter:QHACalculatorAdapter"), "__new__"): lambda ev, a, k: Opaque("adapter")}, intr, ctx=ctx)
        ev.lenient = True
        calc = Obj("cij.core.calculator:Calculator", {})
        ev.call_def(f, model.mods["cij.core.calculator"], ref, [calc, PathV("CASE/settings.yaml", "arg")], {})
        bad = []
        for what, nm in (("input01", names[0]), ("input02", names[1])):
            pth = seen.get(what)
            if not isinstance(pth, PathV) or pth.anchor != "argdir" or pth.text != f"CASE/{nm}":
                bad.append(f"{what} read from {pth!r}")
        bad += [f"{op} {pth!r}" for op, pth, _ in fs.log if pth.anchor == "cwd"]
        cfgp = seen.get("config")
        if not (isinstance(cfgp, PathV) and cfgp.anchor == "arg") and cfgp != "CASE/settings.yaml":
            bad.append(f"settings read from {cfgp!r}")
        ctx.check(not bad, f"input files {names} named in the settings file are read from the settings file's directory", model.where(ref, f),
                  expected="read_energy(<settings dir>/<qha.input>), read_elast_data(<settings dir>/<elast.input>); nothing probed in the working directory",
                  found="; ".join(bad) or "as required", explanation="an input file named in the settings file is looked up in (or first probed in) the working "
                  "directory: an unrelated entry of that name there changes which data are read", key=f"inputs.{names[0]}")


def r_files(ctx, model):
    fx = fixture_mod()
    if sorted(m for _, _, m in open_calls(fx)) != ["a", "r"]:
        raise AnalysisError("positive control for append-mode open failed")
    n = 0
    for mname, mod in live_modules(model):
        for q, node, mode in open_calls(mod):
            n += 1
            ctx.check(mode in ("r", "rt", "w", "wt", "rb"), f"{mname}:{q} open mode {mode!r}", Where(mod.rel, q, node.lineno), expected="'r' or 'w'", found=mode,
                      explanation="a file is opened in append/update mode: running twice does not give byte-identical files", key=f"{q}:open:{mode}")
    ctx.floor("open() calls in the package", n, 6)
    # installed qha writers used by cij
    tree = parse_lib("qha/basic_io/out.py")
    modes = {}
    for fn in tree.body:
        if isinstance(fn, ast.FunctionDef):
            for c in ast.walk(fn):
                if isinstance(c, ast.Call) and (dotted_name(c.func) or "") == "open" and len(c.args) > 1 and isinstance(c.args[1], ast.Constant):
                    modes[fn.name] = c.args[1].value
    ctx.libfact(f"qha.basic_io.out open modes: {modes}")
    used = set()
    for mname, mod in live_modules(model):
        for n2 in ast.walk(mod.tree):
            # any reference counts (a writer stored as a class attribute or passed on is called later)
            if isinstance(n2, (ast.Name, ast.Attribute)) and isinstance(getattr(n2, "ctx", None), ast.Load):
                nm = (dotted_name(n2) or "").split(".")[-1]
                if nm in modes:
                    used.add(nm)
    bad = sorted(u for u in used if modes[u] != "w")
    ctx.check(not bad, "qha writers referenced by cij truncate their file", Where("cij/core/calculator.py", "write_table", 0),
              expected="only 'w'-mode writers (save_x_tp, save_x_tv)", found=f"used {sorted(used)}; append-mode: {bad}",
              explanation="cij calls a qha writer that appends to its file", key="qha.writers")


def r_typestate(ctx, model):
    """shear inputs are attached before the value is read (both getters, in either order, repeatedly): each getter folded on
    a task object whose contribution calculator records, at the moment value_isothermal / value_adiabatic is read, which
    lookup tables it holds"""
    from ..sym import Ev, Obj, DictV, EnumV, RaisedV
    from ..facts import KeyObj
    TASK = "cij.core.tasks:PhononContributionTask"
    ENUM = "cij.util.voigt:ElasticModulusCalculationType"

    class Recorder:
        """stands for the Shear/Longitudinal contribution object of the task"""

        def __init__(self):
            self.attrs = {}
            self.reads = []

        def sym_getattr(self, ev, name, node, mod):
            if name in ("value_isothermal", "value_adiabatic"):
                self.reads.append((name, dict(self.attrs)))
                return __import__("sympy").Symbol(name.upper())
            if name in self.attrs:
                return self.attrs[name]
            raise RaisedV("AttributeError")

        def sym_setattr(self, ev, name, v, node, mod):
            self.attrs[name] = v

    for g, attr in (("get_modulus_isothermal", "value_isothermal"), ("get_modulus_adiabatic", "value_adiabatic")):
        ref = f"{TASK}.{g}"
        f = model.func(ref)
        ctx.fn(ref)
        bad = []
        for kind, key in (("SHEAR", "c44"), ("LONGITUDINAL", "c11"), ("OFF_DIAGONAL", "c12")):
            for history in ((), ("other",), ("same", "other")):          # nothing read before / the other getter first / both before
                rec = Recorder()
                m1, m2 = DictV({"marker": "ORIGINAL-FRAME"}), DictV({"marker": "ROTATED-FRAME"})
                task = Obj(TASK, {"key": KeyObj(key), "calculator": rec, "modulus_results": m1, "modulus_results_rotated": m2,
                                  "_task_params": Obj("cij.core.tasks:PhononContributionTaskParams", {"params": "PARAMS"})})
                ev = Ev(model, {}, {}, ctx=ctx)
                ev.lenient = True
                try:
                    other = "get_modulus_adiabatic" if g == "get_modulus_isothermal" else "get_modulus_isothermal"
                    for h in history:
                        hf = g if h == "same" else other
                        ev.call_def(model.func(f"{TASK}.{hf}"), model.mods["cij.core.tasks"], f"{TASK}.{hf}", [task], {})
                    n_before = len(rec.reads)
                    out = ev.call_def(f, model.mods["cij.core.tasks"], ref, [task], {})
                except RaisedV as e:
                    bad.append(f"{kind} after {history or 'nothing'}: raises {e.exc_name}")
                    continue
                mine = rec.reads[n_before:]
                if [r[0] for r in mine] != [attr] or str(out) != attr.upper():
                    bad.append(f"{kind} after {history or 'nothing'}: reads {[r[0] for r in mine]} and returns {out}")
                    continue
                held = mine[0][1]
                if kind == "SHEAR" and not (held.get("modulus") is m1 and held.get("modulus_rotated") is m2):
                    bad.append(f"SHEAR after {history or 'nothing'}: {attr} read while the lookup tables held are "
                               f"{ {k: getattr(v, 'd', v) for k, v in held.items()} }")
        ctx.check(not bad, f"{g}: a shear task's lookup tables are attached before {attr} is read (any read history)", model.where(ref, f),
                  expected="calculator.modulus = modulus_results and calculator.modulus_rotated = modulus_results_rotated hold when the value is read; "
                           f"the getter returns calculator.{attr}", found="; ".join(bad[:3]) or "as required in 9 scenarios",
                  explanation="a shear task is evaluated before its known components are attached (AttributeError, or the values of a previous "
                              "task / the other frame), or the getter returns another quantity", key=f"{g}.typestate")


# keyword tables of the result writers: built while the writer is constructed, read-only afterwards (who-may-write table, confirmed by reading
# cij/io/output/results_writer.py; one line of reason per entry)
CONSTRUCTION_ONLY = {
    # ResultsWriter.registry maps every keyword and alias to its packaged rule; write() / write_variables() consult it once per output entry,
    # so a store made while one entry is written changes what a LATER entry with the same keyword produces (results depend on what was written before)
    ("cij.io.output.results_writer", "ResultsWriter", "registry"): {"__init__", "_init_rules"},
}


def r_construction_only(ctx, model):
    from ..effects import is_fresh_expr, MUTATORS
    for (mname, cname, attr), writers in CONSTRUCTION_ONLY.items():
        mod = model.mods[mname]
        if cname not in mod.classes:
            raise AnalysisError(f"{mname}: class {cname} not found")
        methods = {q.split(".", 1)[1]: f for q, f in mod.funcs.items() if q.startswith(cname + ".") and q.count(".") == 1}
        if not any(isinstance(t, ast.Attribute) and t.attr == attr and isinstance(t.value, ast.Name) and t.value.id == "self"
                   for w_ in writers if w_ in methods for st in ast.walk(methods[w_]) if isinstance(st, ast.Assign) for t in st.targets):
            raise AnalysisError(f"{cname}: no constructor-time assignment of self.{attr} found")
        # the listed writers must be reachable only from construction: called from __init__ or from each other, from no other method
        for mn, f in methods.items():
            if mn in writers:
                continue
            called = {c.func.attr for c in ast.walk(f) if isinstance(c, ast.Call) and isinstance(c.func, ast.Attribute) and isinstance(c.func.value, ast.Name) and c.func.value.id == "self"}
            late = sorted(called & (writers - {"__init__"}))
            ctx.check(not late, f"{cname}.{mn} does not re-run the construction-time writers of self.{attr}", model.where(f"{mname}:{cname}.{mn}", f),
                      expected=f"{sorted(writers)} run during construction only", found=f"calls {late}" if late else "no such call",
                      explanation=f"{cname}.{mn} calls {late}, which rewrites the keyword table of a writer that is already in use", key=f"{cname}.{mn}.{attr}.rerun")
            # aliases of the table inside this method: a local bound to self.<attr> itself (not to a fresh copy)
            alias = {"<self>"}
            for st in ast.walk(f):
                if isinstance(st, ast.Assign) and isinstance(st.value, ast.Attribute) and st.value.attr == attr and isinstance(st.value.value, ast.Name) and st.value.value.id == "self":
                    alias |= {t.id for t in st.targets if isinstance(t, ast.Name)}

            def is_table(n):
                return (isinstance(n, ast.Attribute) and n.attr == attr and isinstance(n.value, ast.Name) and n.value.id == "self") or (isinstance(n, ast.Name) and n.id in alias)

            stores = []
            for st in ast.walk(f):
                targets = st.targets if isinstance(st, (ast.Assign, ast.Delete)) else [st.target] if isinstance(st, (ast.AugAssign, ast.AnnAssign)) else []
                for t in targets:
                    for tt in (t.elts if isinstance(t, (ast.Tuple, ast.List)) else [t]):
                        if isinstance(tt, ast.Subscript) and is_table(tt.value):
                            stores.append((st, src(tt)))
                        if isinstance(tt, ast.Attribute) and tt.attr == attr and isinstance(tt.value, ast.Name) and tt.value.id == "self":
                            stores.append((st, src(tt)))
                if isinstance(st, ast.Call) and isinstance(st.func, ast.Attribute) and st.func.attr in MUTATORS and is_table(st.func.value):
                    stores.append((st, src(st.func) + "()"))
            ctx.check(not stores, f"{cname}.{mn} does not store into self.{attr} (directly or through a local alias)", model.where(f"{mname}:{cname}.{mn}", f),
                      expected=f"self.{attr} is written by {sorted(writers)} only", found="; ".join(f"line {s_.lineno}: {t_}" for s_, t_ in stores[:3]) or "no store",
                      explanation=f"{cname}.{mn} stores into the writer's keyword table ({'; '.join(t_ for _, t_ in stores[:3])}): the table outlives the entry being written, so a later entry "
                                  f"with the same keyword is written by whatever an earlier entry left there - output depends on what was written before", key=f"{cname}.{mn}.{attr}.store")


RULES = [
    ("R14.8", "keyword tables of the result writers are written during construction only (who-may-write table)", r_construction_only),
    ("R14.1", "no write to module-level / class-level / default-argument state; library defaults copied before update", r_module_state),
    ("R14.2", "parameter-mutating functions are called with fresh values; no store into cached property values", r_param_mutation),
    ("R14.3", "iterations over unordered collections have commutative bodies", r_unordered),
    ("R14.4", "no ambient input (time, random, environment, cwd, id)", r_ambient),
    ("R14.5", "packaged data cannot be shadowed by working-directory entries", r_cwd),
    ("R14.6", "files are written in truncate mode; qha's appending writer is not used", r_files),
    ("R14.7", "shear inputs are assigned before use", r_typestate),
]
