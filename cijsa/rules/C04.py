"""C04 — phonon tensor assembly is complete, request-independent, acyclic (isotropic in the limit)."""
from __future__ import annotations

import itertools

import sympy as sp

from ..anf import is_zero, short
from ..facts import KeyObj, KEYS21, V2S, voigt_canon, c_intrinsic, LONG, OFFD
from ..linalg import LINALG
from ..model import dotted_name, src
from ..report import AnalysisError
from ..sym import Ev, Obj, Tup, DictV, ArrV, LibV, RaisedV, BoundLib, as_sym, is_sym, ClsV
from .C03 import SHEAR_KEYS, SHEAR

TASKS = "cij.core.tasks"
TASKLIST = f"{TASKS}:PhononContributionTaskList"
PARAMS = f"{TASKS}:PhononContributionTaskParams"
class _SymPH(sp.Function):
    """atom of a non-shear contribution; symmetric in its two strain arguments for the off-diagonal kind"""
    nargs = 3

    @classmethod
    def eval(cls, kind, a, b):
        if kind == 2 and sp.default_sort_key(a) > sp.default_sort_key(b):
            return cls(kind, b, a)


class PHISO(_SymPH):
    pass


class PHAD(_SymPH):
    pass


PH = {"iso": PHISO, "ad": PHAD}
KIND = {"long": sp.Integer(1), "offd": sp.Integer(2)}
LEVEL = "other"
TECHNIQUE = "static analysis: the task scheduler (worklist, dependency graph, topological order, result stores) folded on symbolic axial strains for several request sets and orders, compared with an independent recursive reference; exact isotropy and axis-permutation checks on the folded expressions"
EXPLANATION = (
    "Static analysis decides, by folding PhononContributionTaskList.resolve/calculate/get_*_results on symbolic axial "
    "strains (e1, e2, e3) with the non-shear contributions as atoms PH(kind, e_a/sum, e_b/sum) and the shear solver folded "
    "as in C03: every requested key receives an isothermal and an adiabatic value; the expression obtained for a key is "
    "identical whatever other keys were requested and in whatever order (several request sets and both extreme topological "
    "orders); every edge of the dependency graph points from dependency to dependant and the task order is a topological "
    "order of it (acyclic); the values equal an independent recursive reference (strain column i-1 over the row sum for "
    "index i; rotated strains for rotated-frame dependencies; isothermal dependencies feeding both stores of a shear task); "
    "with e1 = e2 = e3 the folded expressions are exactly isotropic (c11=c22=c33, c12=c13=c23, c44=c55=c66=(c11-c12)/2 when "
    "the atoms obey the C01 form, other components 0) - checked on the structural level of the expressions.")
NOT_DECIDED = ("the effect of task de-duplication by numpy.allclose for distinct strain triples closer than 1e-5 (modelled as exact "
               "equality of expressions); numerical isotropy with real spectra.")
ASSUMPTIONS = ["T-LIB: networkx.topological_sort returns some topological order of the DiGraph (two extreme orders are tried)",
               "numpy.allclose on strain parameters is modelled as equality of the symbolic expressions",
               "non-shear contributions depend on the task parameters (kind, e_a, e_b) only (C01: E0, E1)"]


class Graph:
    def __init__(self):
        self.nodes, self.edges = [], []

    def sym_getattr(self, ev, name, node, mod):
        if name in ("add_node", "add_edge", "successors", "predecessors", "out_degree", "in_degree", "has_edge", "has_node", "number_of_nodes", "number_of_edges"):
            return BoundLib(f"graph.{name}", self)
        I = sp.Integer
        if name == "edges":
            return Tup([Tup([I(u), I(v)]) for u, v in self.edges], "list")
        if name == "nodes":
            return Tup([I(u) for u in self.nodes], "list")
        raise ev.err(f"graph attribute {name}", node, mod)

    def sym_contains(self, ev, item, n, mod):
        return int(item) in self.nodes


def topo(g: Graph, reverse_ties: bool):
    indeg = {n: 0 for n in g.nodes}
    for u, v in set(g.edges):
        indeg[v] += 1
    order, avail = [], sorted(n for n in g.nodes if indeg[n] == 0)
    edges = set(g.edges)
    while avail:
        n = avail.pop(-1 if reverse_ties else 0)
        order.append(n)
        for u, v in sorted(edges):
            if u == n:
                indeg[v] -= 1
                if indeg[v] == 0:
                    avail.append(v)
                    avail.sort()
    if len(order) != len(g.nodes):
        raise RaisedV("networkx.NetworkXUnfeasible")
    return order


def setup(ctx, model, reverse_ties=False):
    graphs = []
    intr = {k: (lambda f: (lambda ev, a, kw: f(ev, a, kw)))(f) for k, f in LINALG.items()}
    intr["cij.c_"] = c_intrinsic

    def new_graph(ev, a, k):
        g = Graph()
        graphs.append(g)
        return g

    def add_node(ev, a, k):
        n = int(a[1])
        if n not in a[0].nodes:
            a[0].nodes.append(n)

    def add_edge(ev, a, k):
        u, v = int(a[1]), int(a[2])
        for n in (u, v):
            if n not in a[0].nodes:
                a[0].nodes.append(n)
        a[0].edges.append((u, v))

    def g_query(kind):
        def f(ev, a, k):
            g = a[0]
            I = sp.Integer
            if kind == "successors":
                return Tup([I(v) for u, v in g.edges if u == int(a[1])], "list")
            if kind == "predecessors":
                return Tup([I(u) for u, v in g.edges if v == int(a[1])], "list")
            if kind == "out_degree":
                return I(sum(1 for u, v in set(g.edges) if u == int(a[1])))
            if kind == "in_degree":
                return I(sum(1 for u, v in set(g.edges) if v == int(a[1])))
            if kind == "has_edge":
                return (int(a[1]), int(a[2])) in g.edges
            if kind == "has_node":
                return int(a[1]) in g.nodes
            if kind == "number_of_nodes":
                return I(len(g.nodes))
            if kind == "number_of_edges":
                return I(len(set(g.edges)))
            raise AnalysisError(f"graph query {kind}")
        return f

    def toposort(ev, a, k):
        return Tup([sp.Integer(n) for n in topo(a[0], reverse_ties)], "list")

    def allclose(ev, a, k):
        # tolerances as given at the call site (numpy defaults otherwise); they decide numeric operands; symbolic operands in
        # general position are equal iff identical - whatever the tolerance
        rtol = as_sym(k.get("rtol", a[2] if len(a) > 2 else sp.Rational(1, 10 ** 5)))
        atol = as_sym(k.get("atol", a[3] if len(a) > 3 else sp.Rational(1, 10 ** 8)))
        if not (rtol.is_number and atol.is_number):
            raise AnalysisError("numpy.allclose with a non-constant tolerance")
        rtol, atol = sp.nsimplify(rtol, rational=True), sp.nsimplify(atol, rational=True)

        def eq(x, y):
            if is_sym(x) and is_sym(y) and as_sym(x).is_number and as_sym(y).is_number and as_sym(x).is_real and as_sym(y).is_real:
                return bool(sp.Abs(as_sym(x) - as_sym(y)) <= atol + rtol * sp.Abs(as_sym(y)))
            if isinstance(x, ArrV) and isinstance(y, ArrV):
                return x.shape == y.shape and all(eq(x.get(kk), y.get(kk)) for kk in itertools.product(*[range(d) for d in x.shape]))
            if isinstance(x, Tup) and isinstance(y, Tup):
                return len(x.items) == len(y.items) and all(eq(p, q) for p, q in zip(x.items, y.items))
            if isinstance(x, (ArrV, Tup)) or isinstance(y, (ArrV, Tup)):
                return False
            return same_expr(as_sym(x), as_sym(y))
        return eq(a[0], a[1])

    def nonshear(kind):
        def ctor(ev, a, k):
            calc, e = a[0], a[1]
            ea, eb = (norm_frac(as_sym(x)) for x in e.items)
            if kind == "offd":      # the off-diagonal formulas are symmetric in (e_a, e_b): checked by R04.6b
                ea, eb = sorted((ea, eb), key=sp.default_sort_key)
            return Obj(LONG if kind == "long" else OFFD, {"value_isothermal": PH["iso"](KIND[kind], sp.simplify(ea), sp.simplify(eb)),
                                                          "value_adiabatic": PH["ad"](KIND[kind], sp.simplify(ea), sp.simplify(eb)), "e": e})
        return ctor

    for _q in ("successors", "predecessors", "out_degree", "in_degree", "has_edge", "has_node", "number_of_nodes", "number_of_edges"):
        intr[f"graph.{_q}"] = g_query(_q)
    intr.update({"networkx.DiGraph": new_graph, "graph.add_node": add_node, "graph.add_edge": add_edge, "networkx.topological_sort": toposort,
                 "numpy.allclose": allclose})
    seeds = {("global", "cij.util:c_"): LibV("cij.c_"), (LONG, "__new__"): nonshear("long"), (OFFD, "__new__"): nonshear("offd")}
    ev = Ev(model, seeds, intr, ctx=ctx)
    ev.generic_equality = True          # e1, e2, e3 are independent symbols: strain triples in general position
    return ev, graphs


_PT = None


def norm_frac(x):
    """canonical form of a strain fraction (a rational function of e1, e2, e3 with rational coefficients)"""
    y = sp.cancel(sp.expand(x))
    if any(isinstance(p, sp.Pow) and not p.exp.is_Integer for p in y.atoms(sp.Pow)):
        y = sp.simplify(y)
    return y


def same_expr(x, y):
    """exact equality of two expressions; a numeric evaluation at one rational point refutes cheaply"""
    global _PT
    if x == y:
        return True
    d = x - y
    syms = sorted(d.free_symbols, key=str)
    pt = {s: sp.Rational(p, q) for s, (p, q) in zip(syms, [(3, 7), (5, 11), (13, 17), (19, 23), (29, 31), (37, 41)])}
    try:
        v = complex(d.subs(pt).evalf(30))
        if abs(v) > 1e-12:
            return False
    except (TypeError, ValueError):
        pass
    return is_zero(d)


def strains():
    e = [sp.Symbol(f"e{i}", positive=True) for i in (1, 2, 3)]
    return e, ArrV(1, (3,), cells={(i,): e[i] for i in range(3)})


def fold(ctx, model, keys, reverse_ties=False, strain=None):
    ev, graphs = setup(ctx, model, reverse_ties)
    e, st = strains()
    if strain is not None:
        st = strain
    tl = ev.construct(TASKLIST, [Obj("cij.core.calculator:Calculator", label="calc")], {})
    ks = Tup([KeyObj(k) for k in keys], "list")
    ev.call(ev.get_attr(tl, "resolve"), [st, ks], {})
    ev.call(ev.get_attr(tl, "calculate"), [], {})
    iso = ev.call(ev.get_attr(tl, "get_isothermal_results"), [], {})
    ad = ev.call(ev.get_attr(tl, "get_adiabatic_results"), [], {})
    return ev, tl, graphs[0] if graphs else None, iso, ad, e


# ------------------------------------------------------------------ independent reference
_EIG = {}


def eig_frame(key):
    if key in _EIG:
        return _EIG[key]
    (i1, i2), (j1, j2) = V2S[int(key[1])], V2S[int(key[2])]
    E = sp.zeros(3, 3)
    for a, b in ((i1, i2), (i2, i1), (j1, j2), (j2, j1)):
        E[a - 1, b - 1] = 1
    vecs = []
    for val, mult, basis in E.eigenvects():
        for b in sp.GramSchmidt([sp.Matrix(x) for x in basis], True):
            vecs.append((sp.nsimplify(val), b.applyfunc(sp.nsimplify)))
    vecs.sort(key=lambda t: float(t[0]))
    T = sp.Matrix.hstack(*[v for _, v in vecs]).applyfunc(sp.simplify)
    w = [sp.simplify(v) for v, _ in vecs]
    _EIG[key] = (E, w, T)
    return _EIG[key]


def ref_value(key, e, which, depth=0):
    """recursive reference: value of component `key` for axial strains e (list of 3 expressions)"""
    if depth > 3:
        raise AnalysisError("reference recursion too deep (cyclic dependency)")
    a, b = int(key[1]), int(key[2])
    tot = sum(e)
    if a <= 3 and b <= 3:
        kind = "long" if a == b else "offd"
        i, k = V2S[a][0], V2S[b][0]
        ea, eb = norm_frac(e[i - 1] / tot), norm_frac(e[k - 1] / tot)
        if kind == "offd":
            ea, eb = sorted((ea, eb), key=sp.default_sort_key)
        return PH[which](KIND[kind], ea, eb)
    which_dep = "iso"      # shear inputs are isothermal for both stores (C02)
    E, w, T = eig_frame(key)
    nz = [(i, j) for i in range(3) for j in range(3) if E[i, j] != 0]
    e_orig = sp.Integer(0)
    for (i, j), (k, l) in itertools.product(nz, nz):
        kk = "c" + voigt_canon(f"{i + 1}{j + 1}{k + 1}{l + 1}")
        if kk == key:
            continue
        e_orig += ref_value(kk, e, which_dep, depth + 1) * E[i, j] * E[k, l] / 2
    er = [sum(T[i, c] ** 2 * e[i] for i in range(3)) for c in range(3)]
    e_rot = sp.Integer(0)
    nzr = [c for c in range(3) if w[c] != 0]
    for c, d in itertools.product(nzr, nzr):
        kk = "c" + voigt_canon(f"{c + 1}{c + 1}{d + 1}{d + 1}")
        e_rot += ref_value(kk, er, which_dep, depth + 1) * w[c] * w[d] / 2
    i, j, k, l = (*V2S[a], *V2S[b])
    mult = int(KeyObj(key).attrs["multiplicity"])
    return 2 * (e_rot - e_orig) / (E[i - 1, j - 1] * E[k - 1, l - 1]) / mult


def canon(x):
    return sp.expand(as_sym(x))


REQUESTS = [
    list(KEYS21),
    list(reversed(KEYS21)),
    ["c44"], ["c14"], ["c56", "c11"], ["c45", "c44", "c55"], ["c66", "c12", "c26"],
    ["c11", "c22", "c33", "c12", "c13", "c23", "c44", "c55", "c66"],
]


def r_dedup(ctx, model):
    """tasks whose strain partitions differ by more than numpy's default allclose tolerance are different tasks"""
    w = model.where(f"{PARAMS}.__eq__") if model.has_func(f"{PARAMS}.__eq__") else model.where(f"{TASKLIST}.resolve")
    R = sp.Rational
    req = ["c11", "c22", "c33", "c12", "c13", "c23", "c44", "c66"]
    for label, triple in (("axial fractions 0.33330 : 0.33333 : 0.33337 (1e-4 apart)", (R(33330, 100000), R(33333, 100000), R(33337, 100000))),
                          ("axial fractions 0.3305 : 0.3335 : 0.3360 (pseudo-cubic)", (R(3305, 10000), R(3335, 10000), R(3360, 10000)))):
        st = ArrV(1, (3,), cells={(i,): triple[i] for i in range(3)})
        try:
            ev, tl, g, iso, ad, e = fold(ctx, model, req, False, strain=st)
        except RaisedV as ex:
            ctx.violation(f"dedup.raises.{label[:22]}", w, "all requested components are computed", f"raises {ex.exc_name} at {ex.where}",
                          f"assembling the tensor for {label} raises {ex.exc_name}", instance=label)
            continue
        bad = []
        for k in iso.d.keys():
            for which, d in (("iso", iso), ("ad", ad)):
                want = canon(ref_value(k.name, list(triple), which))
                if not same_expr(canon(d.d[k]), want):
                    bad.append(f"{k.name}/{which}")
        ctx.check(not bad, f"{label}: every component is computed from its own strain partition", w, expected="c11, c22, c33 (c12, c13, c23) from three different partitions",
                  found=f"taken from another component's task: {bad[:6]}" if bad else "as required",
                  explanation="two tasks whose strain partitions differ by more than numpy's default comparison tolerance (rtol 1e-5) are treated as one: a component "
                              "is computed with another axis's strain fraction (which one depends on the request order)", key=f"dedup.{label[:22]}")


def r_degenerate(ctx, model):
    """two equal axial strain fractions: a rotated-frame dependency of a shear task and a requested plain component become ONE task (de-duplication);
    small requests in which the shear key comes first must still put every dependency in front of its dependants and give every key its reference value"""
    w = model.where(f"{TASKLIST}.resolve")
    a, b = sp.Symbol("ea", positive=True), sp.Symbol("eb", positive=True)
    fields = {"e2 = e3": (a, b, b), "e1 = e2": (a, a, b), "e1 = e3": (a, b, a)}
    requests = [["c45", "c22"], ["c22", "c45"], ["c44", "c33"], ["c46", "c11"], ["c56", "c33", "c11"], ["c66", "c22", "c11"], ["c55", "c13"]]
    if ctx.tier != "thorough":
        fields = {"e2 = e3": fields["e2 = e3"], "e1 = e2": fields["e1 = e2"]}
        requests = [requests[0], requests[2], requests[5]]
    n = 0
    for fname, triple in fields.items():
        st = ArrV(1, (3,), cells={(i,): triple[i] for i in range(3)})
        for req in requests:
            for rev in (False, True):
                n += 1
                label = f"{fname}, request {req} ({'last' if rev else 'first'}-ready order)"
                try:
                    ev, tl, g, iso, ad, e = fold(ctx, model, req, rev, strain=st)
                except RaisedV as ex:
                    ctx.violation(f"degenerate.raises.{fname}.{'-'.join(req)}.{rev}", w, "all requested components are computed", f"raises {ex.exc_name} at {ex.where}",
                                  f"with {fname}, assembling {req} raises {ex.exc_name}: a task is evaluated before a dependency it shares with a requested component", instance=label)
                    continue
                bad = []
                if sorted(k.name for k in iso.d.keys()) != sorted(req):
                    bad.append(f"keys {sorted(k.name for k in iso.d.keys())}")
                for k in iso.d.keys():
                    for which, d in (("iso", iso), ("ad", ad)):
                        if not same_expr(canon(d.d[k]), canon(ref_value(k.name, list(triple), which))):
                            bad.append(f"{k.name}/{which}")
                ctx.check(not bad, f"{label}: every key gets its reference value", w, expected="values of the recursive reference on the same strain field", found=str(bad[:5]) if bad else "as required",
                          explanation="with two equal axial strains a requested component is missing or is taken from a task with other strain fractions", key=f"degenerate.{fname}.{'-'.join(req)}.{rev}")
    ctx.floor("degenerate-strain request scenarios", n, 12)


def r_assembly(ctx, model):
    w = model.where(f"{TASKLIST}.resolve")
    seen = {}
    n = 0
    reqs = REQUESTS if ctx.tier == "thorough" else [REQUESTS[0], REQUESTS[3], REQUESTS[5], REQUESTS[1]]
    for ri, req in enumerate(reqs):
        for rev in ((False, True) if ctx.tier == "thorough" or ri == 0 else (bool(ri % 2),)):
            n += 1
            label = f"request {req if len(req) < 6 else str(req[:3])[:-1] + ', ...]'} ({'last' if rev else 'first'}-ready order)"
            try:
                ev, tl, g, iso, ad, e = fold(ctx, model, req, rev)
            except RaisedV as ex:
                ctx.violation(f"assembly.raises.{len(req)}.{rev}", w, "all requested components are computed", f"raises {ex.exc_name} at {ex.where}",
                              f"assembling {req[:4]}... raises {ex.exc_name}: a dependency is not available when a task is evaluated (order/graph) or a lookup fails",
                              instance=label)
                continue
            got_keys = sorted(k.name for k in iso.d.keys())
            ctx.check(got_keys == sorted(req) and sorted(k.name for k in ad.d.keys()) == sorted(req), f"{label}: every requested key gets a value", w,
                      expected=str(sorted(req))[:120], found=str(got_keys)[:120], explanation="a requested component receives no value (or an unrequested one is returned)",
                      key=f"complete.{'-'.join(req[:3])}.{len(req)}.{rev}")
            bad = []
            for k in iso.d.keys():
                for which, d in (("iso", iso), ("ad", ad)):
                    val = canon(d.d[k])
                    tag = (k.name, which)
                    if tag not in seen:
                        seen[tag] = val
                    elif not same_expr(seen[tag], val):
                        bad.append(f"{k.name}/{which}")
            ctx.check(not bad, f"{label}: values identical to those of every other request", w, expected="same expression per key", found=f"differs for {bad[:5]}",
                      explanation="the value of a component depends on which other components were requested or on their order", key=f"independent.{'-'.join(req[:3])}.{len(req)}.{rev}")
            # graph orientation and order
            tasks = ev.get_attr(tl, "_tasks")
            order = [tasks.items.index(t) for t in ev.get_attr(tl, "data").items]
            pos = {t: i for i, t in enumerate(order)}
            bad_edges = []
            for u, v in set(g.edges):
                dep_task, user_task = tasks.items[u], tasks.items[v]
                deps = ev.call(ev.get_attr(user_task, "get_dependencies"), [], {})
                dep_params = [ev.call(ev.get_attr(ClsV(PARAMS), "create"), [d.items[0], d.items[1]], {}) for d in deps.items]
                is_dep = any(ev.compare(__import__("ast").Eq(), ev.get_attr(dep_task, "task_params"), p, None, None) for p in dep_params)
                if not is_dep or pos[u] > pos[v]:
                    bad_edges.append((u, v))
            ctx.check(not bad_edges and len(order) == len(set(order)) == len(tasks.items), f"{label}: edges point dependency -> dependant and the order respects them", w,
                      expected="topological order of the dependency graph", found=f"bad edges {bad_edges[:4]}; {len(order)} tasks",
                      explanation="the dependency graph is oriented the wrong way or the task order is not a topological order of it", key=f"graph.{'-'.join(req[:3])}.{len(req)}.{rev}")
    ctx.extra["request_sets_folded"] = n
    # reference values
    e = [sp.Symbol(f"e{i}", positive=True) for i in (1, 2, 3)]
    bad = []
    for k in KEYS21:
        for which in ("iso", "ad"):
            want = canon(ref_value(k, e, which))
            got = seen.get((k, which))
            if got is None or not is_zero(got - want):
                bad.append(f"{k}/{which}: {short(got, 100) if got is not None else 'missing'}")
    ctx.check(not bad, "all 21 components (both stores) equal the independent recursive reference", model.where(f"{TASKLIST}.calculate"),
              expected="non-shear: PH(kind, e_i/sum, e_k/sum); shear: C03 formula on isothermal dependencies in both frames", found="; ".join(bad[:3]) or "42 values as required",
              explanation="a component is assembled from the wrong strain fractions, the wrong dependencies or the wrong store", key="reference")
    ctx.exhaustive = False


def r_isotropy(ctx, model):
    """equal axial strains: every non-shear atom becomes PH(kind, 1/3, 1/3): the folded tensor has the isotropic pattern"""
    ev, tl, g, iso, ad, e = fold(ctx, model, list(KEYS21), False)
    third = sp.Rational(1, 3)
    L, O = PH["iso"](KIND["long"], third, third), PH["iso"](KIND["offd"], third, third)
    vals = {k.name: sp.simplify(as_sym(v).subs({e[0]: e[2], e[1]: e[2]})) for k, v in iso.d.items()}
    bad = []
    for k in ("c11", "c22", "c33"):
        if not is_zero(vals[k] - L):
            bad.append(f"{k} = {vals[k]}")
    for k in ("c12", "c13", "c23"):
        if not is_zero(vals[k] - O):
            bad.append(f"{k} = {vals[k]}")
    for k in ("c44", "c55", "c66"):
        if not is_zero(vals[k] - (L - O) / 2):
            bad.append(f"{k} = {vals[k]} (want (c11-c12)/2)")
    for k in KEYS21:
        if k not in ("c11", "c22", "c33", "c12", "c13", "c23", "c44", "c55", "c66") and not is_zero(vals[k]):
            bad.append(f"{k} = {vals[k]} (want 0)")
    ctx.check(not bad, "equal axial strains: c11=c22=c33, c12=c13=c23, c44=c55=c66=(c11-c12)/2, all other components 0 (exactly, on the folded expressions)",
              model.where(f"{TASKLIST}.calculate"), expected="isotropic pattern", found="; ".join(bad[:4]) or "isotropic",
              explanation="with equal axial strain fractions the assembled phonon tensor is not isotropic", key="isotropy")
    # relabelling of axes: permuting (e1,e2,e3) permutes the assembled tensor accordingly
    perm_bad = []
    perms = [p for p in itertools.permutations(range(3)) if p != (0, 1, 2)]
    if ctx.tier != "thorough":
        perms = [(1, 0, 2), (1, 2, 0)]       # a transposition and a cycle generate the group
    for perm in perms:
        sub = {e[i]: sp.Symbol(f"t{perm[i]}", positive=True) for i in range(3)}
        back = {sp.Symbol(f"t{i}", positive=True): e[i] for i in range(3)}
        for k in KEYS21:
            idx = [*V2S[int(k[1])], *V2S[int(k[2])]]
            # component with axis labels permuted: axis a -> perm[a]
            pk = "c" + voigt_canon("".join(str(perm[a - 1] + 1) for a in idx))
            lhs = as_sym(iso.d[KeyObj(k)]).subs(sub, simultaneous=True).subs(back, simultaneous=True)
            rhs = as_sym(iso.d[KeyObj(pk)])
            if not same_expr(lhs, rhs):
                perm_bad.append(f"{perm}:{k}->{pk}")
    ctx.check(not perm_bad, "relabelling the crystal axes permutes the assembled tensor accordingly (5 permutations x 21 keys)", model.where(f"{TASKLIST}.calculate"),
              expected="c_k(e_perm) = c_perm(k)(e)", found=str(perm_bad[:5]) or "covariant", explanation="the assembled tensor is not covariant under axis relabelling",
              key="permutation")


def r_symmetric_offd(ctx, model):
    """the off-diagonal contribution is symmetric under exchange of its two strain fractions (used by the atoms above)"""
    from . import C01
    from ..facts import E0, E1, MODE_DEP, QPHYS, E
    from ..anf import compare, bose
    ev = C01.make_ev(ctx, model)
    for attr in ("value_isothermal", "value_adiabatic"):
        v = C01.norm(ev.get_attr(Obj(OFFD), attr))
        t = sp.Symbol("TMPSWAP", positive=True)
        swapped = v.subs(E0, t).subs(E1, E0).subs(t, E1)
        same, why = compare(v, swapped, MODE_DEP)
        owner, f, _ = model.find_member(OFFD, attr)
        ctx.check(same, f"off-diagonal {attr} symmetric under e_i <-> e_j", model.where(f"{owner}.{attr}", f), expected="f(e_i, e_j) = f(e_j, e_i)", found=why[:200] or "symmetric",
                  explanation="c_ij (i != j) depends on the order of its two strain fractions: c12 computed as (e1, e2) and as (e2, e1) would differ, so the "
                              "value depends on how a task was first requested", key=f"offd.{attr}.symmetric")


RULES = [
    ("R04.6b", "off-diagonal contribution symmetric in its two strain fractions", r_symmetric_offd),
    ("R04.1-5,7", "completeness, request independence, graph orientation/order, reference values (8 request sets x 2 topological orders)", r_assembly),
    ("R04.8", "task de-duplication no looser than numpy's default comparison: near-degenerate strain partitions stay distinct tasks", r_dedup),
    ("R04.6", "isotropic limit and axis-permutation covariance on the folded expressions", r_isotropy),
    ("R04.9", "two equal axial strains: shared (de-duplicated) tasks are still evaluated before their dependants, in small requests with the shear key first", r_degenerate),
]
